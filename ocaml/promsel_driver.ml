(* C17 part 2: evaluates the extracted selection models (module Promsel) on the cases of a data
   file (one S-expression per line, written by checks/promsel.py; Cases.data_file names it) and
   prints one line per case:
     sql  <id> <hex sql | -> <mr 0/1>
     prof <id> <hex sql | ->
     lbl  <id> <hex sql | ->
     sel  <id> <model/implementation mismatch 0/1> <spec violation 0/1> <duplicate-label-set spec violation 0/1: PromSelDup.select_dup_exact_ok, every series carries exactly the rows of the fingerprints under its label set>
     sem  <id> <verdict code>
     psem <id> <verdict code>
     rows <id> <statement index> <code> <fp:value:timestamp_ms>...
     down <id> <verdict code> <number of rows the down-sampled statement yields>
     re   <id> <parse valid 0/1> <per value: s = RE2 search, p = Prometheus anchored match, as 0/1 pairs "sp">...
     gap  <id> <per pattern: parse valid 0/1>   (input line: patterns outside the oracle table of the sem/psem/down line that follows)
   Atoms: decimal integers (any size), t / f, none, constructor names, strings as h<hex bytes>. *)
open Promsel

type sx = A of string | L of sx list

let parse_line (str : string) : sx =
  let n = String.length str in
  let pos = ref 0 in
  let rec skip () = if !pos < n && (str.[!pos] = ' ' || str.[!pos] = '\t') then (incr pos; skip ()) in
  let rec item () : sx =
    skip ();
    if !pos >= n then failwith "unexpected end of line"
    else if str.[!pos] = '(' then begin
      incr pos;
      let acc = ref [] in
      let rec loop () =
        skip ();
        if !pos >= n then failwith "unclosed list"
        else if str.[!pos] = ')' then incr pos
        else (acc := item () :: !acc; loop ()) in
      loop ();
      L (List.rev !acc)
    end else begin
      let st = !pos in
      while !pos < n && str.[!pos] <> ' ' && str.[!pos] <> '(' && str.[!pos] <> ')' do incr pos done;
      A (String.sub str st (!pos - st))
    end in
  item ()

let fail_sx what = failwith ("bad " ^ what)

let nd (str : string) : n =
  let d = Array.init (String.length str) (fun i -> Char.code str.[i] - 48) in
  let is_zero () = Array.for_all (fun x -> x = 0) d in
  let halve () = let r = ref 0 in Array.iteri (fun i x -> let v = !r * 10 + x in d.(i) <- v / 2; r := v mod 2) d; !r in
  let rec bits acc = if is_zero () then List.rev acc else let b = halve () in bits (b :: acc) in
  let rec build = function [] -> failwith "zero" | [_] -> XH | b :: r -> if b = 1 then XI (build r) else XO (build r) in
  match bits [] with [] -> N0 | bs -> Npos (build bs)

let n_of = function A a -> nd a | _ -> fail_sx "N"
let z_of = function
  | A a -> if String.length a > 0 && a.[0] = '-'
           then (match nd (String.sub a 1 (String.length a - 1)) with N0 -> Z0 | Npos p -> Zneg p)
           else (match nd a with N0 -> Z0 | Npos p -> Zpos p)
  | _ -> fail_sx "Z"
let int_of = function A a -> int_of_string a | _ -> fail_sx "int"
let bool_of = function A "t" -> true | A "f" -> false | _ -> fail_sx "bool"
let str_of = function
  | A a when String.length a >= 1 && a.[0] = 'h' ->
    let k = (String.length a - 1) / 2 in
    List.init k (fun i -> Char.chr (int_of_string ("0x" ^ String.sub a (1 + 2 * i) 2)))
  | _ -> fail_sx "string"
let list_of f = function L l -> List.map f l | _ -> fail_sx "list"
let opt_of f = function A "none" -> None | L [A "some"; x] -> Some (f x) | _ -> fail_sx "option"
let pair_of f g = function L [a; b] -> (f a, g b) | _ -> fail_sx "pair"

let lop_of = function
  | A "OAnd" -> OAnd | A "OOr" -> OOr | A "OEq" -> OEq | A "ONeq" -> ONeq | A "OLt" -> OLt | A "OLe" -> OLe
  | A "OGt" -> OGt | A "OGe" -> OGe | _ -> fail_sx "lop"

let rec expr_of = function
  | L [A "Raw"; x] -> Raw (str_of x)
  | L [A "Id"; x] -> Id (str_of x)
  | L [A "StrV"; x] -> StrV (str_of x)
  | L [A "IntV"; x] -> IntV (z_of x)
  | L [A "DateV"; x] -> DateV (z_of x)
  | L [A "LOp"; fn; cl] -> LOp (lop_of fn, list_of expr_of cl)
  | L [A "In"; l; r] -> In (expr_of l, list_of expr_of r)
  | L [A "WRef"; a; q] -> WRef (str_of a, select_of q)
  | L [A "Col"; e; a] -> Col (expr_of e, str_of a)
  | L [A "Ord"; e; b] -> Ord (expr_of e, bool_of b)
  | L [A "Fn"; nm; args] -> Fn (str_of nm, list_of expr_of args)
  | L [A "Sep"; sp; parts] -> Sep (str_of sp, list_of expr_of parts)
  | L [A "Idx"; e; k] -> Idx (expr_of e, expr_of k)
  | L [A "BitSetAnd"; cl] -> BitSetAnd (list_of expr_of cl)
  | L [A "SubQ"; q] -> SubQ (select_of q)
  | _ -> fail_sx "expr"
and select_of = function
  | L [d; cols; from; where; prewhere; having; groupby; orderby; limit; offset; withs] ->
    { s_distinct = bool_of d; s_cols = list_of expr_of cols; s_from = opt_of expr_of from; s_where = opt_of expr_of where;
      s_prewhere = opt_of expr_of prewhere; s_having = opt_of expr_of having; s_groupby = list_of expr_of groupby;
      s_orderby = list_of expr_of orderby; s_limit = opt_of expr_of limit; s_offset = opt_of expr_of offset;
      s_withs = list_of (pair_of str_of select_of) withs; s_joins = []; s_settings = []; s_unions = [] }
  | _ -> fail_sx "select"

let mop_of = function A "MEq" -> MEq | A "MNeq" -> MNeq | A "MRe" -> MRe | A "MNre" -> MNre | _ -> fail_sx "mop"
let matcher_of = function L [n; op; v] -> { m_name = str_of n; m_op = mop_of op; m_val = str_of v } | _ -> fail_sx "matcher"
let selector_of = function L [n; op; v] -> { sl_name = str_of n; sl_op = mop_of op; sl_val = str_of v } | _ -> fail_sx "selector"
let hints_of = function
  | L [st; en; step; fn; rg] -> { h_start = z_of st; h_end = z_of en; h_step = z_of step; h_func = str_of fn; h_range = z_of rg }
  | _ -> fail_sx "hints"
let ctx_of = function
  | L [from; to_; limit; cluster; tp; gin; spl; ts; tsd; m15] ->
    { c_from_ns = z_of from; c_to_ns = z_of to_; c_limit = z_of limit; c_asc = false; c_cluster = bool_of cluster; c_type = z_of tp;
      c_finalize = false; c_step_ns = Z0; t_gin = str_of gin; t_samples = str_of spl; t_ts = str_of ts; t_ts_dist = str_of tsd;
      t_m15 = str_of m15 }
  | _ -> fail_sx "ctx"
let kind_of = function A "KRaw" -> KRaw | A "KDownsample" -> KDownsample | A "KQuerier" -> KQuerier | _ -> fail_sx "kind"
let labels_of = list_of (pair_of str_of str_of)
let row_of = function L [fp; v; ts] -> { r_fp = n_of fp; r_val = z_of v; r_ts = z_of ts } | _ -> fail_sx "row"
let out_of = function
  | L [l; fp; smp] -> { o_labels = labels_of l; o_fp = n_of fp; o_samples = list_of (pair_of z_of z_of) smp }
  | _ -> fail_sx "out_series"
let gin_of = function
  | L [d; k; v; fp; t] -> { g_date = z_of d; g_key = str_of k; g_val = str_of v; g_fp = n_of fp; g_type = z_of t } | _ -> fail_sx "ginrow"
let sample_of = function
  | L [fp; t; ts; v] -> { sm_fp = n_of fp; sm_type = z_of t; sm_ts_ns = z_of ts; sm_value = z_of v } | _ -> fail_sx "samplerow"
let ts_of = function
  | L [d; fp; t; l] -> { t_date = z_of d; t_fp = n_of fp; t_type = z_of t; t_labels = labels_of l } | _ -> fail_sx "tsrow"
let db_of = function
  | L [g; s; t] -> { d_gin = list_of gin_of g; d_samples = list_of sample_of s; d_series = list_of ts_of t } | _ -> fail_sx "database"
let pstored_of = function
  | L [fp; d; tid; svc; stu; l] -> { p_fp = n_of fp; p_date = z_of d; p_type_id = str_of tid; p_service = str_of svc;
                                     p_stu = list_of (pair_of str_of str_of) stu; p_labels = labels_of l }
  | _ -> fail_sx "pstored"
let tbl_of = list_of (function L [p; v; b] -> ((str_of p, str_of v), bool_of b) | _ -> fail_sx "oracle entry")

let hex_of_chars (l : char list) : string =
  let b = Buffer.create 4096 in
  List.iter (fun c -> Buffer.add_string b (Printf.sprintf "%02x" (Char.code c))) l;
  Buffer.contents b
let b01 b = if b then "1" else "0"
let ostr = function Some s -> hex_of_chars s | None -> "-"
let rec int_of_pos = function XH -> 1 | XO p -> 2 * int_of_pos p | XI p -> 2 * int_of_pos p + 1
let int_of_z = function Z0 -> 0 | Zpos p -> int_of_pos p | Zneg p -> - (int_of_pos p)

(* decimal text of an N of any size *)
let dec_of_n = function
  | N0 -> "0"
  | Npos p ->
    let rec bits p acc = match p with XH -> 1 :: acc | XO q -> bits q (0 :: acc) | XI q -> bits q (1 :: acc) in
    let step ds bit =
      let carry = ref bit in
      let res = List.map (fun d -> let v = d * 2 + !carry in carry := v / 10; v mod 10) ds in
      if !carry > 0 then res @ [!carry] else res in
    let ds = List.fold_left step [0] (bits p []) in
    String.concat "" (List.rev_map string_of_int ds)

let rec re_of = function
  | A "RAny" -> RAny | A "REps" -> REps | A "RBol" -> RBol | A "REol" -> REol
  | L [A "RChr"; c] -> RChr (Char.chr (int_of c))
  | L [A "RAlt"; a; b] -> RAlt (re_of a, re_of b)
  | L [A "RCat"; a; b] -> RCat (re_of a, re_of b)
  | L [A "RStar"; a] -> RStar (re_of a) | L [A "RPlus"; a] -> RPlus (re_of a) | L [A "ROpt"; a] -> ROpt (re_of a)
  | L [A "RGrp"; a] -> RGrp (re_of a) | L [A "RCap"; a] -> RCap (re_of a)
  | _ -> fail_sx "re"

(* match() patterns of an implementation statement that the case's Go-made oracle table does not hold (a changed wrapper
   text, ..): for patterns of the fragment of model/PromRegex.v the answers are COMPUTED by the model (re_search) on the
   strings of the case's database and added to the table of the sem / psem / down line of the same id that follows *)
let gaps : (int, ((char list * char list) * bool) list) Hashtbl.t = Hashtbl.create 16
let gap_of id = match Hashtbl.find_opt gaps (int_of id) with Some l -> l | None -> []

let handle (x : sx) : unit =
  match x with
  | L [A "gap"; id; pats; vals] ->
    let vs = list_of str_of vals in
    Printf.printf "gap %d" (int_of id);
    let entries = List.concat (list_of (function
      | L [p; ast] ->
        let r = re_of ast in
        let pt = str_of p in
        let ok = re_case_ok r pt in
        Printf.printf " %s" (b01 ok);
        if ok then List.map2 (fun v (s, _) -> ((pt, v), s)) vs (re_case_answers r vs) else []
      | _ -> fail_sx "gap pattern") pats) in
    Hashtbl.replace gaps (int_of id) entries;
    print_newline ()
  | L [A "re"; id; ast; text; vals] ->
    let r = re_of ast in
    Printf.printf "re %d %s" (int_of id) (b01 (re_case_ok r (str_of text)));
    List.iter (fun (a, b) -> Printf.printf " %s%s" (b01 a) (b01 b)) (re_case_answers r (list_of str_of vals));
    print_newline ()
  | L [A "sql"; id; kind; h; c; ms; full] ->
    let (txt, mr) = pcase_sql { pc_id = z_of id; pc_kind = kind_of kind; pc_hints = hints_of h; pc_ctx = ctx_of c;
                                pc_ms = list_of matcher_of ms; pc_full = tbl_of full } in
    Printf.printf "sql %d %s %s\n" (int_of id) (ostr txt) (b01 mr)
  | L [A "prof"; id; table; from; to_; cluster; sels; full] ->
    Printf.printf "prof %d %s\n" (int_of id)
      (ostr (fcase_sql { fc_id = z_of id; fc_table = str_of table; fc_from_ns = z_of from; fc_to_ns = z_of to_;
                         fc_cluster = bool_of cluster; fc_sels = list_of selector_of sels; fc_full = tbl_of full }))
  | L [A "lbl"; id; cluster; fps; from; to_] ->
    Printf.printf "lbl %d %s\n" (int_of id) (ostr (render (labels_fetch (bool_of cluster) (list_of n_of fps) (z_of from) (z_of to_)) false))
  | L [A "sel"; id; cluster; h; ms; rows; fetch; obs] ->
    let sc = { sc_id = z_of id; sc_mr = querier_mr (bool_of cluster) (hints_of h) (list_of matcher_of ms);
               sc_rows = list_of row_of rows; sc_fetch = list_of (pair_of n_of labels_of) fetch; sc_obs = list_of out_of obs } in
    Printf.printf "sel %d %s %s %s\n" (int_of id) (b01 (scase_mismatch sc)) (b01 (scase_spec_violation sc)) (b01 (scase_dup_exact_violation sc))
  | L [A "msel"; id; cluster; h; ms; rows; series; obs] ->
    let sc = multi_scase (z_of id) (bool_of cluster) (hints_of h) (list_of matcher_of ms) (list_of row_of rows)
               (list_of ts_of series) (list_of out_of obs) in
    Printf.printf "sel %d %s %s %s\n" (int_of id) (b01 (scase_mismatch sc)) (b01 (scase_spec_violation sc)) (b01 (scase_dup_exact_violation sc))
  | L [A "sem"; id; cluster; h; ms; db; tree; text; search; full] ->
    let se = { se_id = z_of id; se_cluster = bool_of cluster; se_hints = hints_of h; se_ms = list_of matcher_of ms; se_db = db_of db;
               se_impl = select_of tree; se_text = str_of text; se_search = tbl_of search @ gap_of id; se_full = tbl_of full } in
    Printf.printf "sem %d %d\n" (int_of id) (int_of_z (sem_verdict se))
  | L [A "psem"; id; cluster; table; from; to_; sels; series; tree; text; search; full] ->
    let pe = { pe_id = z_of id; pe_cluster = bool_of cluster; pe_table = str_of table; pe_from_ns = z_of from; pe_to_ns = z_of to_;
               pe_sels = list_of selector_of sels; pe_series = list_of pstored_of series; pe_impl = select_of tree;
               pe_text = str_of text; pe_search = tbl_of search @ gap_of id; pe_full = tbl_of full } in
    Printf.printf "psem %d %d\n" (int_of id) (int_of_z (psem_verdict pe))
  | L [A "down"; id; cluster; h; ms; db; tree; text; search; full] ->
    let dc = { dn_id = z_of id; dn_cluster = bool_of cluster; dn_hints = hints_of h; dn_ms = list_of matcher_of ms; dn_db = db_of db;
               dn_impl = select_of tree; dn_text = str_of text; dn_search = tbl_of search @ gap_of id; dn_full = tbl_of full } in
    let (code, rows) = down_verdict dc in
    Printf.printf "down %d %d %d\n" (int_of id) (int_of_z code) (List.length rows)
  | L [A "rows"; id; idx; db; tree; text; search] ->
    let (code, rows) = engine_rows (select_of tree) (str_of text) (db_of db) (tbl_of search @ gap_of id) in
    Printf.printf "rows %d %d %d" (int_of id) (int_of idx) (int_of_z code);
    List.iter (fun r -> Printf.printf " %s:%d:%d" (dec_of_n r.r_fp) (int_of_z r.r_val) (int_of_z r.r_ts)) rows;
    print_newline ()
  | _ -> fail_sx "case"

let () =
  let ic = open_in Cases.data_file in
  (try
     while true do
       let ln = input_line ic in
       if String.length ln > 0 then handle (parse_line ln)
     done
   with End_of_file -> ());
  close_in ic
