(* helpers used by generated case files: OCaml literals -> extracted Coq values.
   `open M` for the extracted module M must precede the inclusion of this text. *)
let s (x : string) : char list = List.init (String.length x) (String.get x)
let rec pos_of_int (n : int) : positive =
  if n <= 1 then XH else if n land 1 = 0 then XO (pos_of_int (n lsr 1)) else XI (pos_of_int (n lsr 1))
let z (n : int) : z = if n = 0 then Z0 else if n > 0 then Zpos (pos_of_int n) else Zneg (pos_of_int (- n))
let n (k : int) : n = if k = 0 then N0 else Npos (pos_of_int k)
