(* C10 TraceQL tree-level tie.  Reads the data file named by Cases.data_file (written by checks/c10tq.py), one item per line:
     T <id> <tree>            a SQL object tree of the real TraceQL planners (S-expression, see select_of / expr_of below)
     P <case id> <base id> <marker> <intended>
     M <id> <mode> <ctx> <script>   a parsed request (AST of model/Traceql.v with the harness's library values), planned by C11's model
   and prints
     m <id> E<n> | P | <pok>/<same>/<flat hex>/<pieces>      TraceqlPlan.plan script mode ctx 1: error class, panic, or the statement
     t <id> <pok 0|1>/<TqSql.render = flat pieces 0|1>/<flat hex>/<piece>,<piece>,...      <piece> = T<hex> | L<hex> | Q<hex>
     p <case id> <base id> <1 iff case tree = tq_marker_subst marker intended base tree (structural equality)>
   Atoms: decimal integers (any size), t / f, none, constructor names, strings as h<hex bytes>. *)
open C10tq

type sx = A of string | L of sx list

let parse_from (str : string) (start : int) : sx =
  let n = String.length str in
  let pos = ref start in
  let rec skip () = if !pos < n && (str.[!pos] = ' ' || str.[!pos] = '\t') then (incr pos; skip ()) in
  let rec item () : sx =
    skip ();
    if !pos >= n then failwith "unexpected end of line"
    else if str.[!pos] = '(' then begin
      incr pos;
      let acc = ref [] in
      let rec loop () =
        skip ();
        if !pos >= n then failwith "unclosed list"
        else if str.[!pos] = ')' then incr pos
        else (acc := item () :: !acc; loop ()) in
      loop ();
      L (List.rev !acc)
    end else begin
      let st = !pos in
      while !pos < n && str.[!pos] <> ' ' && str.[!pos] <> '(' && str.[!pos] <> ')' do incr pos done;
      A (String.sub str st (!pos - st))
    end in
  item ()

let fail_sx what = failwith ("bad " ^ what)

let nd (str : string) : n =
  let d = Array.init (String.length str) (fun i -> Char.code str.[i] - 48) in
  let is_zero () = Array.for_all (fun x -> x = 0) d in
  let halve () = let r = ref 0 in Array.iteri (fun i x -> let v = !r * 10 + x in d.(i) <- v / 2; r := v mod 2) d; !r in
  let rec bits acc = if is_zero () then List.rev acc else let b = halve () in bits (b :: acc) in
  let rec build = function [] -> failwith "zero" | [_] -> XH | b :: r -> if b = 1 then XI (build r) else XO (build r) in
  match bits [] with [] -> N0 | bs -> Npos (build bs)

let z_of = function
  | A a -> if String.length a > 0 && a.[0] = '-'
           then (match nd (String.sub a 1 (String.length a - 1)) with N0 -> Z0 | Npos p -> Zneg p)
           else (match nd a with N0 -> Z0 | Npos p -> Zpos p)
  | _ -> fail_sx "Z"
let bool_of = function A "t" -> true | A "f" -> false | _ -> fail_sx "bool"
let str_of = function
  | A a when String.length a >= 1 && a.[0] = 'h' ->
    let k = (String.length a - 1) / 2 in
    List.init k (fun i -> Char.chr (int_of_string ("0x" ^ String.sub a (1 + 2 * i) 2)))
  | _ -> fail_sx "string"
let list_of f = function L l -> List.map f l | _ -> fail_sx "list"
let opt_of f = function A "none" -> None | L [A "some"; x] -> Some (f x) | _ -> fail_sx "option"

let lop_of = function
  | A "OAnd" -> OAnd | A "OOr" -> OOr | A "OEq" -> OEq | A "ONeq" -> ONeq | A "OLt" -> OLt | A "OLe" -> OLe
  | A "OGt" -> OGt | A "OGe" -> OGe | _ -> fail_sx "lop"
let fname_of = function
  | A "FAny" -> FAny | A "FMax" -> FMax | A "FMin" -> FMin | A "FCount" -> FCount | A "FToFloat64" -> FToFloat64
  | A "FIsNotNull" -> FIsNotNull | A "FToFloat64OrNull" -> FToFloat64OrNull | A "FToFloat64OrZero" -> FToFloat64OrZero
  | A "FAvgIf" -> FAvgIf | A "FMaxIf" -> FMaxIf | A "FMinIf" -> FMinIf | A "FSumIf" -> FSumIf | A "FCityHash64" -> FCityHash64
  | A "FUnhex" -> FUnhex | A "FGroupArray" -> FGroupArray | A "FGroupUniqArray" -> FGroupUniqArray | A "FArgMin" -> FArgMin
  | A "FLower" -> FLower | A "FHex" -> FHex | A "FArrayMap" -> FArrayMap | A "FUniqExact" -> FUniqExact
  | L [A "FOther"; x] -> FOther (str_of x) | _ -> fail_sx "fname"
let binop_of = function A "BMod" -> BMod | A "BAdd" -> BAdd | A "BSub" -> BSub | A "BDiv" -> BDiv | _ -> fail_sx "binop"
let jkind_of = function A "JArray" -> JArray | A "JAnyLeft" -> JAnyLeft | _ -> fail_sx "jkind"

let rec expr_of = function
  | L [A "Id"; x] -> Id (str_of x)
  | L [A "Raw"; x] -> Raw (str_of x)
  | L [A "NumLit"; x] -> NumLit (str_of x)
  | L [A "RawStr"; x] -> RawStr (str_of x)
  | L [A "StrV"; x] -> StrV (str_of x)
  | L [A "IntV"; x] -> IntV (z_of x)
  | L [A "FloatV"; x] -> FloatV (str_of x)
  | L [A "LOp"; fn; cl] -> LOp (lop_of fn, list_of expr_of cl)
  | L [A "InE"; l; r] -> InE (expr_of l, list_of expr_of r)
  | L [A "WRef"; a] -> WRef (str_of a)
  | L [A "Col"; e; a] -> Col (expr_of e, str_of a)
  | L [A "Ord"; e; d] -> Ord (expr_of e, bool_of d)
  | L [A "Fn"; f; args] -> Fn (fname_of f, list_of expr_of args)
  | L [A "PFn"; f; ps; args] -> PFn (fname_of f, list_of expr_of ps, list_of expr_of args)
  | L [A "Distinct"; e] -> Distinct (expr_of e)
  | L [A "Bin"; op; a; b] -> Bin (binop_of op, expr_of a, expr_of b)
  | L [A "Tuple"; l] -> Tuple (list_of expr_of l)
  | L [A "Lambda"; x; b] -> Lambda (str_of x, expr_of b)
  | L [A "BitSet"; l] -> BitSet (list_of expr_of l)
  | L [A "BitSet8"; l] -> BitSet8 (list_of expr_of l)
  | L [A "BitAnd"; l; r] -> BitAnd (expr_of l, expr_of r)
  | L [A "GroupBitOr"; e; a] -> GroupBitOr (expr_of e, str_of a)
  | L [A "MatchRe"; f; re] -> MatchRe (expr_of f, str_of re)
  | L [A "AttrValue"; a] -> AttrValue (str_of a)
  | L [A "Intersect"; l] -> Intersect (list_of select_of l)
  | L [A "Union"; l] -> Union (list_of select_of l)
  | _ -> fail_sx "expr"
and select_of = function
  | L [A "Sel"; withs; d; cols; from; joins; pw; wh; hv; gb; ob; lim] ->
    Sel (list_of (function L [a; q] -> (str_of a, select_of q) | _ -> fail_sx "with") withs, bool_of d, list_of expr_of cols,
         opt_of expr_of from,
         list_of (function L [k; t; on] -> ((jkind_of k, expr_of t), opt_of expr_of on) | _ -> fail_sx "join") joins,
         opt_of expr_of pw, opt_of expr_of wh, opt_of expr_of hv, list_of expr_of gb, list_of expr_of ob, opt_of expr_of lim)
  | _ -> fail_sx "select"

let cmp_of = function
  | A "CEq" -> CEq | A "CNeq" -> CNeq | A "CLt" -> CLt | A "CLe" -> CLe | A "CGt" -> CGt | A "CGe" -> CGe | A "CRe" -> CRe | A "CNre" -> CNre
  | _ -> fail_sx "cmp"
let andor_of = function A "AONone" -> AONone | A "AOAnd" -> AOAnd | A "AOOr" -> AOOr | _ -> fail_sx "andor"
let aggfn_of = function A "AgCount" -> AgCount | A "AgSum" -> AgSum | A "AgMin" -> AgMin | A "AgMax" -> AgMax | A "AgAvg" -> AgAvg | _ -> fail_sx "aggfn"
let value_of = function
  | L [t; f; s; unq; ffmt; dur] -> { v_time = str_of t; v_f = str_of f; v_str = opt_of str_of s; v_unq = opt_of str_of unq;
                                     v_ffmt = opt_of str_of ffmt; v_dur = opt_of z_of dur }
  | _ -> fail_sx "value"
let rec exp_of = function
  | L [A "AExp"; h; ao; tl] -> AExp (head_of h, andor_of ao, opt_of exp_of tl)
  | _ -> fail_sx "attr_exp"
and head_of = function
  | L [A "HTerm"; l; op; v] -> HTerm { a_label = str_of l; a_op = cmp_of op; a_val = value_of v }
  | L [A "HParen"; e] -> HParen (exp_of e)
  | _ -> fail_sx "attr_head"
let agg_of = function
  | L [fn; attr; c; num; meas; ffmt; durf] -> { g_fn = aggfn_of fn; g_attr = str_of attr; g_cmp = cmp_of c; g_num = str_of num; g_meas = str_of meas;
                                                g_ffmt = opt_of str_of ffmt; g_durf = opt_of str_of durf }
  | _ -> fail_sx "aggregator"
let rec script_of = function
  | L [A "Script"; attr; agg; ao; tl] -> Script ({ sel_attr = opt_of exp_of attr; sel_agg = opt_of agg_of agg }, andor_of ao, opt_of script_of tl)
  | _ -> fail_sx "script"
let ctx_of = function
  | L [fr; to_; fd; td; ff; ft; lim; cl; rfm; rfi; cached; t1; t2; t3; t4; t5] ->
    { from_ns = z_of fr; to_ns = z_of to_; from_date = str_of fd; to_date = str_of td; ffd_from = str_of ff; ffd_to = str_of ft;
      limit = z_of lim; is_cluster = bool_of cl; rf_max = z_of rfm; rf_i = z_of rfi; cached = list_of str_of cached;
      attrs_table = str_of t1; attrs_dist_table = str_of t2; traces_table = str_of t3; traces_dist_table = str_of t4; kv_dist_table = str_of t5 }
  | _ -> fail_sx "ctx"
let mode_of = function A "MSearch" -> MSearch | A "MTags" -> MTags | L [A "MValues"; k] -> MValues (str_of k) | _ -> fail_sx "mode"
let perr_no = function
  | EUnsupportedAttr -> 1 | EUnsupportedStmt -> 2 | ENotSupportedOp -> 3 | ENotTimeValue -> 4 | EBadDuration -> 5 | EBadNumber -> 6
  | EUnquote -> 7 | EComplexNotSupported -> 8 | EEmptySelAgg -> 9 | EEmptySelOr -> 10 | EOrEmptySel -> 11 | EAggNoAttr -> 12

let hex_of_chars (l : char list) : string =
  let b = Buffer.create 4096 in
  List.iter (fun c -> Buffer.add_string b (Printf.sprintf "%02x" (Char.code c))) l;
  Buffer.contents b

let tbl : (int, select) Hashtbl.t = Hashtbl.create 4096

let () =
  let ic = open_in Cases.data_file in
  (try
    while true do
      let line = input_line ic in
      match parse_from ("(" ^ line ^ ")") 0 with
      | L [A "T"; A id; tree] ->
        let id = int_of_string id in
        let t = select_of tree in
        Hashtbl.replace tbl id t;
        let st = tq_stmt_of t in
        print_string "t "; print_string (string_of_int id); print_char ' ';
        print_string (if st.tq_ok then "1" else "0");
        print_char '/';
        print_string (if st.tq_render = st.tq_flat then "1" else "0");
        print_char '/';
        print_string (hex_of_chars st.tq_flat);
        print_char '/';
        List.iteri (fun i p ->
          if i > 0 then print_char ',';
          match p with
          | RTxt t -> print_char 'T'; print_string (hex_of_chars t)
          | RLit t -> print_char 'L'; print_string (hex_of_chars t)
          | RQid t -> print_char 'Q'; print_string (hex_of_chars t)) st.tq_ps;
        print_newline ()
      | L [A "M"; A id; md; cx; sc] ->
        print_string "m "; print_string id; print_char ' ';
        (match plan (script_of sc) (mode_of md) (ctx_of cx) (S O) with
         | Err e -> print_string ("E" ^ string_of_int (perr_no e))
         | Panic -> print_string "P"
         | Ok t ->
           let st = tq_stmt_of t in
           print_string (if st.tq_ok then "1" else "0");
           print_char '/';
           print_string (if st.tq_render = st.tq_flat then "1" else "0");
           print_char '/';
           print_string (hex_of_chars st.tq_flat);
           print_char '/';
           List.iteri (fun i p ->
             if i > 0 then print_char ',';
             match p with
             | RTxt t -> print_char 'T'; print_string (hex_of_chars t)
             | RLit t -> print_char 'L'; print_string (hex_of_chars t)
             | RQid t -> print_char 'Q'; print_string (hex_of_chars t)) st.tq_ps);
        print_newline ()
      | L [A "P"; A cid; A bid; marker; want] ->
        let cid = int_of_string cid and bid = int_of_string bid in
        let eq = match Hashtbl.find_opt tbl cid, Hashtbl.find_opt tbl bid with
          | Some c, Some b -> tq_marker_subst (str_of marker) (str_of want) b = c
          | _ -> false in
        Printf.printf "p %d %d %s\n" cid bid (if eq then "1" else "0")
      | _ -> failwith ("bad line: " ^ line)
    done
  with End_of_file -> ());
  close_in ic
