(* metric queries: prints, for every case of Cases.cases, "<id> <analyze_m15 0|1><m15_representable 0|1><number of label-filter stages><y|n|x: planned script = norm_script (script as written)> <hex sql | -> ..." *)
let hex_of_chars (l : char list) : string =
  let b = Buffer.create 4096 in
  List.iter (fun c -> Buffer.add_string b (Printf.sprintf "%02x" (Char.code c))) l;
  Buffer.contents b

let () =
  List.iter (fun (id, script, fin, ctx, runs, script0) ->
    let rec nat_of_int n = if n <= 0 then Logqlplan.O else Logqlplan.S (nat_of_int (n - 1)) in
    let res = Logqlplan.script_sqls script fin ctx (nat_of_int runs) in
    print_string (string_of_int id);
    print_string (if Logqlplan.analyze_m15 script then " 1" else " 0");
    print_string (if Logqlplan.m15_representable script then "1" else "0");
    let rec int_of_nat = function Logqlplan.O -> 0 | Logqlplan.S k -> 1 + int_of_nat k in
    print_string (string_of_int (int_of_nat (Logqlplan.n_label_filters script)));
    (* the script the planners got = norm_script (the script as written); "x" = the script has a breakpoint, the reader does not hand it over whole *)
    print_string (match script0 with
      | Some (Some s0) -> if Logqlplan.norm_script s0 = script then "y" else "n"
      | Some None -> if Logqlplan.norm_script script = script then "y" else "n"
      | None -> "x");
    List.iter (fun o -> print_char ' '; match o with
      | Some s -> print_string (hex_of_chars s)
      | None -> print_string "-") res;
    print_newline ()) Cases.cases
