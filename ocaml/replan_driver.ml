(* C14: prints, for every case (id, script, finalize, ctx, runs) of Cases.cases, "<id> <hex sql | -> ..." :
   the statements of `runs` Process calls on one plan object under one context (LogqlCases.script_sqls) *)
let hex_of_chars (l : char list) : string =
  let b = Buffer.create 4096 in
  List.iter (fun c -> Buffer.add_string b (Printf.sprintf "%02x" (Char.code c))) l;
  Buffer.contents b

let () =
  List.iter (fun (id, script, fin, ctx, runs) ->
    let rec nat_of_int n = if n <= 0 then Replanmodel.O else Replanmodel.S (nat_of_int (n - 1)) in
    let res = Replanmodel.script_sqls script fin ctx (nat_of_int runs) in
    print_string (string_of_int id);
    List.iter (fun o -> print_char ' '; match o with
      | Some s -> print_string (hex_of_chars s)
      | None -> print_string "-") res;
    print_newline ()) Cases.cases
