(* C14: prints, for every case (id, script, finalize, ctx, runs) of Cases.cases, "<id> <hex sql | -> ..." :
   the statements of `runs` Process calls on one plan object under one context (LogqlCases.script_sqls);
   and for every profile case (id, mode, selectors, context, windows) of Cases.pcases, "P<id> <hex sql | -> ..." :
   the statements of one profile planner object executed for each window (ReplanProf.prof_case_sqls) *)
let hex_of_chars (l : char list) : string =
  let b = Buffer.create 4096 in
  List.iter (fun c -> Buffer.add_string b (Printf.sprintf "%02x" (Char.code c))) l;
  Buffer.contents b

let put id res =
  print_string id;
  List.iter (fun o -> print_char ' '; match o with
    | Some s -> print_string (hex_of_chars s)
    | None -> print_string "-") res;
  print_newline ()

let () =
  List.iter (fun (id, script, fin, ctx, runs) ->
    let rec nat_of_int n = if n <= 0 then Replanmodel.O else Replanmodel.S (nat_of_int (n - 1)) in
    put (string_of_int id) (Replanmodel.script_sqls script fin ctx (nat_of_int runs))) Cases.cases;
  List.iter (fun (id, mode, sels, ctx, ws) ->
    put ("P" ^ string_of_int id) (Replanmodel.prof_case_sqls mode sels ctx ws)) Cases.pcases
