(* C10 tree-level tie: for every case of Cases.lcases / Cases.mcases prints
   "<id> <stmt> ..." with <stmt> = "-" (no statement) or
   "<pok 0|1>/<render = Some (flat pieces) 0|1>/<flat hex>/<piece>,<piece>,..." ; <piece> = T<hex> | L<hex> | Q<hex> *)
let hex_of_chars (l : char list) : string =
  let b = Buffer.create 4096 in
  List.iter (fun c -> Buffer.add_string b (Printf.sprintf "%02x" (Char.code c))) l;
  Buffer.contents b

let rec nat_of_int n = if n <= 0 then C10pieces.O else C10pieces.S (nat_of_int (n - 1))

let print_stmt (o : C10pieces.pstmt option) =
  print_char ' ';
  match o with
  | None -> print_string "-"
  | Some st ->
    print_string (if st.C10pieces.ps_ok then "1" else "0");
    print_char '/';
    print_string (match st.C10pieces.ps_render with Some r when r = st.C10pieces.ps_flat -> "1" | _ -> "0");
    print_char '/';
    print_string (hex_of_chars st.C10pieces.ps_flat);
    print_char '/';
    List.iteri (fun i p ->
      if i > 0 then print_char ',';
      match p with
      | C10pieces.RTxt t -> print_char 'T'; print_string (hex_of_chars t)
      | C10pieces.RLit t -> print_char 'L'; print_string (hex_of_chars t)
      | C10pieces.RQid t -> print_char 'Q'; print_string (hex_of_chars t)) st.C10pieces.ps_pieces

let () =
  List.iter (fun (id, sel, fin, ctx, runs) ->
    print_string (string_of_int id);
    List.iter print_stmt (C10pieces.log_pieces sel fin ctx (nat_of_int runs));
    print_newline ()) Cases.lcases;
  List.iter (fun (id, script, fin, ctx, runs) ->
    print_string (string_of_int id);
    List.iter print_stmt (C10pieces.script_pieces script fin ctx (nat_of_int runs));
    print_newline ()) Cases.mcases;
  (* round 4: the hypothesis of logql_requests_differing_only_in_values_have_the_same_structure on the parsed requests:
     "V <hostile id> <baseline id> <script_variantb baseline hostile>" *)
  let tbl = Hashtbl.create 1024 in
  List.iter (fun (id, sel, _, _, _) -> Hashtbl.replace tbl id (C10pieces.SLog sel)) Cases.lcases;
  List.iter (fun (id, script, _, _, _) -> Hashtbl.replace tbl id script) Cases.mcases;
  List.iter (fun (h, b) ->
    match Hashtbl.find_opt tbl h, Hashtbl.find_opt tbl b with
    | Some sh, Some sb -> Printf.printf "V %d %d %d\n" h b (if C10pieces.script_variantb sb sh then 1 else 0)
    | _ -> ()) Cases.pairs
