(* C08 execution: for every case of Cases.cases (id, script, ctx, databases) runs Logqlexec.exec_case per database and prints
     D <id> <k> <verdict tie=id> <verdict tie=rev> <verdict against the definition: 0 / 1 / 2 n.a.>
        0 agree, 1 differ, 2 statement not evaluated, 3 no reference, 4 neither side;  F <id> <k> <rows> = the definition's answer
   and for a verdict 1 or 2 the two answers:  G <id> <k> <rows | ->   W <id> <k> <rows | ->
   a row is hex(k)=hex(v)&...,ts,num/den ; rows separated by ';' ; '?' = an output row without labels/timestamp_ns/value *)
open Logqlexec

let rec pos_to_int = function XH -> 1 | XO p -> 2 * pos_to_int p | XI p -> 2 * pos_to_int p + 1
let z_to_int = function Z0 -> 0 | Zpos p -> pos_to_int p | Zneg p -> - (pos_to_int p)
let hex (l : char list) : string =
  let b = Buffer.create 64 in
  List.iter (fun c -> Buffer.add_string b (Printf.sprintf "%02x" (Char.code c))) l;
  Buffer.contents b
let labels_str m = String.concat "&" (List.map (fun (k, v) -> hex k ^ "=" ^ hex v) m)
let q_str (x : q) = Printf.sprintf "%d/%d" (z_to_int x.qnum) (pos_to_int x.qden)
let got_str = function
  | None -> "-"
  | Some rows -> String.concat ";" (List.map (function
      | Some ((m, t), v) -> Printf.sprintf "%s,%d,%s" (labels_str m) (z_to_int t) (q_str v)
      | None -> "?") rows)
let want_str = function
  | None -> "-"
  | Some rows -> String.concat ";" (List.map (fun r -> Printf.sprintf "%s,%d,%s" (labels_str r.v_labels) (z_to_int r.v_ts) (q_str (this r.v_val))) rows)

let hex_of_chars (l : char list) : string =
  let b = Buffer.create 4096 in
  List.iter (fun c -> Buffer.add_string b (Printf.sprintf "%02x" (Char.code c))) l;
  Buffer.contents b

(* a case carries the implementation's statement as a tree (Some tree): it is that statement which is executed (impl_case), and
     T <id> <hex of the rendering of the prepared tree | ->
   (script0 = the script as written, script = the script handed to the planners) is printed once per case for the check to compare with the implementation's text; without a tree (the text did not parse) the
   planner model's statement is executed (exec_case) and  T <id> model  is printed *)
let () =
  List.iter (fun (id, script0, script, ctx, dbs, tree) ->
    Printf.printf "S %d %s\n" id (if analyze_m15 script then "1" else "0");
    (* N: the script the planners got is norm_script of the script as written (groupByNothing of the reader's entry point) *)
    Printf.printf "N %d %s\n" id (if norm_script script0 = script then "1" else "0");
    (* B: every WRef of the planner model's tree carries the query its alias is bound to in the statement's WITH list *)
    (* the unfolded tree grows fast with the depth of the statement (every reference carries its query): a sample of the cases,
       "-" = not checked *)
    Printf.printf "B %d %s\n" id (if id mod 6 = 0 || id >= 3000000 then (if model_wrefs_bound script ctx then "1" else "0") else "-");
    (match tree with
     | Some t -> Printf.printf "T %d %s\n" id (match impl_text script ctx t with Some x -> hex_of_chars x | None -> "-")
     | None -> Printf.printf "T %d model\n" id);
    List.iteri (fun k d ->
      let (v1, v2, vdef, got, wdef, want) =
        match tree with
        | Some t -> let o = impl_case script0 script ctx d t in (z_to_int o.io_v1, z_to_int o.io_v2, z_to_int o.io_vdef, o.io_got, o.io_wdef, o.io_want)
        | None -> let o = exec_case script ctx d in (z_to_int o.eo_v1, z_to_int o.eo_v2, z_to_int o.eo_vdef, o.eo_got, o.eo_wdef, o.eo_want) in
      Printf.printf "D %d %d %d %d %d\n" id k v1 v2 vdef;
      if vdef = 1 then begin
        Printf.printf "G %d %d %s\n" id k (got_str got);
        Printf.printf "F %d %d %s\n" id k (want_str wdef)
      end;
      if (v1 = 1 || v1 = 2 || v2 = 1 || v2 = 2) then begin
        Printf.printf "G %d %d %s\n" id k (got_str got);
        Printf.printf "W %d %d %s\n" id k (want_str want)
      end) dbs) Cases.cases
