(* C07: runs C07sem.check_case on every case of Cases.cases and prints the verdicts.
   per case:   C <id> <fragment> <width> <ctx_ok> <text_ok> <model_sel> <wrefs_bound> <fragment2> <model_text> <fragment3> <ref_defined>
   <ctx_ok> is ctx_ok of the context with the flag CHFinalize set (= proofs/LogqlSemUnfinProofs.v ctx_ok_any, lemma ctx_ok_set_fin):
   the theorems hold for either value of the flag (logql_log_correct_any_finalize)
   per db:     D <id> <k> <db_ok> <absent_guard> <oracle_ok> <impl> <impl_rev> <model> <same> <nwant> <nsamples>   (0 ok, 1 wrong, 2 undecided)
   for a db with a non-zero verdict, the rows:  W <id> <k> <rows>   (wanted = log_rows3)   G <id> <k> <rows | ->  (got from the implementation's SQL)
   a row is fp,ts,hex(line),hex(k)=hex(v)&...  rows are separated by ';'; a row that does not read back as a result row is '?' *)
open C07sem

let rec pos_to_int = function XH -> 1 | XO p -> 2 * pos_to_int p | XI p -> 2 * pos_to_int p + 1
let z_to_int = function Z0 -> 0 | Zpos p -> pos_to_int p | Zneg p -> - (pos_to_int p)
let hex (l : char list) : string =
  let b = Buffer.create 64 in
  List.iter (fun c -> Buffer.add_string b (Printf.sprintf "%02x" (Char.code c))) l;
  Buffer.contents b
let b2s b = if b then "1" else "0"
let row_str (o : outrow) : string =
  Printf.sprintf "%d,%d,%s,%s" (z_to_int o.o_fp) (z_to_int o.o_ts) (hex o.o_line)
    (String.concat "&" (List.map (fun (k, v) -> hex k ^ "=" ^ hex v) o.o_labels))
let rows_str l = String.concat ";" (List.map row_str l)
let orows_str l = String.concat ";" (List.map (function Some o -> row_str o | None -> "?") l)

let () =
  List.iter (fun sc ->
    let v = check_case sc in
    let id = z_to_int v.cv_id in
    Printf.printf "C %d %s %s %s %s %s %s %s %s %s %s\n" id (b2s v.cv_fragment) (b2s v.cv_width) (b2s (v.cv_ctx_ok || ctx_ok { sc.sc_ctx with c_finalize = true })) (b2s v.cv_text_ok) (b2s v.cv_model_sel) (b2s v.cv_wrefs) (b2s v.cv_fragment2) (b2s v.cv_model_text) (b2s v.cv_fragment3) (b2s v.cv_ref_defined);
    List.iteri (fun k d ->
      let vi = z_to_int d.v_impl and vr = z_to_int d.v_impl_rev and vm = z_to_int d.v_model in
      Printf.printf "D %d %d %s %s %s %d %d %d %s %d %d\n" id k (b2s d.v_db_ok) (b2s d.v_absent) (b2s d.v_oracle) vi vr vm
        (b2s d.v_same) (List.length d.v_want) (z_to_int d.v_nsamples);
      if vi <> 0 || vr <> 0 || vm <> 0 then begin
        Printf.printf "W %d %d %s\n" id k (rows_str d.v_want);
        Printf.printf "G %d %d %s\n" id k (match d.v_got with Some l -> orows_str l | None -> "-")
      end) v.cv_dbs) Cases.cases

(* R <index> <1|0>: the transcribed regexp-stage grammar (re_plan) against what the Go grammar answered *)
let () =
  List.iteri (fun i (re, want) -> Printf.printf "R %d %s\n" i (b2s (re_plan re = want))) Cases.recases
