(* prints, for every case of Cases.cases, "<id> <p|e|u> <hex sql | ->": the template model's verdict on the text
   (parsed, refused, outside the fragment) and the statement planned for LineFormatPlanner over SQLMainInitPlanner *)
let hex_of_chars (l : char list) : string =
  let b = Buffer.create 4096 in
  List.iter (fun c -> Buffer.add_string b (Printf.sprintf "%02x" (Char.code c))) l;
  Buffer.contents b

let () =
  List.iter (fun (id, tpl, ctx) ->
    let (cls, sql) = Logqlplan.tpl_probe tpl ctx in
    print_string (string_of_int id);
    print_string (match cls with Some true -> " p " | Some false -> " e " | None -> " u ");
    (match sql with Some s -> print_string (hex_of_chars s) | None -> print_string "-");
    print_newline ()) Cases.cases
