(* C13: reads the statements recorded by harness/cmd/readscan from Cases.data_file, rebuilds each parse
   tree as a value of the extracted Sql.v types and hands it, with the statement text and the window, to
   the extracted Scans.check_stmt. Record: <id> <from> <to> <lo_min> <hi_max> <type> <netstring sql> <tree>.
   Tree syntax: harness/sqlparse Sexp. This reader is as untrusted as the parser: check_stmt validates
   the tree against the text (render tree = sql).
   Output per statement: "<id> <render_ok> <wf> <nscans> <hex table>:<code>,<code>;... [| <hex rendered>]" *)
open Scans

let buf =
  let ic = open_in_bin Cases.data_file in
  let n = in_channel_length ic in
  let s = really_input_string ic n in
  close_in ic; s
let len = String.length buf
let pos = ref 0
let skip_ws () = while !pos < len && (buf.[!pos] = ' ' || buf.[!pos] = '\n') do incr pos done
let expect c =
  skip_ws ();
  if !pos >= len || buf.[!pos] <> c then failwith (Printf.sprintf "expected %c at %d" c !pos);
  incr pos
let read_int () : int =
  skip_ws ();
  let st = !pos in
  if !pos < len && buf.[!pos] = '-' then incr pos;
  while !pos < len && buf.[!pos] >= '0' && buf.[!pos] <= '9' do incr pos done;
  int_of_string (String.sub buf st (!pos - st))
let read_str () : char list =
  let n = read_int () in
  if buf.[!pos] <> ':' then failwith "netstring";
  incr pos;
  let st = !pos in
  pos := !pos + n;
  List.init n (fun i -> buf.[st + i])
let string_of_chars l = String.init (List.length l) (List.nth l)
let at_close () = skip_ws (); !pos < len && buf.[!pos] = ')'
let lop_of (s : char list) : lop =
  match string_of_chars s with
  | "and" -> OAnd | "or" -> OOr | "==" -> OEq | "!=" -> ONeq | "<" -> OLt | "<=" -> OLe | ">" -> OGt | ">=" -> OGe
  | _ -> OOther s

let rec read_list : 'a. (unit -> 'a) -> 'a list = fun f ->
  if at_close () then [] else (let x = f () in x :: read_list f)
and read_expr () : expr =
  expect '(';
  let tag = buf.[!pos] in
  incr pos;
  let e = match tag with
    | 'R' -> Raw (read_str ())
    | 'I' -> Id (read_str ())
    | 'S' -> if buf.[!pos] = 'E' then (pos := !pos - 2; SubQ (read_select ())) else StrV (read_str ())
    | 'Z' -> IntV (Cases.z (read_int ()))
    | 'L' -> let op = lop_of (read_str ()) in LOp (op, read_list read_expr)
    | 'N' -> let l = read_expr () in In (l, read_list read_expr)
    | 'W' -> WRef (read_str (), empty_select)
    | 'C' -> let x = read_expr () in Col (x, read_str ())
    | 'O' -> let x = read_expr () in Ord (x, read_int () = 1)
    | 'F' -> let n = read_str () in Fn (n, read_list read_expr)
    | 'P' -> let n = read_str () in Sep (n, read_list read_expr)
    | 'Q' -> SubQ (read_select ())
    | c -> failwith (Printf.sprintf "tag %c at %d" c !pos) in
  (match tag with 'S' when (match e with SubQ _ -> true | _ -> false) -> () | _ -> expect ')');
  e
and read_opt () : expr option =
  skip_ws ();
  if buf.[!pos] = '(' && buf.[!pos + 1] = ')' then (pos := !pos + 2; None) else Some (read_expr ())
and read_paren_list : 'a. (unit -> 'a) -> 'a list = fun f ->
  expect '('; let l = read_list f in expect ')'; l
and read_select () : expr select_ =
  expect '(';
  if String.sub buf !pos 3 <> "SEL" then failwith (Printf.sprintf "SEL at %d" !pos);
  pos := !pos + 3;
  let distinct = read_int () = 1 in
  let cols = read_paren_list read_expr in
  let from = read_opt () in
  let where = read_opt () in
  let prewhere = read_opt () in
  let having = read_opt () in
  let groupby = read_paren_list read_expr in
  let orderby = read_paren_list read_expr in
  let limit = read_opt () in
  let offset = read_opt () in
  let withs = read_paren_list (fun () -> expect '('; let a = read_str () in let q = read_select () in expect ')'; (a, q)) in
  let joins = read_paren_list (fun () -> expect '('; let tp = read_str () in let t = read_expr () in let on = read_opt () in expect ')'; ((tp, t), on)) in
  let unions = read_paren_list read_select in
  expect ')';
  { s_distinct = distinct; s_cols = cols; s_from = from; s_where = where; s_prewhere = prewhere; s_having = having;
    s_groupby = groupby; s_orderby = orderby; s_limit = limit; s_offset = offset; s_withs = withs; s_joins = joins;
    s_settings = []; s_unions = unions }

let hex_of_chars (l : char list) : string =
  let b = Buffer.create 256 in
  List.iter (fun c -> Buffer.add_string b (Printf.sprintf "%02x" (Char.code c))) l;
  Buffer.contents b
let rec int_of_pos (p : positive) : int =
  match p with XH -> 1 | XO q -> 2 * int_of_pos q | XI q -> 2 * int_of_pos q + 1
let int_of_z (z : z) : int =
  match z with Z0 -> 0 | Zpos p -> int_of_pos p | Zneg p -> - (int_of_pos p)
let rec int_of_nat (n : nat) : int = match n with O -> 0 | S m -> 1 + int_of_nat m

let () =
  let continue = ref true in
  while !continue do
    skip_ws ();
    if !pos >= len then continue := false else begin
      let id = read_int () in
      let from = read_int () in let to_ = read_int () in let lo = read_int () in let hi = read_int () in let ty = read_int () in
      skip_ws ();
      let sql = read_str () in
      skip_ws ();
      let tree = read_select () in
      let w = { w_from = Cases.z from; w_to = Cases.z to_; w_lo_min = Cases.z lo; w_hi_max = Cases.z hi; w_type = Cases.z ty } in
      let r = check_stmt w tree sql in
      Printf.printf "%d %d %d %d " id (if r.r_render_ok then 1 else 0) (if r.r_wf then 1 else 0) (int_of_nat r.r_nscans);
      print_string (String.concat ";" (List.map (fun (t, codes) ->
        hex_of_chars t ^ ":" ^ String.concat "," (List.map (fun c -> string_of_int (int_of_z c)) codes)) r.r_report));
      (match r.r_rendered with Some t -> print_string (" | " ^ hex_of_chars t) | None -> ());
      print_newline ()
    end
  done
