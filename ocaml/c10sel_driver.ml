(* C10 tree-level tie of the PromQL-matcher / Pyroscope-selector statements.  Reads the data file named by Cases.data_file (written
   by checks/c10sel.py in the line format of checks/promsel.py), one case per line:
     (sql <id> <KRaw|KDownsample> <hints> <ctx> <matchers> <oracle table>)
     (prof <id> <table> <from_ns> <to_ns> <cluster> <selectors> <oracle table>)
   and prints  <id> -  (no statement) or  <id> <pok 0|1>/<render = Some (flat pieces) 0|1>/<flat hex>/<piece>,...   <piece> = T|L|Q<hex> *)
open C10sel

type sx = A of string | L of sx list

let parse_line (str : string) : sx =
  let n = String.length str in
  let pos = ref 0 in
  let rec skip () = if !pos < n && (str.[!pos] = ' ' || str.[!pos] = '\t') then (incr pos; skip ()) in
  let rec item () : sx =
    skip ();
    if !pos >= n then failwith "unexpected end of line"
    else if str.[!pos] = '(' then begin
      incr pos;
      let acc = ref [] in
      let rec loop () =
        skip ();
        if !pos >= n then failwith "unclosed list"
        else if str.[!pos] = ')' then incr pos
        else (acc := item () :: !acc; loop ()) in
      loop ();
      L (List.rev !acc)
    end else begin
      let st = !pos in
      while !pos < n && str.[!pos] <> ' ' && str.[!pos] <> '(' && str.[!pos] <> ')' do incr pos done;
      A (String.sub str st (!pos - st))
    end in
  item ()

let fail_sx what = failwith ("bad " ^ what)

let nd (str : string) : n =
  let d = Array.init (String.length str) (fun i -> Char.code str.[i] - 48) in
  let is_zero () = Array.for_all (fun x -> x = 0) d in
  let halve () = let r = ref 0 in Array.iteri (fun i x -> let v = !r * 10 + x in d.(i) <- v / 2; r := v mod 2) d; !r in
  let rec bits acc = if is_zero () then List.rev acc else let b = halve () in bits (b :: acc) in
  let rec build = function [] -> failwith "zero" | [_] -> XH | b :: r -> if b = 1 then XI (build r) else XO (build r) in
  match bits [] with [] -> N0 | bs -> Npos (build bs)

let z_of = function
  | A a -> if String.length a > 0 && a.[0] = '-'
           then (match nd (String.sub a 1 (String.length a - 1)) with N0 -> Z0 | Npos p -> Zneg p)
           else (match nd a with N0 -> Z0 | Npos p -> Zpos p)
  | _ -> fail_sx "Z"
let int_of = function A a -> int_of_string a | _ -> fail_sx "int"
let bool_of = function A "t" -> true | A "f" -> false | _ -> fail_sx "bool"
let str_of = function
  | A a when String.length a >= 1 && a.[0] = 'h' ->
    let k = (String.length a - 1) / 2 in
    List.init k (fun i -> Char.chr (int_of_string ("0x" ^ String.sub a (1 + 2 * i) 2)))
  | _ -> fail_sx "string"
let list_of f = function L l -> List.map f l | _ -> fail_sx "list"

let mop_of = function A "MEq" -> MEq | A "MNeq" -> MNeq | A "MRe" -> MRe | A "MNre" -> MNre | _ -> fail_sx "mop"
let matcher_of = function L [n; op; v] -> { m_name = str_of n; m_op = mop_of op; m_val = str_of v } | _ -> fail_sx "matcher"
let selector_of = function L [n; op; v] -> { sl_name = str_of n; sl_op = mop_of op; sl_val = str_of v } | _ -> fail_sx "selector"
let hints_of = function
  | L [st; en; step; fn; rg] -> { h_start = z_of st; h_end = z_of en; h_step = z_of step; h_func = str_of fn; h_range = z_of rg }
  | _ -> fail_sx "hints"
let ctx_of = function
  | L [from; to_; limit; cluster; tp; gin; spl; ts; tsd; m15] ->
    { c_from_ns = z_of from; c_to_ns = z_of to_; c_limit = z_of limit; c_asc = false; c_cluster = bool_of cluster; c_type = z_of tp;
      c_finalize = false; c_step_ns = Z0; t_gin = str_of gin; t_samples = str_of spl; t_ts = str_of ts; t_ts_dist = str_of tsd;
      t_m15 = str_of m15 }
  | _ -> fail_sx "ctx"
let kind_of = function A "KRaw" -> KRaw | A "KDownsample" -> KDownsample | A "KQuerier" -> KQuerier | _ -> fail_sx "kind"
let tbl_of = list_of (function L [p; v; b] -> ((str_of p, str_of v), bool_of b) | _ -> fail_sx "oracle entry")

let tgop_of = function A "TgEq" -> TgEq | A "TgNeq" -> TgNeq | A "TgRe" -> TgRe | A "TgNre" -> TgNre | _ -> fail_sx "tag op"
let tag_of = function L [k; op; v] -> { tg_key = str_of k; tg_op = tgop_of op; tg_val = str_of v } | _ -> fail_sx "tag"

let hex_of_chars (l : char list) : string =
  let b = Buffer.create 4096 in
  List.iter (fun c -> Buffer.add_string b (Printf.sprintf "%02x" (Char.code c))) l;
  Buffer.contents b

let print_stmt (id : int) (o : pstmt option) =
  print_string (string_of_int id);
  print_char ' ';
  (match o with
   | None -> print_string "-"
   | Some st ->
     print_string (if st.ps_ok then "1" else "0");
     print_char '/';
     print_string (match st.ps_render with Some r when r = st.ps_flat -> "1" | _ -> "0");
     print_char '/';
     print_string (hex_of_chars st.ps_flat);
     print_char '/';
     List.iteri (fun i p ->
       if i > 0 then print_char ',';
       match p with
       | RTxt t -> print_char 'T'; print_string (hex_of_chars t)
       | RLit t -> print_char 'L'; print_string (hex_of_chars t)
       | RQid t -> print_char 'Q'; print_string (hex_of_chars t)) st.ps_pieces);
  print_newline ()

let handle (x : sx) : unit =
  match x with
  | L [A "sql"; id; kind; h; c; ms; full] ->
    print_stmt (int_of id) (pcase_pieces { pc_id = z_of id; pc_kind = kind_of kind; pc_hints = hints_of h; pc_ctx = ctx_of c;
                                          pc_ms = list_of matcher_of ms; pc_full = tbl_of full })
  | L [A "prof"; id; table; from; to_; cluster; sels; full] ->
    print_stmt (int_of id) (fcase_pieces { fc_id = z_of id; fc_table = str_of table; fc_from_ns = z_of from; fc_to_ns = z_of to_;
                                          fc_cluster = bool_of cluster; fc_sels = list_of selector_of sels; fc_full = tbl_of full })
  (* round 4: Tempo v1 (model/ScansTempo.v): (tv1 <id> <db> <cluster> <from> <to> <request>) with <request> =
     (search (<tag> ...) <limit> <min> <max> <v2>) | (trace <id> <windowed>) | (tags) | (values <tag>);
     (tvi <id> <db> <dist> (<tag> ...) <from> <to> <min> <max> <limit> <v2>) = tempo.SQLIndexQuery alone; <tag> = (<key> <op> <val>) *)
  | L [A "tv1"; id; db; cluster; from; to_; rq] ->
    let req = (match rq with
      | L [A "search"; tags; lim; mn; mx; v2] -> TSearch (list_of tag_of tags, z_of lim, z_of mn, z_of mx, bool_of v2)
      | L [A "trace"; tid; w] -> TTrace (str_of tid, bool_of w)
      | L [A "tags"] -> TTags
      | L [A "values"; tg] -> TValues (str_of tg)
      | _ -> fail_sx "tempo request") in
    print_stmt (int_of id) (tv1_pieces (TvService { tv_id = z_of id; tv_db = str_of db; tv_cluster = bool_of cluster; tv_from = z_of from;
                                                    tv_to = z_of to_; tv_req = req; tv_sql = [] }))
  | L [A "tvi"; id; db; dist; tags; from; to_; mn; mx; lim; v2] ->
    print_stmt (int_of id) (tv1_pieces (TvIndex (str_of db, bool_of dist, list_of tag_of tags, z_of from, z_of to_, z_of mn, z_of mx, z_of lim, bool_of v2)))
  (* round 4: label values / series (model/ScansPlanners.v): (lv <id> <ctx> <key or -> (<selector> ...)), <selector> = (<matcher> ...) *)
  | L [A "lv"; id; c; key; sels] ->
    print_stmt (int_of id) (lv_pieces (ctx_of c) (match key with A "-" -> None | k -> Some (str_of k)) (list_of (list_of matcher_of) sels))
  | _ -> failwith "bad case line"

let () =
  let ic = open_in Cases.data_file in
  (try while true do handle (parse_line (input_line ic)) done with End_of_file -> ());
  close_in ic
