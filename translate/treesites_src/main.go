// treesites lists, for property C16, every place of the repository (non-test Go files) where a reader/service.Tree
// is constructed or its SampleTypes field is written:
//
//	lit     a composite literal Tree{...} / &Tree{...} / service.Tree{...}   (fields set, whether SampleTypes is among them)
//	new     a call NewTree() / service.NewTree()
//	write   an assignment, ++/--, append target, address-of or composite-literal key that writes a field called
//	        SampleTypes: the number of elements of the []string{...} literal assigned, or -1 for any other right-hand side
//
// The model of the reader's Tree (coq/model/ProfTree.v) is for ONE sample type; the obligation of the check is that every
// Tree the code builds has exactly one: literals of Tree do not set SampleTypes, every write is `x.SampleTypes = []string{e}`.
// Purely syntactic (go/ast): a field called SampleTypes of any other type is reported as well (there is none today).
// Output: one line per site, "kind file:line func detail".
package main

import (
	"fmt"
	"go/ast"
	"go/parser"
	"go/token"
	"os"
	"path/filepath"
	"sort"
	"strings"
)

func isTreeType(e ast.Expr) bool {
	switch x := e.(type) {
	case *ast.Ident:
		return x.Name == "Tree"
	case *ast.SelectorExpr:
		return x.Sel.Name == "Tree"
	case *ast.StarExpr:
		return isTreeType(x.X)
	}
	return false
}

func isSampleTypesSel(e ast.Expr) bool {
	switch x := e.(type) {
	case *ast.SelectorExpr:
		return x.Sel.Name == "SampleTypes"
	case *ast.IndexExpr:
		return isSampleTypesSel(x.X)
	case *ast.SliceExpr:
		return isSampleTypesSel(x.X)
	case *ast.ParenExpr:
		return isSampleTypesSel(x.X)
	}
	return false
}

// number of elements of a []string{...} literal, -1 for anything else
func stringLitLen(e ast.Expr) int {
	cl, ok := e.(*ast.CompositeLit)
	if !ok {
		return -1
	}
	at, ok := cl.Type.(*ast.ArrayType)
	if !ok || at.Len != nil {
		return -1
	}
	if id, ok := at.Elt.(*ast.Ident); !ok || id.Name != "string" {
		return -1
	}
	return len(cl.Elts)
}

func main() {
	repo := os.Args[1]
	var lines []string
	fset := token.NewFileSet()
	err := filepath.Walk(repo, func(path string, info os.FileInfo, err error) error {
		if err != nil {
			return err
		}
		if info.IsDir() {
			if n := info.Name(); n == ".git" || n == "vendor" || n == "node_modules" {
				return filepath.SkipDir
			}
			return nil
		}
		if !strings.HasSuffix(path, ".go") || strings.HasSuffix(path, "_test.go") {
			return nil
		}
		f, perr := parser.ParseFile(fset, path, nil, 0)
		if perr != nil {
			return fmt.Errorf("%s: %v", path, perr)
		}
		rel, _ := filepath.Rel(repo, path)
		inService := f.Name.Name == "service" && strings.HasPrefix(filepath.ToSlash(rel), "reader/service/")
		for _, d := range f.Decls {
			fn := "-"
			if fd, ok := d.(*ast.FuncDecl); ok {
				fn = fd.Name.Name
			}
			ast.Inspect(d, func(n ast.Node) bool {
				pos := func(p token.Pos) string { return fmt.Sprintf("%s:%d", filepath.ToSlash(rel), fset.Position(p).Line) }
				switch x := n.(type) {
				case *ast.CompositeLit:
					// an unqualified Tree literal counts only inside package service, a qualified one (service.Tree) anywhere
					qualified := false
					if se, ok := x.Type.(*ast.SelectorExpr); ok {
						if id, ok := se.X.(*ast.Ident); ok && id.Name == "service" {
							qualified = true
						}
					}
					if x.Type != nil && isTreeType(x.Type) && (inService || qualified) {
						var fields []string
						sets := 0
						for _, el := range x.Elts {
							if kv, ok := el.(*ast.KeyValueExpr); ok {
								if id, ok := kv.Key.(*ast.Ident); ok {
									fields = append(fields, id.Name)
									if id.Name == "SampleTypes" {
										sets = 1
									}
								}
							} else {
								sets = 1 // positional literal: every field is set
								fields = append(fields, "<positional>")
							}
						}
						lines = append(lines, fmt.Sprintf("lit %s %s sets=%d fields=%s", pos(x.Pos()), fn, sets, strings.Join(fields, ",")))
					}
					for _, el := range x.Elts {
						if kv, ok := el.(*ast.KeyValueExpr); ok {
							if id, ok := kv.Key.(*ast.Ident); ok && id.Name == "SampleTypes" && !(x.Type != nil && isTreeType(x.Type)) {
								lines = append(lines, fmt.Sprintf("write %s %s n=%d form=literal-key", pos(kv.Pos()), fn, stringLitLen(kv.Value)))
							}
						}
					}
				case *ast.CallExpr:
					name := ""
					switch c := x.Fun.(type) {
					case *ast.Ident:
						if inService {
							name = c.Name
						}
					case *ast.SelectorExpr:
						name = c.Sel.Name
					}
					if id, ok := x.Fun.(*ast.Ident); ok && id.Name == "new" && len(x.Args) == 1 && isTreeType(x.Args[0]) && inService {
						lines = append(lines, fmt.Sprintf("lit %s %s sets=0 fields=<new>", pos(x.Pos()), fn))
					}
					if name == "NewTree" {
						lines = append(lines, fmt.Sprintf("new %s %s", pos(x.Pos()), fn))
					}
					if id, ok := x.Fun.(*ast.Ident); ok && id.Name == "append" && len(x.Args) > 0 && isSampleTypesSel(x.Args[0]) {
						lines = append(lines, fmt.Sprintf("write %s %s n=-1 form=append", pos(x.Pos()), fn))
					}
				case *ast.AssignStmt:
					for i, l := range x.Lhs {
						if !isSampleTypesSel(l) {
							continue
						}
						n := -1
						if _, direct := l.(*ast.SelectorExpr); direct && x.Tok == token.ASSIGN && len(x.Lhs) == len(x.Rhs) {
							n = stringLitLen(x.Rhs[i])
						}
						lines = append(lines, fmt.Sprintf("write %s %s n=%d form=assign", pos(x.Pos()), fn, n))
					}
				case *ast.IncDecStmt:
					if isSampleTypesSel(x.X) {
						lines = append(lines, fmt.Sprintf("write %s %s n=-1 form=incdec", pos(x.Pos()), fn))
					}
				case *ast.UnaryExpr:
					if x.Op == token.AND && isSampleTypesSel(x.X) {
						lines = append(lines, fmt.Sprintf("write %s %s n=-1 form=address", pos(x.Pos()), fn))
					}
				}
				return true
			})
		}
		return nil
	})
	if err != nil {
		fmt.Fprintln(os.Stderr, "treesites:", err)
		os.Exit(1)
	}
	sort.Strings(lines)
	for _, l := range lines {
		fmt.Println(l)
	}
}
