module verif/translate/treesites

go 1.24.0

toolchain go1.24.2
