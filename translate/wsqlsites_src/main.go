// wsqlsites -- C10, write side.  Census of every SQL statement that the packages under writer/ and ctrl/ hand to
// ClickHouse, with the provenance of everything the statement text is built from.
//
// Sinks (decided with go/types): every call of a method named Exec / Query / QueryRow / PrepareBatch / Select /
// ExecContext / QueryContext / QueryRowContext / Prepare / PrepareContext / AsyncInsert / Scan that has a string parameter
// (the first string parameter is the statement: clickhouse-go driver.Conn, database/sql, and the repository's own client
// wrappers), and the Body field of every composite literal of the ch-go Query type.
//
// The statement expression is decomposed into pieces; every leaf gets a class:
//   KConst   constant text of the program (literals, constants, zero values)
//   KEmbed   an SQL script embedded from the repository (//go:embed)
//   KConfig  a field of a configuration struct (declared in a package whose path contains "config")
//   KNum     a value of a basic numeric or boolean type, or the result of strconv formatting
//   KPass    a parameter of the enclosing function (pass-through): the function becomes a sink itself, and every call
//            site of it in the module is classified in turn (sites of kind "arg of <func>"), transitively
//   KUnclassified  anything else (a request-derived value has no rule and ends here)
// Provenance rules: local variables, package variables and struct fields are the join of everything assigned to them
// (objects identified by their declaration position, module-wide over the type-checked packages); slices and maps are
// the join of their elements; calls of module functions are the join of their return statements; strings.Join/Trim*/
// Replace*/ToLower/ToUpper/Repeat/Split, regexp ReplaceAllString, bytes.Buffer / text/template execution are the join
// of their inputs.  A variable whose address is taken is unclassified.
//
// Output: JSON {sites: [...], stats: {...}} on stdout.
package main

import (
	"encoding/json"
	"fmt"
	"go/ast"
	"go/constant"
	"go/importer"
	"go/parser"
	"go/token"
	"go/types"
	"io"
	"os"
	"path/filepath"
	"regexp"
	"sort"
	"strings"
)

const (
	KConst   = "WConst"
	KEmbed   = "WEmbed"
	KConfig  = "WConfig"
	KNum     = "WNum"
	KPass    = "WPass"
	KUnclass = "WUnclassified"
)

type Piece struct {
	K    string `json:"k"`
	What string `json:"what"`
}
type Site struct {
	File   string  `json:"file"`
	Line   int     `json:"line"`
	Kind   string  `json:"kind"`
	Sink   string  `json:"sink"`
	Pieces []Piece `json:"pieces"`
}

var configPkgs = map[string]bool{}

var (
	fset   = token.NewFileSet()
	root   string
	mod    string
	imp    types.Importer
	pkgs   = map[string]*pkg{} // dir (relative) -> package
	nerrs  int
	sites  []Site
	seenSt = map[string]bool{}
)

type pkg struct {
	dir     string
	files   []*ast.File
	fnames  []string
	src     []string
	info    *types.Info
	checked bool
}

type defn struct {
	p    *pkg
	e    ast.Expr // value assigned (nil for special)
	elem bool     // the value is ONE ELEMENT of the variable (m[k] = v)
	tup  int      // >= 0: the tup-th result of the call e
	rng  bool     // the variable ranges over the elements of e
	addr bool     // address taken
	zero bool
}

type paramRef struct {
	p   *pkg
	fn  ast.Node // *ast.FuncDecl or *ast.FuncLit
	idx int
}

var (
	defs    = map[string][]defn{}    // position key of a variable / field -> definitions
	params  = map[string]paramRef{}  // position key of a parameter
	fdecls  = map[string]*fnInfo{}   // position key of a function name -> declaration
	embeds  = map[string]bool{}      // position key of a //go:embed variable
	encl    = map[ast.Node]ast.Node{} // FuncLit / FuncDecl of a node (filled for sink expressions on demand)
	passReg = map[string]*passSink{}
	passQ   []*passSink
)

type fnInfo struct {
	p    *pkg
	decl *ast.FuncDecl
}

type passSink struct {
	key    string
	name   string
	idx    int
	method bool
	nparam int
	sig    string // closures: signature
	lit    bool
	varKey string // closures bound to one variable: calls through that variable
	desc   string
	ncalls int
}

func poskey(p token.Pos) string {
	ps := fset.Position(p)
	rel, err := filepath.Rel(root, ps.Filename)
	if err != nil {
		rel = ps.Filename
	}
	return fmt.Sprintf("%s:%d:%d", rel, ps.Line, ps.Column)
}

// Stable names of objects across packages: an imported package is read from export data, whose positions differ from the
// parsed source, so package-level variables, functions/methods and fields of named struct types are named by path.
func varKey(o *types.Var, owner types.Type) string {
	if o.IsField() {
		if owner != nil {
			if n, ok := deref(owner).(*types.Named); ok {
				return "F:" + types.TypeString(n, nil) + "." + o.Name()
			}
		}
		return poskey(o.Pos())
	}
	if o.Pkg() != nil && o.Parent() == o.Pkg().Scope() {
		return "V:" + o.Pkg().Path() + "." + o.Name()
	}
	return poskey(o.Pos())
}

func funcKey(fn *types.Func) string { return "M:" + fn.FullName() }

func ownerOf(sel *types.Selection) types.Type {
	t := sel.Recv()
	idx := sel.Index()
	for _, i := range idx[:len(idx)-1] {
		st, ok := deref(t).Underlying().(*types.Struct)
		if !ok {
			return nil
		}
		t = st.Field(i).Type()
	}
	return deref(t)
}

func relpos(p token.Pos) (string, int) {
	ps := fset.Position(p)
	rel, err := filepath.Rel(root, ps.Filename)
	if err != nil {
		rel = ps.Filename
	}
	return rel, ps.Line
}

func exprStr(e ast.Expr) string {
	if e == nil {
		return ""
	}
	ps, pe := fset.Position(e.Pos()), fset.Position(e.End())
	b, err := os.ReadFile(ps.Filename)
	if err != nil || pe.Offset > len(b) || ps.Offset > pe.Offset {
		return "?"
	}
	s := strings.Join(strings.Fields(string(b[ps.Offset:pe.Offset])), " ")
	if len(s) > 90 {
		s = s[:90] + "..."
	}
	return s
}

// ---------------------------------------------------------------- loading
func scan() {
	filepath.Walk(root, func(path string, fi os.FileInfo, err error) error {
		if err != nil {
			return nil
		}
		if fi.IsDir() {
			n := fi.Name()
			if path != root && (strings.HasPrefix(n, ".") || n == "vendor" || n == "testdata" || n == "node_modules") {
				return filepath.SkipDir
			}
			return nil
		}
		if !strings.HasSuffix(path, ".go") || strings.HasSuffix(path, "_test.go") {
			return nil
		}
		b, err := os.ReadFile(path)
		if err != nil {
			return nil
		}
		if strings.Contains(string(b[:min(len(b), 400)]), "//go:build verif") {
			return nil // verification hooks are not part of the product
		}
		f, err := parser.ParseFile(fset, path, b, parser.ParseComments)
		if err != nil {
			fmt.Fprintln(os.Stderr, "wsqlsites: parse", path, err)
			os.Exit(1)
		}
		dir, _ := filepath.Rel(root, filepath.Dir(path))
		p := pkgs[dir]
		if p == nil {
			p = &pkg{dir: dir}
			pkgs[dir] = p
		}
		// one package per directory: skip files of another package name (package main tools next to a library)
		if len(p.files) > 0 && p.files[0].Name.Name != f.Name.Name {
			return nil
		}
		p.files = append(p.files, f)
		p.fnames = append(p.fnames, path)
		p.src = append(p.src, string(b))
		return nil
	})
}

func min(a, b int) int {
	if a < b {
		return a
	}
	return b
}

func (p *pkg) check() {
	if p.checked {
		return
	}
	p.checked = true
	p.info = &types.Info{Types: map[ast.Expr]types.TypeAndValue{}, Defs: map[*ast.Ident]types.Object{}, Uses: map[*ast.Ident]types.Object{},
		Selections: map[*ast.SelectorExpr]*types.Selection{}}
	conf := types.Config{Importer: imp, Error: func(err error) {
		nerrs++
		if nerrs <= 5 {
			fmt.Fprintln(os.Stderr, "wsqlsites: type check of", p.dir+":", err)
		}
	}}
	path := mod
	if p.dir != "." {
		path = mod + "/" + filepath.ToSlash(p.dir)
	}
	conf.Check(path, fset, p.files, p.info)
	p.index()
}

// every module package whose source mentions the identifier
func ensureMention(name string) {
	re := regexp.MustCompile(`\b` + regexp.QuoteMeta(name) + `\b`)
	var dirs []string
	for d := range pkgs {
		dirs = append(dirs, d)
	}
	sort.Strings(dirs)
	for _, d := range dirs {
		p := pkgs[d]
		if p.checked {
			continue
		}
		for _, s := range p.src {
			if re.MatchString(s) {
				p.check()
				break
			}
		}
	}
}

func (p *pkg) obj(id *ast.Ident) types.Object {
	if o := p.info.Defs[id]; o != nil {
		return o
	}
	return p.info.Uses[id]
}

// the variable / field an lvalue denotes ("" if none), and whether the write is to an element of it
func (p *pkg) lvalKey(e ast.Expr) (string, bool) {
	switch x := e.(type) {
	case *ast.Ident:
		if x.Name == "_" {
			return "", false
		}
		if o, ok := p.obj(x).(*types.Var); ok {
			return varKey(o, nil), false
		}
	case *ast.SelectorExpr:
		if s := p.info.Selections[x]; s != nil {
			if o, ok := s.Obj().(*types.Var); ok {
				return varKey(o, ownerOf(s)), false
			}
		}
		if o, ok := p.info.Uses[x.Sel].(*types.Var); ok {
			return varKey(o, nil), false
		}
	case *ast.IndexExpr:
		k, _ := p.lvalKey(x.X)
		return k, true
	case *ast.StarExpr:
		return p.lvalKey(x.X)
	case *ast.ParenExpr:
		return p.lvalKey(x.X)
	}
	return "", false
}

func (p *pkg) index() {
	for _, f := range p.files {
		// go:embed variables
		for _, d := range f.Decls {
			gd, ok := d.(*ast.GenDecl)
			if !ok || gd.Tok != token.VAR {
				continue
			}
			for _, sp := range gd.Specs {
				vs := sp.(*ast.ValueSpec)
				doc := vs.Doc
				if doc == nil {
					doc = gd.Doc
				}
				if doc != nil && strings.Contains(doc.Text()+commentRaw(doc), "go:embed") {
					for _, n := range vs.Names {
						if o, ok := p.info.Defs[n].(*types.Var); ok {
							embeds[varKey(o, nil)] = true
						}
					}
				}
			}
		}
		var stack []ast.Node
		ast.Inspect(f, func(n ast.Node) bool {
			if n == nil {
				stack = stack[:len(stack)-1]
				return true
			}
			stack = append(stack, n)
			switch x := n.(type) {
			case *ast.FuncDecl:
				if o, ok := p.info.Defs[x.Name].(*types.Func); ok {
					fdecls[funcKey(o)] = &fnInfo{p, x}
				}
				p.regParams(x, x.Type)
			case *ast.FuncLit:
				p.regParams(x, x.Type)
			case *ast.AssignStmt:
				if len(x.Lhs) == len(x.Rhs) {
					for i := range x.Lhs {
						if k, el := p.lvalKey(x.Lhs[i]); k != "" {
							defs[k] = append(defs[k], defn{p: p, e: x.Rhs[i], elem: el, tup: -1})
						}
					}
				} else if len(x.Rhs) == 1 {
					for i := range x.Lhs {
						if k, el := p.lvalKey(x.Lhs[i]); k != "" {
							defs[k] = append(defs[k], defn{p: p, e: x.Rhs[0], elem: el, tup: i})
						}
					}
				}
			case *ast.ValueSpec:
				for i, nm := range x.Names {
					o, ok := p.info.Defs[nm].(*types.Var)
					if !ok {
						continue
					}
					k := varKey(o, nil)
					switch {
					case len(x.Values) == len(x.Names):
						defs[k] = append(defs[k], defn{p: p, e: x.Values[i], tup: -1})
					case len(x.Values) == 1:
						defs[k] = append(defs[k], defn{p: p, e: x.Values[0], tup: i})
					default:
						defs[k] = append(defs[k], defn{p: p, zero: true, tup: -1})
					}
				}
			case *ast.RangeStmt:
				if x.Value != nil {
					if k, _ := p.lvalKey(x.Value); k != "" {
						defs[k] = append(defs[k], defn{p: p, e: x.X, rng: true, tup: -1})
					}
				}
				if x.Key != nil {
					if k, _ := p.lvalKey(x.Key); k != "" {
						// the key of a map is an element as well (joined with the values: over-approximation)
						defs[k] = append(defs[k], defn{p: p, e: x.X, rng: true, tup: -1})
					}
				}
			case *ast.CompositeLit:
				tv, ok := p.info.Types[x]
				if !ok {
					break
				}
				st, ok := deref(tv.Type).Underlying().(*types.Struct)
				if !ok {
					break
				}
				for i, el := range x.Elts {
					if kv, ok := el.(*ast.KeyValueExpr); ok {
						if id, ok := kv.Key.(*ast.Ident); ok {
							for j := 0; j < st.NumFields(); j++ {
								if st.Field(j).Name() == id.Name {
									k := varKey(st.Field(j), tv.Type)
									defs[k] = append(defs[k], defn{p: p, e: kv.Value, tup: -1})
								}
							}
						}
					} else if i < st.NumFields() {
						k := varKey(st.Field(i), tv.Type)
						defs[k] = append(defs[k], defn{p: p, e: el, tup: -1})
					}
				}
			case *ast.UnaryExpr:
				if x.Op == token.AND {
					if _, isLit := x.X.(*ast.CompositeLit); !isLit {
						if k, _ := p.lvalKey(x.X); k != "" {
							defs[k] = append(defs[k], defn{p: p, e: x, addr: true, tup: -1})
						}
					}
				}
			}
			return true
		})
	}
}

func commentRaw(g *ast.CommentGroup) string {
	s := ""
	for _, c := range g.List {
		s += c.Text + "\n"
	}
	return s
}

func (p *pkg) regParams(fn ast.Node, ft *ast.FuncType) {
	i := 0
	if ft.Params == nil {
		return
	}
	for _, fl := range ft.Params.List {
		if len(fl.Names) == 0 {
			i++
			continue
		}
		for _, nm := range fl.Names {
			if o := p.info.Defs[nm]; o != nil {
				params[poskey(o.Pos())] = paramRef{p, fn, i}
			}
			i++
		}
	}
}

func deref(t types.Type) types.Type {
	if pt, ok := t.Underlying().(*types.Pointer); ok {
		return pt.Elem()
	}
	return t
}

// ---------------------------------------------------------------- classification
type visit struct{ busy map[string]bool }

func one(k, what string) []Piece { return []Piece{{K: k, What: what}} }

func isNumeric(t types.Type) bool {
	if t == nil {
		return false
	}
	b, ok := t.Underlying().(*types.Basic)
	if !ok {
		return false
	}
	if b.Info()&(types.IsInteger|types.IsFloat|types.IsBoolean|types.IsComplex) == 0 {
		return false
	}
	if _, named := t.(*types.Named); named {
		ts := types.TypeString(t, nil)
		if ts == "time.Duration" || ts == "time.Month" || ts == "time.Weekday" {
			return true
		}
		ms := types.NewMethodSet(t)
		for _, m := range []string{"String", "Format", "Error", "GoString"} {
			if ms.Lookup(nil, m) != nil {
				return false
			}
		}
	}
	return true
}

func isCollection(t types.Type) bool {
	if t == nil {
		return false
	}
	switch u := t.Underlying().(type) {
	case *types.Slice:
		if b, ok := u.Elem().Underlying().(*types.Basic); ok && b.Kind() == types.Byte {
			return false
		}
		return true
	case *types.Array, *types.Map:
		return true
	}
	return false
}

func (p *pkg) typeOf(e ast.Expr) types.Type {
	if tv, ok := p.info.Types[e]; ok {
		return tv.Type
	}
	if id, ok := e.(*ast.Ident); ok {
		if o := p.obj(id); o != nil {
			return o.Type()
		}
	}
	return nil
}

func (p *pkg) classifyAny(e ast.Expr, v *visit) []Piece {
	if isCollection(p.typeOf(e)) {
		return p.elems(e, v)
	}
	return p.classify(e, v)
}

func calleeFunc(p *pkg, c *ast.CallExpr) *types.Func {
	switch f := c.Fun.(type) {
	case *ast.Ident:
		if fn, ok := p.info.Uses[f].(*types.Func); ok {
			return fn
		}
	case *ast.SelectorExpr:
		if s := p.info.Selections[f]; s != nil {
			if fn, ok := s.Obj().(*types.Func); ok {
				return fn
			}
		}
		if fn, ok := p.info.Uses[f.Sel].(*types.Func); ok {
			return fn
		}
	}
	return nil
}

func fullName(fn *types.Func) string {
	if fn == nil {
		return ""
	}
	return fn.FullName()
}

var joinAll = map[string]bool{"strings.TrimSpace": true, "strings.Trim": true, "strings.TrimLeft": true, "strings.TrimRight": true,
	"strings.TrimPrefix": true, "strings.TrimSuffix": true, "strings.ToLower": true, "strings.ToUpper": true, "strings.Title": true,
	"strings.Replace": true, "strings.ReplaceAll": true, "strings.Repeat": true, "(*regexp.Regexp).ReplaceAllString": true,
	"(*regexp.Regexp).ReplaceAllLiteralString": true, "strings.Split": true, "strings.SplitN": true, "strings.Fields": true}

func (p *pkg) varPieces(key string, what string, v *visit, elems bool) []Piece {
	if pr, ok := params[key]; ok {
		return one(KPass, regPass(pr, what))
	}
	if embeds[key] {
		return one(KEmbed, what)
	}
	bk := key
	if elems {
		bk += "[]"
	}
	if v.busy[bk] {
		return nil
	}
	v.busy[bk] = true
	defer delete(v.busy, bk)
	ds := defs[key]
	if len(ds) == 0 {
		return one(KUnclass, "no definition found for "+what)
	}
	var out []Piece
	for _, d := range ds {
		switch {
		case d.zero:
			out = append(out, Piece{KConst, "zero value of " + what})
		case d.addr:
			if !isNumeric(d.p.typeOf(d.e.(*ast.UnaryExpr).X)) {
				out = append(out, Piece{KUnclass, "address of " + what + " is taken (" + exprStr(d.e) + "): written elsewhere"})
			}
		case d.rng:
			out = append(out, d.p.elems(d.e, v)...)
		case d.tup >= 0:
			out = append(out, d.p.tupleRes(d.e, d.tup, v, elems)...)
		case d.elem:
			out = append(out, d.p.classifyAny(d.e, v)...)
		case elems:
			out = append(out, d.p.elems(d.e, v)...)
		default:
			out = append(out, d.p.classifyAny(d.e, v)...)
		}
	}
	return out
}

// the i-th result of a call
func (p *pkg) tupleRes(e ast.Expr, i int, v *visit, elems bool) []Piece {
	if ta, ok := e.(*ast.TypeAssertExpr); ok && i == 0 {
		return p.classifyAny(ta.X, v)
	}
	if ix, ok := e.(*ast.IndexExpr); ok && i == 0 { // v, ok := m[k]
		return p.elems(ix.X, v)
	}
	c, ok := e.(*ast.CallExpr)
	if !ok {
		if i > 0 {
			return nil
		}
		return one(KUnclass, "multi-value "+exprStr(e))
	}
	if fn := calleeFunc(p, c); fn != nil {
		if fi := fdecls[funcKey(fn)]; fi != nil {
			return returnsOf(fi, i, v)
		}
		if sig, ok := fn.Type().(*types.Signature); ok && i < sig.Results().Len() {
			rt := sig.Results().At(i).Type()
			if isNumeric(rt) || types.TypeString(rt, nil) == "error" {
				return one(KNum, "numeric/error result of "+fullName(fn))
			}
		}
	}
	return one(KUnclass, fmt.Sprintf("result %d of %s", i, exprStr(c)))
}

func returnsOf(fi *fnInfo, i int, v *visit) []Piece {
	key := fmt.Sprintf("ret:%s#%d", poskey(fi.decl.Pos()), i)
	if v.busy[key] {
		return nil
	}
	v.busy[key] = true
	defer delete(v.busy, key)
	fi.p.check()
	var out []Piece
	if fi.decl.Body == nil {
		return one(KUnclass, "function without body "+fi.decl.Name.Name)
	}
	// named results assigned and returned bare
	var named []*ast.Ident
	if fi.decl.Type.Results != nil {
		for _, fl := range fi.decl.Type.Results.List {
			named = append(named, fl.Names...)
		}
	}
	ast.Inspect(fi.decl.Body, func(n ast.Node) bool {
		if _, ok := n.(*ast.FuncLit); ok {
			return false
		}
		r, ok := n.(*ast.ReturnStmt)
		if !ok {
			return true
		}
		switch {
		case len(r.Results) == 0 && i < len(named):
			out = append(out, fi.p.classifyAny(named[i], v)...)
		case i < len(r.Results):
			out = append(out, fi.p.classifyAny(r.Results[i], v)...)
		case len(r.Results) == 1:
			out = append(out, fi.p.tupleRes(r.Results[0], i, v, false)...)
		}
		return true
	})
	return out
}

func (p *pkg) classify(e ast.Expr, v *visit) []Piece {
	if tv, ok := p.info.Types[e]; ok && tv.Value != nil {
		s := tv.Value.ExactString()
		if tv.Value.Kind() == constant.String {
			s = constant.StringVal(tv.Value)
		}
		if len(s) > 60 {
			s = s[:60] + "..."
		}
		return one(KConst, s)
	}
	t := p.typeOf(e)
	if isNumeric(t) {
		return one(KNum, exprStr(e))
	}
	switch x := e.(type) {
	case *ast.ParenExpr:
		return p.classify(x.X, v)
	case *ast.BasicLit:
		return one(KConst, x.Value)
	case *ast.BinaryExpr:
		if x.Op == token.ADD {
			return append(p.classify(x.X, v), p.classify(x.Y, v)...)
		}
	case *ast.Ident:
		switch o := p.obj(x).(type) {
		case *types.Var:
			return p.varPieces(varKey(o, nil), x.Name, v, false)
		case *types.Nil:
			return one(KConst, "nil")
		}
	case *ast.SelectorExpr:
		if s := p.info.Selections[x]; s != nil {
			if o, ok := s.Obj().(*types.Var); ok {
				if o.Pkg() != nil && strings.Contains(strings.ToLower(o.Pkg().Path()), "config") {
					configPkgs[o.Pkg().Path()] = true
					return one(KConfig, exprStr(x))
				}
				return p.varPieces(varKey(o, ownerOf(s)), exprStr(x), v, false)
			}
		}
		if o, ok := p.info.Uses[x.Sel].(*types.Var); ok { // pkg.Var
			if !strings.HasPrefix(o.Pkg().Path(), mod) {
				return one(KUnclass, "variable of another module "+exprStr(x))
			}
			if d := pkgs[strings.TrimPrefix(strings.TrimPrefix(o.Pkg().Path(), mod), "/")]; d != nil {
				d.check()
			}
			return p.varPieces(varKey(o, nil), exprStr(x), v, false)
		}
	case *ast.IndexExpr:
		return p.elems(x.X, v)
	case *ast.SliceExpr:
		return p.classifyAny(x.X, v)
	case *ast.StarExpr:
		return p.classify(x.X, v)
	case *ast.TypeAssertExpr:
		return p.classify(x.X, v)
	case *ast.CallExpr:
		return p.classifyCall(x, v)
	}
	return one(KUnclass, exprStr(e))
}

func (p *pkg) classifyCall(c *ast.CallExpr, v *visit) []Piece {
	// conversions
	if tv, ok := p.info.Types[c.Fun]; ok && tv.IsType() && len(c.Args) == 1 {
		return p.classifyAny(c.Args[0], v)
	}
	fn := calleeFunc(p, c)
	name := fullName(fn)
	switch {
	case name == "fmt.Sprintf" && len(c.Args) >= 1:
		return p.sprintf(c.Args, v)
	case strings.HasPrefix(name, "strconv.Format") || name == "strconv.Itoa" || name == "strconv.Quote" && false:
		return one(KNum, exprStr(c))
	case name == "strings.Join" && len(c.Args) == 2:
		return append(p.elems(c.Args[0], v), p.classify(c.Args[1], v)...)
	case joinAll[name]:
		var out []Piece
		if se, ok := c.Fun.(*ast.SelectorExpr); ok && strings.HasPrefix(name, "(") {
			_ = se // the receiver (a compiled regexp) contributes no text
		}
		for _, a := range c.Args {
			if isNumeric(p.typeOf(a)) {
				continue
			}
			out = append(out, p.classifyAny(a, v)...)
		}
		return out
	case name == "(*bytes.Buffer).String" || name == "(*strings.Builder).String":
		return p.bufferContent(c.Fun.(*ast.SelectorExpr).X, v)
	case name == "(time.Time).Format" || name == "(time.Duration).String":
		return one(KNum, exprStr(c)+" (time text)")
	}
	if fn != nil {
		if fi := fdecls[funcKey(fn)]; fi != nil {
			return returnsOf(fi, 0, v)
		}
		// a module function whose package is not type-checked yet
		if fn.Pkg() != nil && strings.HasPrefix(fn.Pkg().Path(), mod) {
			if d := pkgs[strings.TrimPrefix(strings.TrimPrefix(fn.Pkg().Path(), mod), "/")]; d != nil && !d.checked {
				d.check()
				if fi := fdecls[funcKey(fn)]; fi != nil {
					return returnsOf(fi, 0, v)
				}
			}
		}
	}
	if id, ok := c.Fun.(*ast.Ident); ok && fn == nil {
		if o, ok := p.obj(id).(*types.Var); ok {
			if lits := closuresOf(varKey(o, nil)); len(lits) > 0 {
				var out []Piece
				for _, l := range lits {
					out = append(out, returnsOfLit(p, l, 0, v)...)
				}
				return out
			}
		}
	}
	return one(KUnclass, "call "+exprStr(c))
}

// the function literals a variable holds, if it holds nothing else
func closuresOf(key string) []*ast.FuncLit {
	var lits []*ast.FuncLit
	for _, d := range defs[key] {
		l, ok := d.e.(*ast.FuncLit)
		if !ok || d.addr || d.elem || d.rng || d.tup >= 0 {
			return nil
		}
		lits = append(lits, l)
	}
	return lits
}

func returnsOfLit(p *pkg, l *ast.FuncLit, i int, v *visit) []Piece {
	key := fmt.Sprintf("ret:%s#%d", poskey(l.Pos()), i)
	if v.busy[key] {
		return nil
	}
	v.busy[key] = true
	defer delete(v.busy, key)
	var out []Piece
	ast.Inspect(l.Body, func(n ast.Node) bool {
		if _, ok := n.(*ast.FuncLit); ok {
			return false
		}
		if r, ok := n.(*ast.ReturnStmt); ok && i < len(r.Results) {
			out = append(out, p.classifyAny(r.Results[i], v)...)
		}
		return true
	})
	return out
}

var verbRe = regexp.MustCompile(`%[-+# 0]*(?:\d+|\*)?(?:\.(?:\d+|\*))?([a-zA-Z%])`)

func (p *pkg) sprintf(args []ast.Expr, v *visit) []Piece {
	tv, ok := p.info.Types[args[0]]
	if !ok || tv.Value == nil || tv.Value.Kind() != constant.String {
		// a computed format string: the text is whatever the format and the arguments are made of (no claim about verbs)
		out := p.classify(args[0], v)
		for _, a := range args[1:] {
			out = append(out, p.classifyAny(a, v)...)
		}
		return out
	}
	f := constant.StringVal(tv.Value)
	short := f
	if len(short) > 60 {
		short = short[:60] + "..."
	}
	out := one(KConst, short)
	ai := 1
	for _, m := range verbRe.FindAllStringSubmatch(f, -1) {
		if m[1] == "%" {
			continue
		}
		if strings.Contains(m[0], "*") {
			out = append(out, Piece{KUnclass, "width from an argument: " + m[0]})
			ai++
		}
		if ai >= len(args) {
			out = append(out, Piece{KUnclass, "missing argument for " + m[0]})
			continue
		}
		a := args[ai]
		ai++
		switch m[1] {
		case "d", "f", "g", "e", "x", "X", "b", "o", "t", "c", "U":
			if isNumeric(p.typeOf(a)) {
				out = append(out, Piece{KNum, exprStr(a)})
			} else {
				out = append(out, Piece{KUnclass, "verb " + m[0] + " of non-numeric " + exprStr(a)})
			}
		case "s", "v", "q":
			out = append(out, p.classifyAny(a, v)...)
		default:
			out = append(out, Piece{KUnclass, "verb " + m[0] + " of " + exprStr(a)})
		}
	}
	for ; ai < len(args); ai++ {
		out = append(out, p.classifyAny(args[ai], v)...) // %!(EXTRA ...)
	}
	return out
}

// the elements of a slice / array / map valued expression
func (p *pkg) elems(e ast.Expr, v *visit) []Piece {
	if t := p.typeOf(e); t != nil {
		switch u := t.Underlying().(type) {
		case *types.Slice:
			if isNumeric(u.Elem()) {
				return one(KNum, "elements of "+exprStr(e))
			}
		case *types.Basic: // ranging over / indexing a string
			return p.classify(e, v)
		}
	}
	switch x := e.(type) {
	case *ast.ParenExpr:
		return p.elems(x.X, v)
	case *ast.CompositeLit:
		var out []Piece
		for _, el := range x.Elts {
			if kv, ok := el.(*ast.KeyValueExpr); ok {
				out = append(out, p.classifyAny(kv.Value, v)...)
				if _, isStr := kv.Key.(*ast.BasicLit); !isStr {
					out = append(out, p.classifyAny(kv.Key, v)...)
				}
			} else {
				out = append(out, p.classifyAny(el, v)...)
			}
		}
		if len(out) == 0 {
			return one(KConst, "empty collection")
		}
		return out
	case *ast.Ident:
		switch o := p.obj(x).(type) {
		case *types.Var:
			return p.varPieces(varKey(o, nil), x.Name, v, true)
		case *types.Nil:
			return one(KConst, "nil")
		}
	case *ast.SelectorExpr:
		if s := p.info.Selections[x]; s != nil {
			if o, ok := s.Obj().(*types.Var); ok {
				if o.Pkg() != nil && strings.Contains(strings.ToLower(o.Pkg().Path()), "config") {
					configPkgs[o.Pkg().Path()] = true
					return one(KConfig, exprStr(x))
				}
				return p.varPieces(varKey(o, ownerOf(s)), exprStr(x), v, true)
			}
		}
		if o, ok := p.info.Uses[x.Sel].(*types.Var); ok && strings.HasPrefix(o.Pkg().Path(), mod) {
			if d := pkgs[strings.TrimPrefix(strings.TrimPrefix(o.Pkg().Path(), mod), "/")]; d != nil {
				d.check()
			}
			return p.varPieces(varKey(o, nil), exprStr(x), v, true)
		}
	case *ast.SliceExpr:
		return p.elems(x.X, v)
	case *ast.IndexExpr: // element of a collection of collections
		return p.elems(x.X, v)
	case *ast.CallExpr:
		if id, ok := x.Fun.(*ast.Ident); ok && p.info.Uses[id] != nil {
			if _, isB := p.info.Uses[id].(*types.Builtin); isB {
				switch id.Name {
				case "append":
					out := p.elems(x.Args[0], v)
					for _, a := range x.Args[1:] {
						if x.Ellipsis.IsValid() {
							out = append(out, p.elems(a, v)...)
						} else {
							out = append(out, p.classifyAny(a, v)...)
						}
					}
					return out
				case "make", "new":
					return one(KConst, "empty collection")
				}
			}
		}
		fn := calleeFunc(p, x)
		if joinAll[fullName(fn)] {
			return p.classifyCall(x, v)
		}
		if fn != nil {
			if fi := fdecls[funcKey(fn)]; fi != nil {
				return returnsOf(fi, 0, v)
			}
		}
	}
	return one(KUnclass, "elements of "+exprStr(e))
}

// what a bytes.Buffer / strings.Builder holds: everything written to it in the enclosing function
func (p *pkg) bufferContent(buf ast.Expr, v *visit) []Piece {
	id, ok := buf.(*ast.Ident)
	if !ok {
		return one(KUnclass, "buffer "+exprStr(buf))
	}
	o := p.obj(id)
	if o == nil {
		return one(KUnclass, "buffer "+exprStr(buf))
	}
	var out []Piece
	found := false
	for _, f := range p.files {
		if f.Pos() <= o.Pos() && o.Pos() <= f.End() {
			ast.Inspect(f, func(n ast.Node) bool {
				c, ok := n.(*ast.CallExpr)
				if !ok {
					return true
				}
				refers := func(e ast.Expr) bool {
					if u, ok := e.(*ast.UnaryExpr); ok {
						e = u.X
					}
					i, ok := e.(*ast.Ident)
					return ok && p.obj(i) == o
				}
				name := fullName(calleeFunc(p, c))
				switch {
				case (name == "(*text/template.Template).Execute" || name == "(*html/template.Template).Execute") && len(c.Args) == 2 && refers(c.Args[0]):
					found = true
					out = append(out, p.templateSource(c.Fun.(*ast.SelectorExpr).X, v)...)
					out = append(out, p.classifyAny(c.Args[1], v)...)
				case (name == "(*bytes.Buffer).WriteString" || name == "(*strings.Builder).WriteString" || name == "(*bytes.Buffer).Write") && refers(c.Fun.(*ast.SelectorExpr).X):
					found = true
					out = append(out, p.classifyAny(c.Args[0], v)...)
				case name == "fmt.Fprintf" && len(c.Args) >= 2 && refers(c.Args[0]):
					found = true
					out = append(out, p.sprintf(c.Args[1:], v)...)
				case name == "bytes.NewBufferString" || name == "bytes.NewBuffer":
					// initial content: handled through the variable's definitions below
				default:
					// the buffer handed to anything else
					for _, a := range c.Args {
						if refers(a) && !strings.HasSuffix(name, ".Execute") {
							found = true
							out = append(out, Piece{KUnclass, "buffer passed to " + exprStr(c)})
						}
					}
				}
				return true
			})
		}
	}
	if !found {
		return one(KUnclass, "nothing known about the content of "+exprStr(buf))
	}
	return out
}

// the text a template was parsed from
func (p *pkg) templateSource(t ast.Expr, v *visit) []Piece {
	switch x := t.(type) {
	case *ast.Ident:
		if o, ok := p.obj(x).(*types.Var); ok {
			var out []Piece
			for _, d := range defs[varKey(o, nil)] {
				if d.e != nil && !d.addr {
					out = append(out, d.p.templateSource(d.e, v)...)
				}
			}
			if len(out) > 0 {
				return out
			}
		}
	case *ast.CallExpr:
		name := fullName(calleeFunc(p, x))
		if (name == "(*text/template.Template).Parse" || name == "(*html/template.Template).Parse") && len(x.Args) == 1 {
			return p.classify(x.Args[0], v)
		}
		if name == "text/template.Must" && len(x.Args) == 1 {
			return p.templateSource(x.Args[0], v)
		}
	}
	return one(KUnclass, "template "+exprStr(t))
}

// ---------------------------------------------------------------- pass-through parameters
func regPass(pr paramRef, what string) string {
	var key, name, desc string
	ps := &passSink{idx: pr.idx}
	switch f := pr.fn.(type) {
	case *ast.FuncDecl:
		key = fmt.Sprintf("%s#%d", poskey(f.Name.Pos()), pr.idx)
		if o, ok := pr.p.info.Defs[f.Name].(*types.Func); ok {
			key = fmt.Sprintf("%s#%d", funcKey(o), pr.idx)
		}
		name = f.Name.Name
		ps.method = f.Recv != nil
		if f.Recv != nil && len(f.Recv.List) > 0 {
			desc = "(" + exprStr(f.Recv.List[0].Type) + ")." + name
		} else {
			desc = pr.p.dir + "." + name
		}
		ps.nparam = nparams(f.Type)
	case *ast.FuncLit:
		key = fmt.Sprintf("%s#%d", poskey(f.Pos()), pr.idx)
		desc = "closure in " + enclosingFunc(pr.p, f.Pos())
		ps.lit = true
		for k, ds := range defs {
			for _, d := range ds {
				if d.e == ast.Expr(f) {
					if ls := closuresOf(k); len(ls) > 0 {
						ps.varKey = k
					}
				}
			}
		}
		if tv, ok := pr.p.info.Types[f]; ok {
			ps.sig = types.TypeString(tv.Type, nil)
		}
		ps.nparam = nparams(f.Type)
	}
	desc = fmt.Sprintf("parameter %s (#%d) of %s", what, pr.idx, desc)
	if passReg[key] == nil {
		ps.key, ps.name, ps.desc = key, name, desc
		passReg[key] = ps
		passQ = append(passQ, ps)
	}
	return desc
}

// "<dir>.<function>" of the declaration that contains the position (closures are named after it: no line numbers, so that
// the reviewed list of entry points survives unrelated edits)
func enclosingFunc(p *pkg, pos token.Pos) string {
	for _, f := range p.files {
		for _, d := range f.Decls {
			if fd, ok := d.(*ast.FuncDecl); ok && fd.Pos() <= pos && pos <= fd.End() {
				if fd.Recv != nil && len(fd.Recv.List) > 0 {
					return p.dir + ".(" + exprStr(fd.Recv.List[0].Type) + ")." + fd.Name.Name
				}
				return p.dir + "." + fd.Name.Name
			}
		}
	}
	file, _ := relpos(pos)
	return file
}

func nparams(ft *ast.FuncType) int {
	n := 0
	if ft.Params != nil {
		for _, fl := range ft.Params.List {
			if len(fl.Names) == 0 {
				n++
			} else {
				n += len(fl.Names)
			}
		}
	}
	return n
}

func isVariadic(t types.Type) bool {
	s, ok := t.(*types.Signature)
	return ok && s.Variadic()
}

// every call site of a pass-through function in the module
func (ps *passSink) callSites() {
	if !ps.lit {
		ensureMention(ps.name)
	}
	var dirs []string
	for d, p := range pkgs {
		if p.checked {
			dirs = append(dirs, d)
		}
	}
	sort.Strings(dirs)
	fkey := ps.key[:strings.LastIndex(ps.key, "#")]
	for _, d := range dirs {
		p := pkgs[d]
		for _, f := range p.files {
			calls := map[*ast.Ident]bool{}
			ast.Inspect(f, func(n ast.Node) bool {
				c, ok := n.(*ast.CallExpr)
				if !ok {
					return true
				}
				match := false
				fn := calleeFunc(p, c)
				switch {
				case ps.lit && ps.varKey != "":
					if id, ok := c.Fun.(*ast.Ident); ok && fn == nil {
						if o, ok := p.obj(id).(*types.Var); ok && varKey(o, nil) == ps.varKey {
							match = true
						}
					}
				case ps.lit:
					// a call through a function value with the closure's signature
					if fn == nil {
						if tv, ok := p.info.Types[c.Fun]; ok && !tv.IsType() && tv.Type != nil && types.TypeString(tv.Type, nil) == ps.sig {
							match = true
						}
					}
				case fn != nil && funcKey(fn) == fkey:
					match = true
				case fn != nil && ps.method && fn.Name() == ps.name:
					// the same method name on any receiver (interfaces, embedding): over-approximation
					if sig, ok := fn.Type().(*types.Signature); ok && sig.Recv() != nil && sig.Params().Len() == ps.nparam &&
						strings.HasPrefix(pkgPathOf(fn), mod) {
						match = true
					}
				}
				if fn != nil {
					switch id := c.Fun.(type) {
					case *ast.Ident:
						calls[id] = true
					case *ast.SelectorExpr:
						calls[id.Sel] = true
					}
				}
				if !match {
					return true
				}
				ps.ncalls++
				var args []ast.Expr
				tv := p.info.Types[c.Fun]
				if ps.idx < len(c.Args) {
					if isVariadic(tv.Type) && ps.idx == ps.nparam-1 && !c.Ellipsis.IsValid() {
						args = c.Args[ps.idx:]
					} else {
						args = []ast.Expr{c.Args[ps.idx]}
					}
				}
				var pieces []Piece
				for _, a := range args {
					pieces = append(pieces, p.classifyAny(a, &visit{busy: map[string]bool{}})...)
				}
				if len(args) == 0 {
					pieces = one(KConst, "no argument (variadic)")
				}
				addSite(c.Pos(), "arg of pass-through", ps.desc, pieces)
				return true
			})
			// the function used as a value (callers unknown)
			if !ps.lit {
				for id, o := range p.info.Uses {
					if fn, ok := o.(*types.Func); ok && funcKey(fn) == fkey && !calls[id] && f.Pos() <= id.Pos() && id.Pos() <= f.End() {
						addSite(id.Pos(), "pass-through function used as a value", ps.desc, one(KUnclass, "callers of "+ps.name+" are not known here"))
					}
				}
			}
		}
	}
}

func pkgPathOf(fn *types.Func) string {
	if fn.Pkg() == nil {
		return ""
	}
	return fn.Pkg().Path()
}

func addSite(pos token.Pos, kind, sink string, pieces []Piece) {
	file, line := relpos(pos)
	// drop duplicate pieces
	seen := map[string]bool{}
	var ps []Piece
	for _, x := range pieces {
		k := x.K + "|" + x.What
		if !seen[k] {
			seen[k] = true
			ps = append(ps, x)
		}
	}
	key := fmt.Sprintf("%s:%d:%d|%s|%s", file, line, fset.Position(pos).Column, kind, sink)
	if seenSt[key] {
		return
	}
	seenSt[key] = true
	sites = append(sites, Site{File: file, Line: line, Kind: kind, Sink: sink, Pieces: ps})
}

// ---------------------------------------------------------------- sinks
var sinkNames = map[string]bool{"Exec": true, "Query": true, "QueryRow": true, "PrepareBatch": true, "Select": true, "ExecContext": true,
	"QueryContext": true, "QueryRowContext": true, "Prepare": true, "PrepareContext": true, "AsyncInsert": true, "Scan": true}

var nByPkg int

// packages through which a statement can reach a database (clients and drivers); ch-go/proto holds column data
func dbClientPkg(path string) bool {
	if strings.HasPrefix(path, "github.com/ClickHouse/ch-go/proto") {
		return false
	}
	for _, p := range []string{"github.com/ClickHouse/clickhouse-go", "github.com/ClickHouse/ch-go", "database/sql", "github.com/jmoiron/sqlx"} {
		if path == p || strings.HasPrefix(path, p+"/") {
			return true
		}
	}
	return false
}

func inScope(dir string) bool {
	d := filepath.ToSlash(dir)
	return d == "writer" || strings.HasPrefix(d, "writer/") || d == "ctrl" || strings.HasPrefix(d, "ctrl/")
}

func (p *pkg) findSinks() {
	for _, f := range p.files {
		ast.Inspect(f, func(n ast.Node) bool {
			switch x := n.(type) {
			case *ast.CallExpr:
				// round 4 (go/types): whatever its name, a function or method DECLARED in a database client package that takes a
				// string is a sink too (every string parameter); the column buffers of ch-go/proto carry row data, not statements
				if fn := calleeFunc(p, x); fn != nil && fn.Pkg() != nil && dbClientPkg(fn.Pkg().Path()) {
					se, isSel := x.Fun.(*ast.SelectorExpr)
					if sig, ok := fn.Type().(*types.Signature); ok && !(isSel && sinkNames[se.Sel.Name] && sig.Recv() != nil) {
						for i := 0; i < sig.Params().Len() && i < len(x.Args); i++ {
							if b, ok := sig.Params().At(i).Type().Underlying().(*types.Basic); ok && b.Kind() == types.String {
								addSite(x.Pos(), "statement", fullName(fn)+" (declared in a database client package)", p.classify(x.Args[i], &visit{busy: map[string]bool{}}))
								nByPkg++
							}
						}
						return true
					}
				}
				se, ok := x.Fun.(*ast.SelectorExpr)
				if !ok || !sinkNames[se.Sel.Name] {
					return true
				}
				fn := calleeFunc(p, x)
				if fn == nil {
					return true
				}
				sig, ok := fn.Type().(*types.Signature)
				if !ok || sig.Recv() == nil {
					return true
				}
				for i := 0; i < sig.Params().Len() && i < len(x.Args); i++ {
					if b, ok := sig.Params().At(i).Type().Underlying().(*types.Basic); ok && b.Kind() == types.String {
						addSite(x.Pos(), "statement", fullName(fn), p.classify(x.Args[i], &visit{busy: map[string]bool{}}))
						break
					}
				}
			case *ast.CompositeLit:
				tv, ok := p.info.Types[x]
				if !ok {
					return true
				}
				ts := types.TypeString(deref(tv.Type), nil)
				if !strings.Contains(ts, "ch-go") || !strings.HasSuffix(ts, ".Query") {
					return true
				}
				for _, el := range x.Elts {
					if kv, ok := el.(*ast.KeyValueExpr); ok {
						if id, ok := kv.Key.(*ast.Ident); ok && id.Name == "Body" {
							addSite(kv.Pos(), "ch-go query body", ts, p.classify(kv.Value, &visit{busy: map[string]bool{}}))
						}
					}
				}
			}
			return true
		})
	}
}

func main() {
	root = os.Args[1]
	root, _ = filepath.Abs(root)
	b, _ := os.ReadFile(filepath.Join(root, "go.mod"))
	for _, l := range strings.Split(string(b), "\n") {
		if strings.HasPrefix(l, "module ") {
			mod = strings.TrimSpace(strings.TrimPrefix(l, "module "))
		}
	}
	if mod == "" {
		fmt.Fprintln(os.Stderr, "wsqlsites: no module path")
		os.Exit(1)
	}
	if err := os.Chdir(root); err != nil {
		fmt.Fprintln(os.Stderr, err)
		os.Exit(1)
	}
	// imports are read from compiler export data (go list -export -deps ./..., run by translate/gen_wsqlsites: a few
	// seconds with a warm build cache); os.Args[2] lists <import path>=<export file>
	exports := map[string]string{}
	if len(os.Args) > 2 {
		eb, err := os.ReadFile(os.Args[2])
		if err != nil {
			fmt.Fprintln(os.Stderr, err)
			os.Exit(1)
		}
		for _, l := range strings.Split(string(eb), "\n") {
			if k := strings.Index(l, "="); k > 0 && k < len(l)-1 {
				exports[l[:k]] = l[k+1:]
			}
		}
		imp = importer.ForCompiler(fset, "gc", func(path string) (io.ReadCloser, error) {
			f, ok := exports[path]
			if !ok {
				return nil, fmt.Errorf("no export data for %s", path)
			}
			return os.Open(f)
		})
	} else {
		imp = importer.ForCompiler(fset, "source", nil)
	}
	scan()
	var dirs []string
	for d := range pkgs {
		dirs = append(dirs, d)
	}
	sort.Strings(dirs)
	// type-check the write side; index everything first (definitions are module-wide), then look for sinks
	re := regexp.MustCompile(`\.(Exec|Query|QueryRow|PrepareBatch|Select|ExecContext|QueryContext|QueryRowContext|Prepare|PrepareContext|AsyncInsert|Scan)\(|\bBody:|"github.com/ClickHouse/|"database/sql|"github.com/jmoiron/sqlx`)
	var scope []*pkg
	for _, d := range dirs {
		if !inScope(d) {
			continue
		}
		p := pkgs[d]
		p.check()
		for _, s := range p.src {
			if re.MatchString(s) {
				scope = append(scope, p)
				break
			}
		}
	}
	for _, p := range scope {
		p.findSinks()
	}
	for len(passQ) > 0 {
		ps := passQ[0]
		passQ = passQ[1:]
		ps.callSites()
	}
	sort.SliceStable(sites, func(i, j int) bool {
		if sites[i].File != sites[j].File {
			return sites[i].File < sites[j].File
		}
		if sites[i].Line != sites[j].Line {
			return sites[i].Line < sites[j].Line
		}
		return sites[i].Kind+sites[i].Sink < sites[j].Kind+sites[j].Sink
	})
	var checked []string
	for _, d := range dirs {
		if pkgs[d].checked {
			checked = append(checked, d)
		}
	}
	var entry []string
	for _, ps := range passReg {
		if ps.ncalls == 0 {
			entry = append(entry, ps.desc)
		}
	}
	sort.Strings(entry)
	var cfg []string
	for k := range configPkgs {
		cfg = append(cfg, k)
	}
	sort.Strings(cfg)
	out := map[string]any{"sites": sites, "stats": map[string]any{"sinks_recognised_by_declaring_package_(go/types)": nByPkg, "packages_type_checked": checked, "type_errors": nerrs,
		"pass_through_parameters": len(passReg), "pass_through_without_caller_in_module": entry, "configuration_packages": cfg}}
	enc := json.NewEncoder(os.Stdout)
	enc.SetIndent("", " ")
	enc.Encode(out)
}
