// C01/C02: regenerates coq/gen/GenC01Regions.v from $VERIF_REPO/writer/service/genericInsertService.go:
// every Lock/Unlock region of the methods of *InsertServiceV2 with the fields of the receiver it reads, writes
// (with a classification of the value written) and calls, what a region returns, and every access to a field of
// the receiver OUTSIDE any region.  Standard library only.
package main

import (
	"bytes"
	"fmt"
	"go/ast"
	"go/parser"
	"go/printer"
	"go/token"
	"os"
	"path/filepath"
	"sort"
	"strings"
)

type write struct{ field, rhs string }
type region struct {
	fn      string
	ord     int
	writes  []write
	reads   map[string]bool
	calls   []string
	returns []string
}
type access struct {
	fn, field, mode string
}

var (
	fset    = token.NewFileSet()
	fields  = map[string]bool{}
	regions []*region
	outside []access
	seenOut = map[access]bool{}
)

func text(n ast.Node) string {
	var b bytes.Buffer
	printer.Fprint(&b, fset, n)
	return strings.Join(strings.Fields(b.String()), " ")
}

func q(s string) string { return "\"" + strings.ReplaceAll(s, "\"", "'") + "\"" }

type walker struct {
	fn   string
	recv string
	ord  int
	cur  *region
	env  map[string]string // local name -> classified value it holds
}

func (w *walker) isRecvSel(e ast.Expr) (string, bool) {
	s, ok := e.(*ast.SelectorExpr)
	if !ok {
		return "", false
	}
	id, ok := s.X.(*ast.Ident)
	if !ok || id.Name != w.recv {
		return "", false
	}
	return s.Sel.Name, true
}

func (w *walker) note(field, mode string) {
	if !fields[field] || field == "mtx" {
		return
	}
	if w.cur != nil {
		if mode == "R" || mode == "C" {
			w.cur.reads[field] = true
		}
		return
	}
	a := access{w.fn, field, mode}
	if !seenOut[a] {
		seenOut[a] = true
		outside = append(outside, a)
	}
}

func (w *walker) call(path string) {
	if w.cur != nil {
		w.cur.calls = append(w.cur.calls, path)
	}
}

// selPath: svc.a.b.c -> "a.b.c" when rooted at the receiver
func (w *walker) selPath(e ast.Expr) (string, bool) {
	switch x := e.(type) {
	case *ast.SelectorExpr:
		if f, ok := w.isRecvSel(x); ok {
			return f, true
		}
		if p, ok := w.selPath(x.X); ok {
			return p + "." + x.Sel.Name, true
		}
	}
	return "", false
}

func (w *walker) classify(e ast.Expr, lhsField string) string {
	switch x := e.(type) {
	case *ast.Ident:
		switch x.Name {
		case "nil":
			return "RNil"
		case "true":
			return "RBool true"
		case "false":
			return "RBool false"
		}
		if v, ok := w.env[x.Name]; ok {
			return v
		}
		return "ROther " + q(x.Name)
	case *ast.BasicLit:
		if x.Kind == token.INT {
			return "RConst (" + x.Value + ")"
		}
	case *ast.SelectorExpr:
		if f, ok := w.isRecvSel(x); ok && fields[f] {
			return "RField " + q(f)
		}
	case *ast.CallExpr:
		ft := text(x.Fun)
		if p, ok := w.selPath(x.Fun); ok {
			if p == "acquireColumns" {
				return "RFresh " + q(p)
			}
			return "RCallRes " + q(p)
		}
		switch ft {
		case "context.WithTimeout", "context.WithCancel":
			return "RFresh \"context\""
		case "time.Now":
			return "RFresh \"now\""
		case "time.NewTicker":
			return "RFresh \"ticker\""
		case "append":
			if len(x.Args) == 2 {
				if f, ok := w.isRecvSel(x.Args[0]); ok && f == lhsField {
					return "RAppendSelf " + q(text(x.Args[1]))
				}
			}
		}
	}
	return "ROther " + q(text(e))
}

// reads of an expression (everything but the places written)
func (w *walker) readsOf(e ast.Node) {
	if e == nil {
		return
	}
	ast.Inspect(e, func(n ast.Node) bool {
		switch x := n.(type) {
		case *ast.FuncLit:
			w.block(x.Body.List, false)
			return false
		case *ast.CallExpr:
			if p, ok := w.selPath(x.Fun); ok {
				root := strings.SplitN(p, ".", 2)[0]
				if fields[root] {
					if root != "mtx" {
						w.call(p)
					}
					if p == root {
						w.note(root, "C")
					} else {
						w.note(root, "R")
					}
				} else {
					w.call("method:" + p)
				}
				for _, a := range x.Args {
					w.readsOf(a)
				}
				return false
			}
		case *ast.SelectorExpr:
			if f, ok := w.isRecvSel(x); ok {
				w.note(f, "R")
				return false
			}
		}
		return true
	})
}

func isMtxCall(w *walker, e ast.Expr, name string) bool {
	c, ok := e.(*ast.CallExpr)
	if !ok {
		return false
	}
	p, ok := w.selPath(c.Fun)
	return ok && p == "mtx."+name
}

func (w *walker) open() {
	w.cur = &region{fn: w.fn, ord: w.ord, reads: map[string]bool{}}
	w.ord++
	regions = append(regions, w.cur)
}

// block walks a statement list; a deferred Unlock closes the region at the end of the list
func (w *walker) block(list []ast.Stmt, scope bool) {
	deferred := false
	for _, s := range list {
		if w.stmt(s) {
			deferred = true
		}
	}
	if deferred && scope {
		w.cur = nil
	}
}

func (w *walker) stmt(s ast.Stmt) (deferredUnlock bool) {
	switch x := s.(type) {
	case *ast.ExprStmt:
		if isMtxCall(w, x.X, "Lock") {
			w.open()
			return
		}
		if isMtxCall(w, x.X, "Unlock") {
			w.cur = nil
			return
		}
		if c, ok := x.X.(*ast.CallExpr); ok {
			if fl, ok := c.Fun.(*ast.FuncLit); ok { // func() { ... }()
				w.block(fl.Body.List, true)
				return
			}
		}
		w.readsOf(x.X)
	case *ast.DeferStmt:
		if isMtxCall(w, x.Call, "Unlock") {
			return true
		}
		w.readsOf(x.Call)
	case *ast.AssignStmt:
		for i, l := range x.Lhs {
			var r ast.Expr
			if len(x.Rhs) == len(x.Lhs) {
				r = x.Rhs[i]
			} else {
				r = x.Rhs[0]
			}
			if f, ok := w.isRecvSel(l); ok && fields[f] {
				cls := w.classify(r, f)
				if x.Tok == token.ADD_ASSIGN {
					cls = "RAdd " + q(text(r))
				}
				if w.cur != nil {
					w.cur.writes = append(w.cur.writes, write{f, cls})
				} else {
					a := access{w.fn, f, "W"}
					if !seenOut[a] {
						seenOut[a] = true
						outside = append(outside, a)
					}
				}
			} else if id, ok := l.(*ast.Ident); ok && id.Name != "_" {
				if len(x.Rhs) == len(x.Lhs) {
					w.env[id.Name] = w.classify(r, "")
					if strings.HasPrefix(w.env[id.Name], "ROther") {
						w.env[id.Name] = "ROther " + q(id.Name)
					}
				} else {
					delete(w.env, id.Name)
				}
			} else {
				w.readsOf(l)
			}
		}
		for _, r := range x.Rhs {
			w.readsOf(r)
		}
	case *ast.ReturnStmt:
		for _, r := range x.Results {
			w.readsOf(r)
			if w.cur == nil {
				continue
			}
			e := r
			if u, ok := e.(*ast.UnaryExpr); ok {
				e = u.X
			}
			if cl, ok := e.(*ast.CompositeLit); ok {
				for _, el := range cl.Elts {
					if kv, ok := el.(*ast.KeyValueExpr); ok {
						el = kv.Value
					}
					w.cur.returns = append(w.cur.returns, w.classify(el, ""))
				}
			} else {
				w.cur.returns = append(w.cur.returns, w.classify(e, ""))
			}
		}
	case *ast.BlockStmt:
		w.block(x.List, false)
	case *ast.IfStmt:
		if x.Init != nil {
			w.stmt(x.Init)
		}
		w.readsOf(x.Cond)
		w.block(x.Body.List, false)
		if x.Else != nil {
			w.stmt(x.Else)
		}
	case *ast.ForStmt:
		if x.Init != nil {
			w.stmt(x.Init)
		}
		w.readsOf(x.Cond)
		w.block(x.Body.List, false)
	case *ast.RangeStmt:
		w.readsOf(x.X)
		w.block(x.Body.List, false)
	case *ast.SelectStmt:
		for _, c := range x.Body.List {
			cc := c.(*ast.CommClause)
			if cc.Comm != nil {
				w.stmt(cc.Comm)
			}
			w.block(cc.Body, false)
		}
	case *ast.SwitchStmt:
		w.readsOf(x.Tag)
		for _, c := range x.Body.List {
			cc := c.(*ast.CaseClause)
			for _, e := range cc.List {
				w.readsOf(e)
			}
			w.block(cc.Body, false)
		}
	case *ast.TypeSwitchStmt:
		w.readsOf(x.Assign)
		for _, c := range x.Body.List {
			w.block(c.(*ast.CaseClause).Body, false)
		}
	default:
		w.readsOf(s)
	}
	return
}

func main() {
	repo := os.Getenv("VERIF_REPO")
	if repo == "" {
		repo = "/repo"
	}
	src := filepath.Join(repo, "writer/service/genericInsertService.go")
	f, err := parser.ParseFile(fset, src, nil, 0)
	if err != nil {
		fmt.Fprintln(os.Stderr, err)
		os.Exit(1)
	}
	var fieldOrder []string
	for _, d := range f.Decls {
		gd, ok := d.(*ast.GenDecl)
		if !ok {
			continue
		}
		for _, sp := range gd.Specs {
			ts, ok := sp.(*ast.TypeSpec)
			if !ok || ts.Name.Name != "InsertServiceV2" {
				continue
			}
			for _, fl := range ts.Type.(*ast.StructType).Fields.List {
				for _, n := range fl.Names {
					fields[n.Name] = true
					fieldOrder = append(fieldOrder, n.Name)
				}
			}
		}
	}
	var funcs []string
	for _, d := range f.Decls {
		fd, ok := d.(*ast.FuncDecl)
		if !ok || fd.Recv == nil || len(fd.Recv.List) != 1 || fd.Body == nil {
			continue
		}
		st, ok := fd.Recv.List[0].Type.(*ast.StarExpr)
		if !ok {
			continue
		}
		id, ok := st.X.(*ast.Ident)
		if !ok || id.Name != "InsertServiceV2" || len(fd.Recv.List[0].Names) != 1 {
			continue
		}
		funcs = append(funcs, fd.Name.Name)
		w := &walker{fn: fd.Name.Name, recv: fd.Recv.List[0].Names[0].Name, env: map[string]string{}}
		w.block(fd.Body.List, true)
	}
	var b strings.Builder
	b.WriteString("(* GENERATED by translate/gen_c01_regions from $VERIF_REPO/writer/service/genericInsertService.go -- do not edit, not committed *)\n")
	b.WriteString("From Coq Require Import List String ZArith Bool.\nFrom Qryn Require Import model.IngestRegions.\nImport ListNotations.\nOpen Scope string_scope.\nOpen Scope Z_scope.\n\n")
	lst := func(xs []string) string { return "[" + strings.Join(xs, "; ") + "]" }
	qs := func(xs []string) []string {
		o := make([]string, len(xs))
		for i, x := range xs {
			o[i] = q(x)
		}
		return o
	}
	b.WriteString("Definition gen_fields : list string := " + lst(qs(fieldOrder)) + ".\n\n")
	b.WriteString("Definition gen_methods : list string := " + lst(qs(funcs)) + ".\n\n")
	b.WriteString("Definition gen_regions : list region := [\n")
	for i, r := range regions {
		var ws []string
		for _, x := range r.writes {
			ws = append(ws, "("+q(x.field)+", "+x.rhs+")")
		}
		var rs []string
		for k := range r.reads {
			rs = append(rs, k)
		}
		sort.Strings(rs)
		fmt.Fprintf(&b, "  {| rg_func := %s; rg_ord := %d;\n     rg_writes := %s;\n     rg_reads := %s;\n     rg_calls := %s;\n     rg_returns := %s |}",
			q(r.fn), r.ord, lst(ws), lst(qs(rs)), lst(qs(r.calls)), lst(r.returns))
		if i+1 < len(regions) {
			b.WriteString(";")
		}
		b.WriteString("\n")
	}
	b.WriteString("].\n\n")
	b.WriteString("Definition gen_outside : list access := [\n")
	for i, a := range outside {
		fmt.Fprintf(&b, "  {| ac_func := %s; ac_field := %s; ac_mode := A%s |}", q(a.fn), q(a.field), a.mode)
		if i+1 < len(outside) {
			b.WriteString(";")
		}
		b.WriteString("\n")
	}
	b.WriteString("].\n")
	out := os.Args[1]
	tmp := fmt.Sprintf("%s.%d", out, os.Getpid())
	if err := os.WriteFile(tmp, []byte(b.String()), 0o644); err != nil {
		fmt.Fprintln(os.Stderr, err)
		os.Exit(1)
	}
	os.Rename(tmp, out)
}
