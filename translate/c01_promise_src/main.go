// C01: regenerates the micro-operation programs of writer/utils/promise/promise.go (model/PromiseHB.v `pop`): for every method of
// *Promise the sequence of its synchronisation operations and field accesses -- CompareAndSwap / atomic load of a field, store of a
// field, close of / receive from a channel field, select between ctx.Done() and a channel field, return with the fields it reads --
// and for every constructor function the fields it initialises.  Statements it does not understand become PUnknown (hb_ok rejects
// them).  Standard library only.  Output: argv[1] or coq/gen/GenC01Promise.v.
package main

import (
	"bytes"
	"fmt"
	"go/ast"
	"go/parser"
	"go/printer"
	"go/token"
	"os"
	"path/filepath"
	"sort"
	"strings"
)

var fset = token.NewFileSet()

func text(n ast.Node) string {
	var b bytes.Buffer
	printer.Fprint(&b, fset, n)
	return strings.Join(strings.Fields(b.String()), " ")
}
func q(s string) string { return "\"" + strings.ReplaceAll(s, "\"", "'") + "\"" }
func qs(l []string) string {
	var o []string
	for _, x := range l {
		o = append(o, q(x))
	}
	return "[" + strings.Join(o, "; ") + "]"
}

// p.F -> F
func recvField(e ast.Expr, recv string) string {
	if s, ok := e.(*ast.SelectorExpr); ok {
		if id, ok := s.X.(*ast.Ident); ok && id.Name == recv {
			return s.Sel.Name
		}
	}
	return ""
}

// &p.F -> F
func addrField(e ast.Expr, recv string) string {
	if u, ok := e.(*ast.UnaryExpr); ok && u.Op == token.AND {
		return recvField(u.X, recv)
	}
	return ""
}

// the fields of the receiver an expression list mentions, in order
func fieldsIn(es []ast.Expr, recv string) []string {
	var o []string
	for _, e := range es {
		ast.Inspect(e, func(n ast.Node) bool {
			if x, ok := n.(ast.Expr); ok {
				if f := recvField(x, recv); f != "" {
					o = append(o, f)
				}
			}
			return true
		})
	}
	return o
}

func atomicCall(e ast.Expr, name string) *ast.CallExpr {
	ce, ok := e.(*ast.CallExpr)
	if !ok {
		return nil
	}
	se, ok := ce.Fun.(*ast.SelectorExpr)
	if !ok || text(se.X) != "atomic" || !strings.HasPrefix(se.Sel.Name, name) {
		return nil
	}
	return ce
}

// <-p.F
func recvFrom(e ast.Expr, recv string) string {
	if u, ok := e.(*ast.UnaryExpr); ok && u.Op == token.ARROW {
		return recvField(u.X, recv)
	}
	return ""
}

// a block that only declares locals and returns: the fields its return reads; ok = false when it does anything else
func onlyReturn(l []ast.Stmt, recv string) ([]string, bool) {
	for i, st := range l {
		switch x := st.(type) {
		case *ast.DeclStmt:
		case *ast.ReturnStmt:
			if i != len(l)-1 {
				return nil, false
			}
			return fieldsIn(x.Results, recv), true
		default:
			return nil, false
		}
	}
	return nil, false
}

func stmts(l []ast.Stmt, recv string) []string {
	var out []string
	unk := func(n ast.Node) { out = append(out, "PUnknown "+q(text(n))) }
	for _, st := range l {
		switch x := st.(type) {
		case *ast.DeclStmt:
			if len(fieldsIn([]ast.Expr{}, recv)) != 0 {
				unk(x)
			}
		case *ast.ReturnStmt:
			out = append(out, "PRet "+qs(fieldsIn(x.Results, recv)))
		case *ast.ExprStmt:
			if f := recvFrom(x.X, recv); f != "" {
				out = append(out, "PRecv "+q(f))
			} else if ce, ok := x.X.(*ast.CallExpr); ok && text(ce.Fun) == "close" && len(ce.Args) == 1 && recvField(ce.Args[0], recv) != "" {
				out = append(out, "PClose "+q(recvField(ce.Args[0], recv)))
			} else {
				unk(x)
			}
		case *ast.AssignStmt:
			if len(x.Lhs) == 1 && len(x.Rhs) == 1 && x.Tok == token.ASSIGN && recvField(x.Lhs[0], recv) != "" {
				if _, ok := x.Rhs[0].(*ast.Ident); ok {
					out = append(out, "PStore "+q(recvField(x.Lhs[0], recv)))
					continue
				}
			}
			unk(x)
		case *ast.IfStmt:
			if x.Init != nil || x.Else != nil {
				unk(x)
				continue
			}
			// if !atomic.CompareAndSwapInt32(&p.F, a, b) { return }
			if u, ok := x.Cond.(*ast.UnaryExpr); ok && u.Op == token.NOT {
				if ce := atomicCall(u.X, "CompareAndSwap"); ce != nil && len(ce.Args) == 3 && addrField(ce.Args[0], recv) != "" {
					if rd, ok := onlyReturn(x.Body.List, recv); ok && len(rd) == 0 {
						out = append(out, fmt.Sprintf("PCas %s (%s) (%s)", q(addrField(ce.Args[0], recv)), text(ce.Args[1]), text(ce.Args[2])))
						continue
					}
				}
			}
			// if atomic.LoadInt32(&p.F) == v { return ... }
			if be, ok := x.Cond.(*ast.BinaryExpr); ok && be.Op == token.EQL {
				if ce := atomicCall(be.X, "Load"); ce != nil && len(ce.Args) == 1 && addrField(ce.Args[0], recv) != "" {
					if lit, ok := be.Y.(*ast.BasicLit); ok && lit.Kind == token.INT {
						if rd, ok := onlyReturn(x.Body.List, recv); ok {
							out = append(out, fmt.Sprintf("PFastRet %s (%s) %s", q(addrField(ce.Args[0], recv)), lit.Value, qs(rd)))
							continue
						}
					}
				}
			}
			unk(x)
		case *ast.SelectStmt:
			// select { case <-ctx.Done(): ...return   case <-p.F: rest }
			var creads []string
			var ch string
			var rest []ast.Stmt
			ok := len(x.Body.List) == 2
			nctx, nch := 0, 0
			for _, c := range x.Body.List {
				cc := c.(*ast.CommClause)
				es, isExpr := cc.Comm.(*ast.ExprStmt)
				if !isExpr {
					ok = false
					continue
				}
				if f := recvFrom(es.X, recv); f != "" {
					ch, rest = f, cc.Body
					nch++
				} else if u, isU := es.X.(*ast.UnaryExpr); isU && u.Op == token.ARROW && strings.HasSuffix(text(u.X), ".Done()") {
					rd, okr := onlyReturn(cc.Body, recv)
					if !okr {
						ok = false
					}
					creads = rd
					nctx++
				} else {
					ok = false
				}
			}
			if !ok || nctx != 1 || nch != 1 {
				unk(x)
				continue
			}
			out = append(out, fmt.Sprintf("PSelectRet %s %s", qs(creads), q(ch)))
			out = append(out, stmts(rest, recv)...)
		default:
			unk(x)
		}
	}
	return out
}

func main() {
	repo := os.Getenv("VERIF_REPO")
	if repo == "" {
		repo = "/repo"
	}
	dir := filepath.Join(repo, "writer/utils/promise")
	files, _ := filepath.Glob(filepath.Join(dir, "*.go"))
	sort.Strings(files)
	type meth struct {
		name string
		ops  []string
	}
	var methods []meth
	var ctors []string
	for _, fn := range files {
		if strings.HasSuffix(fn, "_test.go") {
			continue
		}
		f, err := parser.ParseFile(fset, fn, nil, 0)
		if err != nil {
			fmt.Fprintln(os.Stderr, err)
			os.Exit(1)
		}
		for _, d := range f.Decls {
			fd, ok := d.(*ast.FuncDecl)
			if !ok || fd.Body == nil {
				continue
			}
			if fd.Recv != nil && len(fd.Recv.List) == 1 && strings.Contains(text(fd.Recv.List[0].Type), "Promise") {
				recv := "_"
				if len(fd.Recv.List[0].Names) == 1 {
					recv = fd.Recv.List[0].Names[0].Name
				}
				methods = append(methods, meth{fd.Name.Name, stmts(fd.Body.List, recv)})
				continue
			}
			// a function that builds a Promise literal: which fields it sets, and whether it closes the channel
			closes := map[string]bool{}
			ast.Inspect(fd.Body, func(n ast.Node) bool {
				if ce, ok := n.(*ast.CallExpr); ok && text(ce.Fun) == "close" && len(ce.Args) == 1 {
					closes[text(ce.Args[0])] = true
				}
				return true
			})
			ast.Inspect(fd.Body, func(n ast.Node) bool {
				cl, ok := n.(*ast.CompositeLit)
				if !ok || !strings.HasPrefix(text(cl.Type), "Promise") {
					return true
				}
				var fs []string
				for _, el := range cl.Elts {
					kv, ok := el.(*ast.KeyValueExpr)
					if !ok {
						fs = append(fs, "("+q("?")+", "+q(text(el))+")")
						continue
					}
					v := text(kv.Value)
					switch {
					case strings.HasPrefix(v, "make(chan"):
						v = "open channel"
					case closes[v]:
						v = "closed channel"
					default:
						if _, isId := kv.Value.(*ast.Ident); isId {
							v = "argument"
						}
					}
					fs = append(fs, "("+q(text(kv.Key))+", "+q(v)+")")
				}
				ctors = append(ctors, fmt.Sprintf("(%s, [%s])", q(fd.Name.Name), strings.Join(fs, "; ")))
				return false
			})
		}
	}
	sort.Slice(methods, func(i, j int) bool { return methods[i].name < methods[j].name })
	sort.Strings(ctors)
	var b strings.Builder
	b.WriteString("(* GENERATED by translate/gen_c01_promise from $VERIF_REPO/writer/utils/promise -- do not edit, not committed *)\n")
	b.WriteString("From Coq Require Import List String ZArith.\nFrom Qryn Require Import model.PromiseHB.\nImport ListNotations.\nOpen Scope string_scope.\nOpen Scope Z_scope.\n\n")
	b.WriteString("Definition gen_promise_methods : list (string * list pop) := [\n")
	for i, m := range methods {
		sep := ";"
		if i == len(methods)-1 {
			sep = ""
		}
		fmt.Fprintf(&b, "  (%s, [%s])%s\n", q(m.name), strings.Join(m.ops, "; "), sep)
	}
	b.WriteString("].\nDefinition gen_promise_ctors : list (string * list (string * string)) := [\n  " + strings.Join(ctors, ";\n  ") + "\n].\n")
	out := "coq/gen/GenC01Promise.v"
	if len(os.Args) > 1 {
		out = os.Args[1]
	}
	if err := os.WriteFile(out, []byte(b.String()), 0o644); err != nil {
		fmt.Fprintln(os.Stderr, err)
		os.Exit(1)
	}
}
