// Translator for property C05: reads the Go sources under $VERIF_REPO/writer and writes
// coq/gen/GenGoroutinesWriter.v:
//
//	gen_goroutines      every `go` statement (file, enclosing function, ordinal, target, whether the spawned
//	                    body -- or every function of that name, for `go x.f()` -- begins with a deferred recover)
//	gen_error_handler   controller/builder.go ErrorHandler as a list of branches
//	gen_error_codes     the status codes of every QrynError / UnMarshalError composite literal
//	gen_snappy_limit    the decoded-length limit enforced by withUnsnappyRequest (None if absent)
//	gen_fastfill_callers number of call sites of impl.fastFill (the loop that never ends for len > 1)
//	gen_ns_guard        whether the loop of unmarshal.ns is guarded against 0
//
// Only the standard library is used (go/ast).
package main

import (
	"encoding/json"
	"fmt"
	"go/ast"
	"go/constant"
	"go/parser"
	"go/token"
	"go/types"
	"os"
	"path/filepath"
	"sort"
	"strconv"
	"strings"
)

type goroutine struct {
	file, fn, target string
	ord              int
	recovers         bool
}

var fset = token.NewFileSet()

// main.go httpStart (framing.go writeServer); also written to the JSON side file for the harness
var genServerReadTimeoutMs, genServerReadHeaderTimeoutMs int64

// the case list of the Content-Encoding switch of WithOverallContextMiddleware (side file: the harness sends every one of them)
var genContentEncodings []string

// all function declarations under writer/, by bare name
var decls = map[string][]*ast.FuncDecl{}

func containsRecover(n ast.Node) bool {
	found := false
	ast.Inspect(n, func(x ast.Node) bool {
		if c, ok := x.(*ast.CallExpr); ok {
			if id, ok := c.Fun.(*ast.Ident); ok && id.Name == "recover" && len(c.Args) == 0 {
				found = true
			}
		}
		return !found
	})
	return found
}

func calleeName(e ast.Expr) string {
	switch f := e.(type) {
	case *ast.Ident:
		return f.Name
	case *ast.SelectorExpr:
		return f.Sel.Name
	case *ast.IndexExpr:
		return calleeName(f.X)
	}
	return ""
}

// does this block begin with `defer <something that recovers>` ?
func beginsWithRecover(b *ast.BlockStmt) bool {
	if b == nil || len(b.List) == 0 {
		return false
	}
	d, ok := b.List[0].(*ast.DeferStmt)
	if !ok {
		return false
	}
	if lit, ok := d.Call.Fun.(*ast.FuncLit); ok {
		return containsRecover(lit.Body)
	}
	name := calleeName(d.Call.Fun)
	ds := decls[name]
	if name == "" || len(ds) == 0 {
		return false
	}
	for _, fd := range ds {
		if fd.Body == nil || !containsRecover(fd.Body) {
			return false
		}
	}
	return true
}

func recvName(fd *ast.FuncDecl) string {
	if fd.Recv == nil || len(fd.Recv.List) == 0 {
		return fd.Name.Name
	}
	t := fd.Recv.List[0].Type
	for {
		switch x := t.(type) {
		case *ast.StarExpr:
			t = x.X
			continue
		case *ast.IndexExpr:
			t = x.X
			continue
		case *ast.IndexListExpr:
			t = x.X
			continue
		}
		break
	}
	if id, ok := t.(*ast.Ident); ok {
		return id.Name + "." + fd.Name.Name
	}
	return fd.Name.Name
}

func unquote(lit string) string {
	if u, err := strconv.Unquote(lit); err == nil {
		return u
	}
	return strings.Trim(lit, "`\"")
}

// the literal part of a format string before its first verb
func formatHead(f string) string {
	if i := strings.Index(f, "%"); i >= 0 {
		return f[:i]
	}
	return f
}

type errSite struct{ file, fn, kind, head, format string }
type textCompare struct{ file, fn, kind, lit string }

var typedWrappers = map[string]bool{"NewUnmarshalError": true, "New400Error": true, "New401Error": true, "New429Error": true}

// untyped error constructions (fmt.Errorf / errors.New) that are not the direct argument of a typed wrapper,
// and comparisons of an error's TEXT with a literal (strings.HasPrefix/Contains/HasSuffix(x.Error(), "lit"))
func scanErrors(f *ast.File, rel string, sites *[]errSite, cmps *[]textCompare) {
	for _, d := range f.Decls {
		fd, ok := d.(*ast.FuncDecl)
		if !ok || fd.Body == nil {
			continue
		}
		fn := recvName(fd)
		// functions that look at an error's text at all (x.Error() somewhere in the body)
		looksAtText := false
		ast.Inspect(fd.Body, func(n ast.Node) bool {
			if c, ok := n.(*ast.CallExpr); ok && calleeName(c.Fun) == "Error" && len(c.Args) == 0 {
				looksAtText = true
			}
			return !looksAtText
		})
		var stack []ast.Node
		ast.Inspect(fd.Body, func(n ast.Node) bool {
			if n == nil {
				stack = stack[:len(stack)-1]
				return true
			}
			stack = append(stack, n)
			c, ok := n.(*ast.CallExpr)
			if !ok {
				return true
			}
			sel, _ := c.Fun.(*ast.SelectorExpr)
			pkg := ""
			if sel != nil {
				if id, ok := sel.X.(*ast.Ident); ok {
					pkg = id.Name
				}
			}
			name := calleeName(c.Fun)
			if pkg == "strings" && (name == "HasPrefix" || name == "Contains" || name == "HasSuffix") && len(c.Args) == 2 {
				if lit, ok := c.Args[1].(*ast.BasicLit); ok && lit.Kind == token.STRING && looksAtText {
					*cmps = append(*cmps, textCompare{rel, fn, name, unquote(lit.Value)})
				}
			}
			isErrorf := pkg == "fmt" && name == "Errorf"
			isNew := pkg == "errors" && name == "New"
			if (isErrorf || isNew) && len(c.Args) >= 1 {
				if len(stack) >= 2 {
					if pc, ok := stack[len(stack)-2].(*ast.CallExpr); ok && typedWrappers[calleeName(pc.Fun)] {
						return true
					}
				}
				st := errSite{file: rel, fn: fn, kind: name}
				if lit, ok := c.Args[0].(*ast.BasicLit); ok && lit.Kind == token.STRING {
					st.format = unquote(lit.Value)
					st.head = st.format
					if isErrorf {
						st.head = formatHead(st.format)
					}
				} else {
					st.format = "<" + exprString(c.Args[0]) + ">"
					st.head = ""
				}
				*sites = append(*sites, st)
			}
			return true
		})
	}
}

// Coq string literal for arbitrary bytes (non-printables via ascii_of_nat)
func coqStr(s string) string {
	printable := true
	for i := 0; i < len(s); i++ {
		if s[i] < 32 || s[i] > 126 {
			printable = false
		}
	}
	if printable {
		return q(s)
	}
	var parts []string
	cur := ""
	for i := 0; i < len(s); i++ {
		if s[i] >= 32 && s[i] <= 126 {
			cur += string(s[i])
			continue
		}
		if cur != "" {
			parts = append(parts, q(cur))
			cur = ""
		}
		parts = append(parts, fmt.Sprintf("(String (Ascii.ascii_of_nat %d) EmptyString)", s[i]))
	}
	if cur != "" {
		parts = append(parts, q(cur))
	}
	return "(" + strings.Join(parts, " ++ ") + ")"
}

func q(s string) string { return `"` + strings.ReplaceAll(s, `"`, `""`) + `"` }

func constInt(e ast.Expr) (int64, bool) {
	tv, err := types.Eval(fset, nil, token.NoPos, exprString(e))
	if err != nil || tv.Value == nil || tv.Value.Kind() != constant.Int {
		return 0, false
	}
	v, ok := constant.Int64Val(tv.Value)
	return v, ok
}

func exprString(e ast.Expr) string { return types.ExprString(e) }

var httpStatus = map[string]int64{"StatusBadRequest": 400, "StatusUnauthorized": 401, "StatusForbidden": 403, "StatusNotFound": 404,
	"StatusRequestEntityTooLarge": 413, "StatusTooManyRequests": 429, "StatusInternalServerError": 500, "StatusNotImplemented": 501,
	"StatusBadGateway": 502, "StatusServiceUnavailable": 503, "StatusOK": 200, "StatusNoContent": 204, "StatusAccepted": 202}

func statusExpr(e ast.Expr) string {
	if c, ok := e.(*ast.CallExpr); ok && calleeName(c.Fun) == "GetCode" {
		return "CodeOfError"
	}
	if s, ok := e.(*ast.SelectorExpr); ok {
		if v, ok := httpStatus[s.Sel.Name]; ok {
			return fmt.Sprintf("(ConstCode %d)", v)
		}
	}
	if v, ok := constInt(e); ok {
		return fmt.Sprintf("(ConstCode %d)", v)
	}
	return "UnknownCode"
}

func findCall(n ast.Node, name string) *ast.CallExpr {
	var res *ast.CallExpr
	ast.Inspect(n, func(x ast.Node) bool {
		if c, ok := x.(*ast.CallExpr); ok && res == nil && calleeName(c.Fun) == name {
			res = c
		}
		return res == nil
	})
	return res
}

func translateErrorHandler(fd *ast.FuncDecl) []string {
	var out []string
	for _, st := range fd.Body.List {
		switch s := st.(type) {
		case *ast.IfStmt:
			action := "NoWrite"
			if c := findCall(s.Body, "writeErrorResponse"); c != nil && len(c.Args) >= 2 {
				action = "(Write " + statusExpr(c.Args[1]) + ")"
			}
			returns := false
			for _, b := range s.Body.List {
				if _, ok := b.(*ast.ReturnStmt); ok {
					returns = true
				}
			}
			if !returns {
				out = append(out, "BrUnknown")
				continue
			}
			if as, ok := s.Init.(*ast.AssignStmt); ok && len(as.Rhs) == 1 {
				if c, ok := as.Rhs[0].(*ast.CallExpr); ok && calleeName(c.Fun) == "Unwrap" {
					ty := ""
					if ix, ok := c.Fun.(*ast.IndexExpr); ok {
						ty = exprString(ix.Index)
					}
					switch {
					case strings.HasSuffix(ty, "UnMarshalError"):
						out = append(out, "BrIs KUnmarshal "+action)
					case strings.HasSuffix(ty, "IQrynError"):
						out = append(out, "BrIs KQryn "+action)
					default:
						out = append(out, "BrUnknown")
					}
					continue
				}
			}
			if c, ok := s.Cond.(*ast.CallExpr); ok && len(c.Args) == 2 && (calleeName(c.Fun) == "HasPrefix" || calleeName(c.Fun) == "Contains") {
				if lit, ok := c.Args[1].(*ast.BasicLit); ok {
					kind := map[string]string{"HasPrefix": "BrPrefix ", "Contains": "BrContains "}[calleeName(c.Fun)]
					out = append(out, kind+q(unquote(lit.Value))+" "+action)
					continue
				}
			}
			out = append(out, "BrUnknown")
		case *ast.ExprStmt:
			if c, ok := s.X.(*ast.CallExpr); ok && calleeName(c.Fun) == "writeErrorResponse" && len(c.Args) >= 2 {
				out = append(out, "BrDefault (Write "+statusExpr(c.Args[1])+")")
			}
			// other expression statements (logging, metrics) have no effect on the response
		default:
			out = append(out, "BrUnknown")
		}
	}
	return out
}

func main() {
	repo := os.Getenv("VERIF_REPO")
	if repo == "" {
		repo = "/repo"
	}
	root := filepath.Join(repo, "writer")
	outPath := os.Args[1]
	var files []string
	filepath.Walk(root, func(p string, info os.FileInfo, err error) error {
		if err == nil && !info.IsDir() && strings.HasSuffix(p, ".go") && !strings.HasSuffix(p, "_test.go") {
			files = append(files, p)
		}
		return nil
	})
	sort.Strings(files)
	parsed := map[string]*ast.File{}
	for _, p := range files {
		f, err := parser.ParseFile(fset, p, nil, parser.SkipObjectResolution)
		if err != nil {
			fmt.Fprintln(os.Stderr, "parse error:", err)
			os.Exit(1)
		}
		parsed[p] = f
		for _, d := range f.Decls {
			if fd, ok := d.(*ast.FuncDecl); ok {
				decls[fd.Name.Name] = append(decls[fd.Name.Name], fd)
			}
		}
	}
	var gs []goroutine
	var codes []string
	var handler []string
	snappyLimit := "None"
	fastFillCallers := 0
	nsGuard := "false"
	var sites []errSite
	var cmps []textCompare
	for _, p := range files {
		f := parsed[p]
		rel, _ := filepath.Rel(root, p)
		if (strings.HasPrefix(rel, "controller/") || strings.HasPrefix(rel, "utils/unmarshal/")) && !strings.Contains(rel, "/legacy/") {
			scanErrors(f, rel, &sites, &cmps)
		}
		for _, d := range f.Decls {
			name := ""
			var body ast.Node
			switch x := d.(type) {
			case *ast.FuncDecl:
				name, body = recvName(x), x
				if rel == "controller/builder.go" && x.Name.Name == "ErrorHandler" && x.Body != nil {
					handler = translateErrorHandler(x)
				}
				if rel == "utils/unmarshal/binaryPprof.go" && x.Name.Name == "ns" && x.Body != nil {
					// for <cond> { timestamp *= 10 }: guarded iff the condition mentions a comparison with 0
					ast.Inspect(x.Body, func(n ast.Node) bool {
						if fs, ok := n.(*ast.ForStmt); ok && fs.Cond != nil {
							c := exprString(fs.Cond)
							if strings.Contains(c, "> 0") || strings.Contains(c, "!= 0") || strings.Contains(c, "0 <") {
								nsGuard = "true"
							}
						}
						if is, ok := n.(*ast.IfStmt); ok {
							c := exprString(is.Cond)
							if strings.Contains(c, "== 0") {
								for _, b := range is.Body.List {
									if _, ok := b.(*ast.ReturnStmt); ok {
										nsGuard = "true"
									}
								}
							}
						}
						return true
					})
				}
			case *ast.GenDecl:
				for _, sp := range x.Specs {
					if vs, ok := sp.(*ast.ValueSpec); ok && len(vs.Names) > 0 {
						ord := 0
						nm := vs.Names[0].Name
						for _, v := range vs.Values {
							collect(v, rel, nm, &ord, &gs)
							if rel == "controller/middleware.go" && nm == "withUnsnappyRequest" {
								snappyLimit = findSnappyLimit(v)
							}
						}
					}
				}
				continue
			}
			ord := 0
			collect(body, rel, name, &ord, &gs)
		}
		// composite literals of the error types; calls of fastFill
		ast.Inspect(f, func(n ast.Node) bool {
			switch x := n.(type) {
			case *ast.CompositeLit:
				ty := exprString(x.Type)
				pos := -1
				if strings.HasSuffix(ty, "QrynError") && !strings.HasSuffix(ty, "IQrynError") {
					pos = 0
				} else if strings.HasSuffix(ty, "UnMarshalError") {
					pos = 1
				}
				if pos >= 0 && len(x.Elts) > 0 {
					var ce ast.Expr
					for i, e := range x.Elts {
						if kv, ok := e.(*ast.KeyValueExpr); ok {
							if exprString(kv.Key) == "Code" {
								ce = kv.Value
							}
						} else if i == pos {
							ce = e
						}
					}
					if ce != nil {
						if v, ok := constInt(ce); ok {
							codes = append(codes, fmt.Sprint(v))
						} else {
							codes = append(codes, "(-1)") // not a constant: cannot be bounded statically
						}
					}
				}
			case *ast.CallExpr:
				if rel == "service/impl/tempoInsertService.go" || strings.HasPrefix(rel, "service/impl/") {
					if calleeName(x.Fun) == "fastFill" {
						fastFillCallers++
					}
				}
			}
			return true
		})
	}
	var b strings.Builder
	b.WriteString("(* GENERATED by translate/gen_goroutines_writer from " + "$VERIF_REPO/writer" + " -- do not edit, not committed *)\n")
	b.WriteString("From Coq Require Import List String ZArith.\nFrom Qryn Require Import model.IngestRobust model.IngestPipe model.IngestFraming model.IngestShared model.IngestConn.\nImport ListNotations.\nOpen Scope string_scope.\nOpen Scope Z_scope.\n\n")
	b.WriteString("Definition gen_goroutines : list goroutine := [\n")
	for i, g := range gs {
		sep := ";"
		if i == len(gs)-1 {
			sep = ""
		}
		fmt.Fprintf(&b, "  {| g_file := %s; g_func := %s; g_ord := %d; g_target := %s; g_recovers := %v |}%s\n", q(g.file), q(g.fn), g.ord, q(g.target), g.recovers, sep)
	}
	b.WriteString("].\n\n")
	b.WriteString("Definition gen_error_handler : list eh_branch := [\n  " + strings.Join(handler, ";\n  ") + "].\n\n")
	b.WriteString("Definition gen_error_codes : list Z := [" + strings.Join(codes, "; ") + "].\n\n")
	b.WriteString("Definition gen_snappy_limit : option Z := " + snappyLimit + ".\n\n")
	fmt.Fprintf(&b, "Definition gen_fastfill_callers : Z := %d.\n\n", fastFillCallers)
	b.WriteString("Definition gen_ns_guard : bool := " + nsGuard + ".\n")
	b.WriteString("\n(* untyped errors built under controller/ and utils/unmarshal/ (not the direct argument of a typed wrapper):\n   (file, function, fmt.Errorf | errors.New, literal text before the first verb, whole format) *)\n")
	b.WriteString("Definition gen_untyped_error_sites : list (string * string * string * string * string) := [\n")
	for i, st := range sites {
		sep := ";"
		if i == len(sites)-1 {
			sep = ""
		}
		fmt.Fprintf(&b, "  (%s, %s, %s, %s, %s)%s\n", coqStr(st.file), coqStr(st.fn), coqStr(st.kind), coqStr(st.head), coqStr(st.format), sep)
	}
	b.WriteString("].\n\n(* comparisons of an error's text with a literal in controller/: (file, function, HasPrefix|Contains|HasSuffix, literal) *)\n")
	b.WriteString("Definition gen_error_text_compares : list (string * string * string * string) := [\n")
	phrases := []string{}
	for i, c := range cmps {
		sep := ";"
		if i == len(cmps)-1 {
			sep = ""
		}
		fmt.Fprintf(&b, "  (%s, %s, %s, %s)%s\n", coqStr(c.file), coqStr(c.fn), coqStr(c.kind), coqStr(c.lit), sep)
		dup := false
		for _, p := range phrases {
			dup = dup || p == c.lit
		}
		if !dup {
			phrases = append(phrases, c.lit)
		}
	}
	b.WriteString("].\n")
	writePipe(&b, root, files, parsed)
	writeSites(&b, root, files, parsed)
	writeEntries(&b, root, files, parsed)
	writeFraming(&b, root, files, parsed)
	writeDecoders(&b, root, files, parsed)
	writeService(&b, root, files, parsed)
	writeLocks(&b, root, files, parsed)
	// side file for the harness: the literal texts that status-deciding code compares error texts with
	if js, err := json.Marshal(map[string]interface{}{"phrases": phrases, "server_read_timeout_ms": genServerReadTimeoutMs, "server_read_header_timeout_ms": genServerReadHeaderTimeoutMs,
		"content_encodings": genContentEncodings}); err == nil {
		os.WriteFile(strings.TrimSuffix(outPath, ".v")+".json", js, 0644)
	}
	tmp := outPath + ".tmp"
	if err := os.WriteFile(tmp, []byte(b.String()), 0644); err != nil {
		fmt.Fprintln(os.Stderr, err)
		os.Exit(1)
	}
	// keep the mtime when nothing changed (no needless recompilation)
	if old, err := os.ReadFile(outPath); err == nil && string(old) == b.String() {
		os.Remove(tmp)
		return
	}
	os.Rename(tmp, outPath)
}

// the limit is the constant N of `if <len> > N { return nil, <error> }` inside withUnsnappyRequest
func findSnappyLimit(n ast.Node) string {
	res := "None"
	ast.Inspect(n, func(x ast.Node) bool {
		is, ok := x.(*ast.IfStmt)
		if !ok {
			return true
		}
		be, ok := is.Cond.(*ast.BinaryExpr)
		if !ok || be.Op != token.GTR || !strings.Contains(strings.ToLower(exprString(be.X)), "len") {
			return true
		}
		v, ok := constInt(be.Y)
		if !ok {
			return true
		}
		for _, s := range is.Body.List {
			if r, ok := s.(*ast.ReturnStmt); ok && len(r.Results) == 2 && exprString(r.Results[1]) != "nil" {
				res = fmt.Sprintf("(Some %d)", v)
			}
		}
		return true
	})
	return res
}

func collect(n ast.Node, rel, fn string, ord *int, gs *[]goroutine) {
	if n == nil {
		return
	}
	ast.Inspect(n, func(x ast.Node) bool {
		g, ok := x.(*ast.GoStmt)
		if !ok {
			return true
		}
		e := goroutine{file: rel, fn: fn, ord: *ord}
		*ord++
		if lit, ok := g.Call.Fun.(*ast.FuncLit); ok {
			e.target = "func-literal"
			e.recovers = beginsWithRecover(lit.Body)
		} else {
			name := calleeName(g.Call.Fun)
			e.target = name
			ds := decls[name]
			e.recovers = len(ds) > 0
			for _, fd := range ds {
				if !beginsWithRecover(fd.Body) {
					e.recovers = false
				}
			}
		}
		*gs = append(*gs, e)
		return true
	})
}


// ---------------------------------------------------------------------------------------------------------
// Second part (model/IngestPipe.v): goroutine programs, tamePanic, the consumer doParse, onSpan at column level,
// struct fields / consumed columns, route tables.

func isCloseRes(c *ast.CallExpr) bool {
	id, ok := c.Fun.(*ast.Ident)
	return ok && id.Name == "close" && len(c.Args) == 1 && strings.HasSuffix(exprString(c.Args[0]), "res")
}

// the value sent on the channel: &model.ParserResponse{...}
func sendKind(v ast.Expr) string {
	u, ok := v.(*ast.UnaryExpr)
	if !ok || u.Op != token.AND {
		return "GUnknown"
	}
	cl, ok := u.X.(*ast.CompositeLit)
	if !ok || !strings.HasSuffix(exprString(cl.Type), "ParserResponse") {
		return "GUnknown"
	}
	for _, e := range cl.Elts {
		kv, ok := e.(*ast.KeyValueExpr)
		if !ok {
			return "GUnknown"
		}
		if exprString(kv.Key) == "Error" {
			if id, ok := kv.Value.(*ast.Ident); ok && id.Name == "err" {
				return "GSendErr"
			}
			if c, ok := kv.Value.(*ast.CallExpr); ok && calleeName(c.Fun) == "Errorf" && len(c.Args) >= 1 {
				if lit, ok := c.Args[0].(*ast.BasicLit); ok && strings.HasPrefix(unquote(lit.Value), "panic:") {
					return "GSendPanic"
				}
			}
			return "GUnknown"
		}
	}
	if len(cl.Elts) == 0 {
		return "GUnknown"
	}
	return "GSendBatch"
}

func isSendOnRes(st ast.Stmt) (string, bool) {
	s, ok := st.(*ast.SendStmt)
	if !ok || !strings.HasSuffix(exprString(s.Chan), "res") {
		return "", false
	}
	return sendKind(s.Value), true
}

// one statement of a goroutine body that has no nested block (or the `if len(..) > 0 { send }` form)
func simpleStmt(st ast.Stmt) (string, bool) {
	if k, ok := isSendOnRes(st); ok {
		return k, true
	}
	switch s := st.(type) {
	case *ast.ReturnStmt:
		if len(s.Results) == 0 {
			return "GReturn", true
		}
	case *ast.AssignStmt:
		if len(s.Rhs) == 1 && len(s.Lhs) == 1 && exprString(s.Lhs[0]) == "err" {
			if c, ok := s.Rhs[0].(*ast.CallExpr); ok && calleeName(c.Fun) == "Decode" && len(c.Args) == 0 {
				return "GDecode", true
			}
		}
	case *ast.ExprStmt:
		if c, ok := s.X.(*ast.CallExpr); ok {
			if isCloseRes(c) {
				return "GClose", true
			}
			switch exprString(c.Fun) {
			case "p.tsSpl.flush":
				return "GFlush", true
			case "p.tsSpl.reset":
				return "GReset", true
			}
			if sel, ok := c.Fun.(*ast.SelectorExpr); ok {
				if id, ok := sel.X.(*ast.Ident); ok && id.Name == "logger" {
					return "", true // logging: no effect on the protocol
				}
			}
			if id, ok := c.Fun.(*ast.Ident); ok && id.Name == "recover" {
				return "", true // a bare recover() call outside a deferred frame's top level: returns nil
			}
		}
	case *ast.IfStmt:
		// if len(<x>) > 0 { p.res <- &ParserResponse{<batch>} }
		if be, ok := s.Cond.(*ast.BinaryExpr); ok && s.Init == nil && s.Else == nil && be.Op == token.GTR &&
			strings.HasPrefix(exprString(be.X), "len(") && exprString(be.Y) == "0" && len(s.Body.List) == 1 {
			if k, ok := isSendOnRes(s.Body.List[0]); ok && k == "GSendBatch" {
				return "GSendBatchIfRows", true
			}
		}
	}
	return "GUnknown", true
}

func simpleList(list []ast.Stmt) string {
	var out []string
	for _, st := range list {
		k, _ := simpleStmt(st)
		if k != "" {
			out = append(out, k)
		}
	}
	return "[" + strings.Join(out, "; ") + "]"
}

// a `go func() {...}()` literal of utils/unmarshal/builder.go as a gprog
func goProgram(lit *ast.FuncLit) string {
	var defers, body []string
	for _, st := range lit.Body.List {
		switch s := st.(type) {
		case *ast.DeferStmt:
			if calleeName(s.Call.Fun) == "tamePanic" {
				defers = append(defers, "DTame")
			} else if isCloseRes(s.Call) {
				defers = append(defers, "DPlain GClose")
			} else {
				defers = append(defers, "DPlain GUnknown")
			}
			continue
		case *ast.IfStmt:
			if s.Init == nil && s.Else == nil && exprString(s.Cond) == "err != nil" {
				body = append(body, "GIfErr "+simpleList(s.Body.List))
				continue
			}
		}
		k, _ := simpleStmt(st)
		if k != "" {
			body = append(body, "GS "+k)
		}
	}
	return "{| gp_defers := [" + strings.Join(defers, "; ") + "]; gp_body := [" + strings.Join(body, "; ") + "] |}"
}

func isRangeOverRes(st ast.Stmt) (*ast.RangeStmt, bool) {
	r, ok := st.(*ast.RangeStmt)
	if !ok {
		return nil, false
	}
	id, ok := r.X.(*ast.Ident)
	return r, ok && id.Name == "res"
}

// controller/builder.go doParse: the receive loop and its early returns
func translateConsumer(fd *ast.FuncDecl) string {
	ranges := false
	early, drained := 0, 0
	var loop *ast.RangeStmt
	for _, st := range fd.Body.List {
		if r, ok := isRangeOverRes(st); ok {
			ranges = true
			loop = r
		}
	}
	if loop != nil {
		var walk func(list []ast.Stmt)
		walk = func(list []ast.Stmt) {
			for i, st := range list {
				switch s := st.(type) {
				case *ast.ReturnStmt:
					early++
					if i > 0 {
						if g, ok := list[i-1].(*ast.GoStmt); ok {
							if lit, ok := g.Call.Fun.(*ast.FuncLit); ok && len(lit.Body.List) == 1 {
								if r, ok := isRangeOverRes(lit.Body.List[0]); ok && len(r.Body.List) == 0 {
									drained++
								}
							}
						}
					}
				case *ast.IfStmt:
					walk(s.Body.List)
					if b, ok := s.Else.(*ast.BlockStmt); ok {
						walk(b.List)
					}
				case *ast.BlockStmt:
					walk(s.List)
				case *ast.ForStmt:
					walk(s.Body.List)
				case *ast.RangeStmt:
					walk(s.Body.List)
				case *ast.SwitchStmt:
					for _, c := range s.Body.List {
						walk(c.(*ast.CaseClause).Body)
					}
				}
			}
		}
		walk(loop.Body.List)
	}
	return fmt.Sprintf("{| cs_ranges := %v; cs_early_returns := %d; cs_drained_returns := %d |}", ranges, early, drained)
}

// onSpan at column level
type colHandler struct {
	width   bool
	once    []string
	loop    []string
	flush   bool
	unknown int
}

func colStmt(st ast.Stmt, h *colHandler, into *[]string) {
	tblOf := func(e string) string {
		switch {
		case strings.HasPrefix(e, "p.spans."):
			return "TSpans"
		case strings.HasPrefix(e, "p.attrs."):
			return "TAttrs"
		}
		return ""
	}
	if as, ok := st.(*ast.AssignStmt); ok && len(as.Lhs) == 1 && len(as.Rhs) == 1 {
		lhs := exprString(as.Lhs[0])
		t := tblOf(lhs)
		field := lhs[strings.LastIndex(lhs, ".")+1:]
		idx := strings.Contains(exprString(as.Rhs[0]), "val[")
		if t != "" && as.Tok == token.ASSIGN {
			if c, ok := as.Rhs[0].(*ast.CallExpr); ok && calleeName(c.Fun) == "append" && len(c.Args) == 2 && exprString(c.Args[0]) == lhs && c.Ellipsis == token.NoPos {
				*into = append(*into, fmt.Sprintf("CApp %s %s %v", t, q(field), idx))
				return
			}
		}
		if t != "" && as.Tok == token.ADD_ASSIGN && field == "Size" {
			*into = append(*into, fmt.Sprintf("CSize %s %v", t, idx))
			return
		}
	}
	h.unknown++
}

func translateOnSpan(fd *ast.FuncDecl) colHandler {
	var h colHandler
	for i, st := range fd.Body.List {
		switch s := st.(type) {
		case *ast.IfStmt:
			c := strings.ReplaceAll(exprString(s.Cond), " ", "")
			if i == 0 && strings.Contains(c, "len(traceId)!=16") && strings.Contains(c, "len(spanId)!=8") && strings.Contains(c, "||") {
				for _, b := range s.Body.List {
					if r, ok := b.(*ast.ReturnStmt); ok && len(r.Results) == 1 && exprString(r.Results[0]) != "nil" {
						h.width = true
					}
				}
				continue
			}
			if strings.Contains(c, "1*1024*1024") || strings.Contains(c, "1048576") {
				sends, resets := false, false
				for _, b := range s.Body.List {
					if k, ok := isSendOnRes(b); ok && k == "GSendBatch" {
						sends = true
					}
					if e, ok := b.(*ast.ExprStmt); ok && exprString(e.X) == "p.resetSpans()" {
						resets = true
					}
				}
				h.flush = sends && resets
				continue
			}
			h.unknown++
		case *ast.RangeStmt:
			if exprString(s.X) == "key" && s.Key != nil && exprString(s.Key) == "i" {
				for _, b := range s.Body.List {
					colStmt(b, &h, &h.loop)
				}
				continue
			}
			h.unknown++
		case *ast.ReturnStmt:
			// the final `return nil`
		default:
			colStmt(st, &h, &h.once)
		}
	}
	return h
}

func sliceFields(files map[string]*ast.File, typeName string) []string {
	var out []string
	var keys []string
	for k := range files {
		keys = append(keys, k)
	}
	sort.Strings(keys)
	for _, k := range keys {
		if !strings.Contains(k, "/writer/model/") {
			continue
		}
		ast.Inspect(files[k], func(n ast.Node) bool {
			ts, ok := n.(*ast.TypeSpec)
			if !ok || ts.Name.Name != typeName {
				return true
			}
			if stt, ok := ts.Type.(*ast.StructType); ok {
				for _, f := range stt.Fields.List {
					if at, ok := f.Type.(*ast.ArrayType); ok && at.Len == nil {
						for _, n := range f.Names {
							out = append(out, n.Name)
						}
					}
				}
			}
			return false
		})
	}
	return out
}

// fields of the request read by the ProcessRequest closure that type-asserts v2.(*model.<typeName>)
func consumedFields(f *ast.File, typeName string) []string {
	var out []string
	seen := map[string]bool{}
	ast.Inspect(f, func(n ast.Node) bool {
		lit, ok := n.(*ast.FuncLit)
		if !ok {
			return true
		}
		v := ""
		for _, st := range lit.Body.List {
			if as, ok := st.(*ast.AssignStmt); ok && len(as.Rhs) == 1 && len(as.Lhs) == 2 {
				if ta, ok := as.Rhs[0].(*ast.TypeAssertExpr); ok && ta.Type != nil && strings.HasSuffix(exprString(ta.Type), "model."+typeName) {
					v = exprString(as.Lhs[0])
				}
			}
		}
		if v == "" {
			return true
		}
		ast.Inspect(lit.Body, func(m ast.Node) bool {
			if sel, ok := m.(*ast.SelectorExpr); ok {
				if id, ok := sel.X.(*ast.Ident); ok && id.Name == v && !seen[sel.Sel.Name] {
					seen[sel.Sel.Name] = true
					out = append(out, sel.Sel.Name)
				}
			}
			return true
		})
		return false
	})
	return out
}

func strList(xs []string) string {
	var o []string
	for _, x := range xs {
		o = append(o, q(x))
	}
	return "[" + strings.Join(o, "; ") + "]"
}

type routeT struct {
	handler string
	pre     []string
	parsers [][2]string
	nested  [][2]string
	status  int64
}

func parserName(e ast.Expr) string {
	// Parser(unmarshal.X)
	if c, ok := e.(*ast.CallExpr); ok && len(c.Args) == 1 {
		return calleeName(c.Args[0])
	}
	return "?" + exprString(e)
}

func strArg(e ast.Expr) string {
	if lit, ok := e.(*ast.BasicLit); ok && lit.Kind == token.STRING {
		return unquote(lit.Value)
	}
	return "?" + exprString(e)
}

func optionName(e ast.Expr) string {
	switch x := e.(type) {
	case *ast.Ident:
		return x.Name
	case *ast.CallExpr:
		return calleeName(x.Fun)
	}
	return "?" + exprString(e)
}

func statusOf(e ast.Expr) int64 {
	if s, ok := e.(*ast.SelectorExpr); ok {
		if v, ok := httpStatus[s.Sel.Name]; ok {
			return v
		}
	}
	if v, ok := constInt(e); ok {
		return v
	}
	return -1
}

// func X(cfg MiddlewareConfig) ... { return Build(append(cfg.ExtraMiddleware, <options>)...) }
func translateRoute(fd *ast.FuncDecl) (routeT, bool) {
	rt := routeT{handler: fd.Name.Name, status: -1}
	if fd.Body == nil || len(fd.Body.List) == 0 {
		return rt, false
	}
	ret, ok := fd.Body.List[len(fd.Body.List)-1].(*ast.ReturnStmt)
	if !ok || len(ret.Results) != 1 {
		return rt, false
	}
	b, ok := ret.Results[0].(*ast.CallExpr)
	if !ok || calleeName(b.Fun) != "Build" || len(b.Args) != 1 {
		return rt, false
	}
	ap, ok := b.Args[0].(*ast.CallExpr)
	if !ok || calleeName(ap.Fun) != "append" || len(ap.Args) < 1 || exprString(ap.Args[0]) != "cfg.ExtraMiddleware" {
		return rt, false
	}
	for _, o := range ap.Args[1:] {
		name := optionName(o)
		c, _ := o.(*ast.CallExpr)
		switch name {
		case "withSimpleParser":
			rt.parsers = append(rt.parsers, [2]string{strArg(c.Args[0]), parserName(c.Args[1])})
		case "withComplexParser":
			ct := strArg(c.Args[0])
			rt.parsers = append(rt.parsers, [2]string{ct, parserName(c.Args[1])})
			for _, n := range c.Args[2:] {
				rt.nested = append(rt.nested, [2]string{ct, optionName(n)})
			}
		case "withOkStatusAndBody", "withOkStatusAndJSONBody":
			rt.status = statusOf(c.Args[0])
		case "withPostRequest":
			if wh := findCall(c, "WriteHeader"); wh != nil && len(wh.Args) == 1 {
				rt.status = statusOf(wh.Args[0])
			}
		default:
			rt.pre = append(rt.pre, name)
		}
	}
	return rt, true
}

func pairList(xs [][2]string) string {
	var o []string
	for _, x := range xs {
		o = append(o, "("+q(x[0])+", "+q(x[1])+")")
	}
	return "[" + strings.Join(o, "; ") + "]"
}

func writePipe(b *strings.Builder, root string, files []string, parsed map[string]*ast.File) {
	var progs []string
	tame := "[GUnknown]"
	tameGuarded := false
	consumer := "{| cs_ranges := false; cs_early_returns := 0; cs_drained_returns := 0 |}"
	var h colHandler
	h.unknown = -1
	var routes []routeT
	var paths []string
	ffaGuard := false
	var consS, consA []string
	for _, p := range files {
		f := parsed[p]
		rel, _ := filepath.Rel(root, p)
		for _, d := range f.Decls {
			fd, ok := d.(*ast.FuncDecl)
			if !ok || fd.Body == nil {
				continue
			}
			if rel == "utils/unmarshal/builder.go" {
				ast.Inspect(fd.Body, func(n ast.Node) bool {
					if g, ok := n.(*ast.GoStmt); ok {
						if lit, ok := g.Call.Fun.(*ast.FuncLit); ok {
							progs = append(progs, "("+q(recvName(fd))+", "+goProgram(lit)+")")
						}
					}
					return true
				})
				if fd.Name.Name == "tamePanic" {
					if len(fd.Body.List) == 1 {
						if is, ok := fd.Body.List[0].(*ast.IfStmt); ok && is.Else == nil && is.Init != nil &&
							strings.Contains(exprString(is.Cond), "!= nil") {
							if as, ok := is.Init.(*ast.AssignStmt); ok && len(as.Rhs) == 1 && exprString(as.Rhs[0]) == "recover()" {
								tameGuarded = true
								tame = simpleList(is.Body.List)
							}
						}
					}
				}
				if fd.Name.Name == "onSpan" {
					h = translateOnSpan(fd)
				}
			}
			if rel == "utils/unmarshal/shared.go" && fd.Name.Name == "fastFillArray" {
				// `if len == 0 { return res }` before res[0] = val
				for _, st := range fd.Body.List {
					if is, ok := st.(*ast.IfStmt); ok && exprString(is.Cond) == "len == 0" {
						for _, x := range is.Body.List {
							if _, ok := x.(*ast.ReturnStmt); ok {
								ffaGuard = true
							}
						}
					}
					if as, ok := st.(*ast.AssignStmt); ok && len(as.Lhs) == 1 && exprString(as.Lhs[0]) == "res[0]" {
						break
					}
				}
			}
			if rel == "controller/builder.go" && fd.Name.Name == "doParse" {
				consumer = translateConsumer(fd)
			}
			if strings.HasPrefix(rel, "controller/") {
				if rt, ok := translateRoute(fd); ok {
					routes = append(routes, rt)
				}
			}
			if strings.HasPrefix(rel, "router/") {
				ast.Inspect(fd.Body, func(n ast.Node) bool {
					c, ok := n.(*ast.CallExpr)
					if !ok || calleeName(c.Fun) != "Methods" || len(c.Args) != 1 {
						return true
					}
					sel, ok := c.Fun.(*ast.SelectorExpr)
					if !ok {
						return true
					}
					hf, ok := sel.X.(*ast.CallExpr)
					if !ok || calleeName(hf.Fun) != "HandleFunc" || len(hf.Args) != 2 {
						return true
					}
					hc, ok := hf.Args[1].(*ast.CallExpr)
					if !ok {
						return true // a plain handler (health endpoints): no request pipeline
					}
					handler := calleeName(hc.Fun)
					if handler == "ClickhousePushV2" {
						handler = "PushV2" // var ClickhousePushV2 = PushV2
					}
					paths = append(paths, "("+q(strArg(c.Args[0]))+", "+q(strArg(hf.Args[0]))+", "+q(handler)+")")
					return true
				})
			}
		}
		if rel == "service/impl/tempoInsertService.go" {
			consS = consumedFields(f, "TempoSamples")
			consA = consumedFields(f, "TempoTag")
		}
	}
	b.WriteString("\n(* ---- model/IngestPipe.v ---- *)\n")
	b.WriteString("(* every `go func(){..}()` of utils/unmarshal/builder.go as a program (enclosing function, program) *)\n")
	b.WriteString("Definition gen_parser_programs : list (string * gprog) := [\n  " + strings.Join(progs, ";\n  ") + "].\n\n")
	b.WriteString("Definition gen_tame_panic : list gsimple := " + tame + ".\n")
	fmt.Fprintf(b, "Definition gen_tame_guarded : bool := %v.\n\n", tameGuarded)
	b.WriteString("Definition gen_consumer : consumer := " + consumer + ".\n\n")
	fmt.Fprintf(b, "Definition gen_on_span_cols : handler_prog := {|\n  hp_width_check := %v;\n  hp_once := [%s];\n  hp_loop := [%s];\n  hp_flush_resets := %v |}.\n",
		h.width, strings.Join(h.once, "; "), strings.Join(h.loop, "; "), h.flush)
	fmt.Fprintf(b, "Definition gen_on_span_unknown : Z := %d.\n", h.unknown)
	b.WriteString("Definition gen_spans_fields : list string := " + strList(sliceFields(parsed, "TempoSamples")) + ".\n")
	b.WriteString("Definition gen_attrs_fields : list string := " + strList(sliceFields(parsed, "TempoTag")) + ".\n")
	b.WriteString("Definition gen_spans_consumed : list string := " + strList(consS) + ".\n")
	b.WriteString("Definition gen_attrs_consumed : list string := " + strList(consA) + ".\n\n")
	fmt.Fprintf(b, "Definition gen_ffa_guard : bool := %v.\n\n", ffaGuard)
	b.WriteString("Definition gen_routes : list route := [\n")
	for i, r := range routes {
		sep := ";"
		if i == len(routes)-1 {
			sep = ""
		}
		fmt.Fprintf(b, "  {| rt_handler := %s; rt_pre := %s; rt_parsers := %s; rt_nested_pre := %s; rt_status := %d |}%s\n",
			q(r.handler), strList(r.pre), pairList(r.parsers), pairList(r.nested), r.status, sep)
	}
	b.WriteString("].\n\n(* (method, path, controller constructor) of every route registered with a request pipeline *)\n")
	b.WriteString("Definition gen_paths : list (string * string * string) := [\n  " + strings.Join(paths, ";\n  ") + "].\n")
}


// ---------------------------------------------------------------------------------------------------------
// Expressions that can panic (index, slice, single-value type assertion) in code that runs on the HTTP handler
// goroutine, i.e. outside the parser goroutines' deferred tamePanic: all of controller/, and in utils/unmarshal/
// the bodies of Build / Do / doParse* (without their `go` literals), the parser constructors passed to
// with*Parser and the PreParse closures, plus everything they call by name.

type panicSite struct{ file, fn, kind, expr string }

func collectSites(n ast.Node, rel, fn string, skipGo bool, out *[]panicSite, calls map[string]bool) {
	twoValue := map[*ast.TypeAssertExpr]bool{}
	ast.Inspect(n, func(x ast.Node) bool {
		if as, ok := x.(*ast.AssignStmt); ok && len(as.Lhs) == 2 && len(as.Rhs) == 1 {
			if ta, ok := as.Rhs[0].(*ast.TypeAssertExpr); ok {
				twoValue[ta] = true
			}
		}
		if vs, ok := x.(*ast.ValueSpec); ok && len(vs.Names) == 2 && len(vs.Values) == 1 {
			if ta, ok := vs.Values[0].(*ast.TypeAssertExpr); ok {
				twoValue[ta] = true
			}
		}
		return true
	})
	ast.Inspect(n, func(x ast.Node) bool {
		switch e := x.(type) {
		case *ast.GoStmt:
			if skipGo {
				return false
			}
		case *ast.CallExpr:
			if calls != nil {
				if nm := calleeName(e.Fun); nm != "" {
					calls[nm] = true
				}
			}
		case *ast.IndexExpr:
			*out = append(*out, panicSite{rel, fn, "index", exprString(e)})
		case *ast.SliceExpr:
			*out = append(*out, panicSite{rel, fn, "slice", exprString(e)})
		case *ast.TypeAssertExpr:
			if e.Type != nil && !twoValue[e] {
				*out = append(*out, panicSite{rel, fn, "assert", exprString(e)})
			}
		}
		return true
	})
}

func writeSites(b *strings.Builder, root string, files []string, parsed map[string]*ast.File) {
	var sites []panicSite
	// package unmarshal: declarations by bare name (same directory only)
	udecl := map[string][]*ast.FuncDecl{}
	ufile := map[*ast.FuncDecl]string{}
	for _, p := range files {
		rel, _ := filepath.Rel(root, p)
		if filepath.Dir(rel) != "utils/unmarshal" || strings.HasPrefix(filepath.Base(rel), "zz_verif") {
			continue
		}
		for _, d := range parsed[p].Decls {
			if fd, ok := d.(*ast.FuncDecl); ok && fd.Body != nil {
				udecl[fd.Name.Name] = append(udecl[fd.Name.Name], fd)
				ufile[fd] = rel
			}
		}
	}
	calls := map[string]bool{}
	done := map[*ast.FuncDecl]bool{}
	var reached []string
	visit := func(fd *ast.FuncDecl) {
		if done[fd] {
			return
		}
		done[fd] = true
		reached = append(reached, recvName(fd))
		collectSites(fd.Body, ufile[fd], recvName(fd), true, &sites, calls)
	}
	for _, p := range files {
		f := parsed[p]
		rel, _ := filepath.Rel(root, p)
		if filepath.Dir(rel) == "controller" {
			for _, d := range f.Decls {
				switch x := d.(type) {
				case *ast.FuncDecl:
					if x.Body != nil {
						collectSites(x.Body, rel, recvName(x), false, &sites, nil)
						// functions of package unmarshal CALLED from a controller body run on the handler goroutine too
						ast.Inspect(x.Body, func(n ast.Node) bool {
							if c, ok := n.(*ast.CallExpr); ok {
								if sel, ok := c.Fun.(*ast.SelectorExpr); ok {
									if id, ok := sel.X.(*ast.Ident); ok && id.Name == "unmarshal" {
										calls[sel.Sel.Name] = true
									}
								}
							}
							return true
						})
					}
				case *ast.GenDecl:
					for _, sp := range x.Specs {
						if vs, ok := sp.(*ast.ValueSpec); ok && len(vs.Names) > 0 {
							for _, v := range vs.Values {
								collectSites(v, rel, vs.Names[0].Name, false, &sites, nil)
							}
						}
					}
				}
			}
		}
		if filepath.Dir(rel) != "utils/unmarshal" || strings.HasPrefix(filepath.Base(rel), "zz_verif") {
			continue
		}
		// roots: Build, Do, doParse*; parser constructors and PreParse closures
		for _, d := range f.Decls {
			if fd, ok := d.(*ast.FuncDecl); ok && fd.Body != nil && rel == "utils/unmarshal/builder.go" {
				switch fd.Name.Name {
				case "Build", "Do", "doParseLogs", "doParseSpans", "doParseProfile":
					visit(fd)
				}
			}
		}
		ast.Inspect(f, func(n ast.Node) bool {
			c, ok := n.(*ast.CallExpr)
			if !ok {
				return true
			}
			nm := calleeName(c.Fun)
			if nm == "withLogsParser" || nm == "withSpansParser" || nm == "withProfileParser" || nm == "withParsedBody" {
				for _, a := range c.Args {
					if lit, ok := a.(*ast.FuncLit); ok {
						collectSites(lit.Body, rel, "<"+nm+" argument>", true, &sites, calls)
					}
				}
			}
			// builder.PreParse = append(builder.PreParse, func(ctx *ParserCtx) error {...})
			if nm == "append" && len(c.Args) == 2 && strings.HasSuffix(exprString(c.Args[0]), ".PreParse") {
				if lit, ok := c.Args[1].(*ast.FuncLit); ok {
					collectSites(lit.Body, rel, "<PreParse closure>", true, &sites, calls)
				}
			}
			return true
		})
	}
	// transitive callees by bare name inside package unmarshal (Decode is the goroutine's business)
	for changed := true; changed; {
		changed = false
		var names []string
		for nm := range calls {
			names = append(names, nm)
		}
		sort.Strings(names)
		for _, nm := range names {
			if nm == "Decode" {
				continue
			}
			for _, fd := range udecl[nm] {
				if !done[fd] {
					visit(fd)
					changed = true
				}
			}
		}
	}
	sort.Strings(reached)
	// who can call into package unmarshal at all, and how many index/slice/assert sites remain below Decode()
	var importers []string
	total := 0
	for _, p := range files {
		rel, _ := filepath.Rel(root, p)
		if filepath.Dir(rel) == "utils/unmarshal" && !strings.HasPrefix(filepath.Base(rel), "zz_verif") {
			var all []panicSite
			for _, d := range parsed[p].Decls {
				if fd, ok := d.(*ast.FuncDecl); ok && fd.Body != nil {
					collectSites(fd.Body, rel, recvName(fd), false, &all, nil)
				}
			}
			total += len(all)
			continue
		}
		if strings.Contains(rel, "utils/unmarshal/") {
			continue
		}
		for _, im := range parsed[p].Imports {
			if strings.HasSuffix(unquote(im.Path.Value), "writer/utils/unmarshal") {
				importers = append(importers, rel)
			}
		}
	}
	// request-context keys: every context.WithValue(.., "key", value) under controller/, and every single-value type
	// assertion on a value read with .Value("key") (directly, or through a variable assigned from it in the same function)
	var writes, reads []string
	for _, p := range files {
		rel, _ := filepath.Rel(root, p)
		if filepath.Dir(rel) != "controller" && !(filepath.Dir(rel) == "utils/unmarshal" && !strings.HasPrefix(filepath.Base(rel), "zz_verif")) {
			continue
		}
		keyOf := func(e ast.Expr) string {
			c, ok := e.(*ast.CallExpr)
			if !ok || calleeName(c.Fun) != "Value" || len(c.Args) != 1 {
				return ""
			}
			if lit, ok := c.Args[0].(*ast.BasicLit); ok && lit.Kind == token.STRING {
				return unquote(lit.Value)
			}
			return ""
		}
		scan := func(body ast.Node) {
			vars := map[string]string{}
			two := map[*ast.TypeAssertExpr]bool{}
			ast.Inspect(body, func(n ast.Node) bool {
				if as, ok := n.(*ast.AssignStmt); ok && len(as.Rhs) == 1 {
					if len(as.Lhs) == 1 {
						if k := keyOf(as.Rhs[0]); k != "" {
							vars[exprString(as.Lhs[0])] = k
						}
					}
					if ta, ok := as.Rhs[0].(*ast.TypeAssertExpr); ok && len(as.Lhs) == 2 {
						two[ta] = true
					}
				}
				return true
			})
			ast.Inspect(body, func(n ast.Node) bool {
				switch x := n.(type) {
				case *ast.CallExpr:
					if exprString(x.Fun) == "context.WithValue" && len(x.Args) == 3 {
						if lit, ok := x.Args[1].(*ast.BasicLit); ok && lit.Kind == token.STRING {
							writes = append(writes, "("+q(unquote(lit.Value))+", "+q(rel)+", "+coqStr(exprString(x.Args[2]))+")")
						}
					}
				case *ast.TypeAssertExpr:
					if x.Type == nil || two[x] {
						return true
					}
					k := keyOf(x.X)
					if k == "" {
						k = vars[exprString(x.X)]
					}
					if k != "" {
						reads = append(reads, "("+q(k)+", "+q(rel)+", "+coqStr(exprString(x.Type))+")")
					}
				}
				return true
			})
		}
		for _, d := range parsed[p].Decls {
			switch x := d.(type) {
			case *ast.FuncDecl:
				if x.Body != nil {
					scan(x.Body)
				}
			case *ast.GenDecl:
				for _, sp := range x.Specs {
					if vs, ok := sp.(*ast.ValueSpec); ok {
						for _, v := range vs.Values {
							ast.Inspect(v, func(n ast.Node) bool {
								if fl, ok := n.(*ast.FuncLit); ok {
									scan(fl.Body)
									return false
								}
								return true
							})
						}
					}
				}
			}
		}
	}
	sort.Strings(writes)
	sort.Strings(reads)
	dedup := func(xs []string) []string {
		var o []string
		for i, x := range xs {
			if i == 0 || xs[i-1] != x {
				o = append(o, x)
			}
		}
		return o
	}
	b.WriteString("\n(* request-context keys: (key, file, value stored) and (key, file, type asserted without the comma-ok form) *)\n")
	b.WriteString("Definition gen_ctx_writes : list (string * string * string) := [\n  " + strings.Join(dedup(writes), ";\n  ") + "].\n")
	b.WriteString("Definition gen_ctx_asserted_reads : list (string * string * string) := [\n  " + strings.Join(dedup(reads), ";\n  ") + "].\n")
	// WithOverallContextMiddleware: switch r.Header.Get("Content-Encoding") { case "": .. case "gzip": .. default: return New400Error }
	var ceCases []string
	ceDefault400 := false
	for _, p := range files {
		rel, _ := filepath.Rel(root, p)
		if rel != "controller/middleware.go" {
			continue
		}
		ast.Inspect(parsed[p], func(n ast.Node) bool {
			sw, ok := n.(*ast.SwitchStmt)
			if !ok || sw.Tag == nil || !strings.Contains(exprString(sw.Tag), "Content-Encoding") {
				return true
			}
			for _, cc := range sw.Body.List {
				cl := cc.(*ast.CaseClause)
				if cl.List == nil {
					for _, st := range cl.Body {
						if r, ok := st.(*ast.ReturnStmt); ok && len(r.Results) == 1 {
							if c, ok := r.Results[0].(*ast.CallExpr); ok && calleeName(c.Fun) == "New400Error" {
								ceDefault400 = true
							}
						}
					}
					continue
				}
				for _, e := range cl.List {
					ceCases = append(ceCases, strArg(e))
				}
			}
			return false
		})
	}
	b.WriteString("\n(* the Content-Encoding values WithOverallContextMiddleware accepts; its default branch returns a 400 error *)\n")
	b.WriteString("Definition gen_content_encodings : list string := " + strList(ceCases) + ".\n")
	genContentEncodings = ceCases
	fmt.Fprintf(b, "Definition gen_content_encoding_default_400 : bool := %v.\n", ceDefault400)
	// golangPprof.go Parse: how many profiles one pprof body yields (appends to the result, and whether one is in a loop)
	parseAppends, parseInLoop := 0, false
	for _, p := range files {
		rel, _ := filepath.Rel(root, p)
		if rel != "utils/unmarshal/golangPprof.go" {
			continue
		}
		for _, d := range parsed[p].Decls {
			fd, ok := d.(*ast.FuncDecl)
			if !ok || fd.Body == nil || fd.Name.Name != "Parse" {
				continue
			}
			var walk func(n ast.Node, inLoop bool)
			walk = func(n ast.Node, inLoop bool) {
				ast.Inspect(n, func(x ast.Node) bool {
					switch y := x.(type) {
					case *ast.ForStmt:
						walk(y.Body, true)
						return false
					case *ast.RangeStmt:
						walk(y.Body, true)
						return false
					case *ast.AssignStmt:
						if len(y.Lhs) == 1 && len(y.Rhs) == 1 && exprString(y.Lhs[0]) == "profiles" {
							if c, ok := y.Rhs[0].(*ast.CallExpr); ok && calleeName(c.Fun) == "append" {
								parseAppends++
								parseInLoop = parseInLoop || inLoop
							}
						}
					}
					return true
				})
			}
			walk(fd.Body, false)
		}
	}
	fmt.Fprintf(b, "\n(* golangPprof.go Parse: appends to its result, one of them inside a loop *)\nDefinition gen_pprof_parse_appends : Z := %d.\nDefinition gen_pprof_parse_append_in_loop : bool := %v.\n", parseAppends, parseInLoop)
	b.WriteString("\n(* files outside package unmarshal that import it (its only callers) *)\n")
	b.WriteString("Definition gen_unmarshal_importers : list string := " + strList(importers) + ".\n")
	fmt.Fprintf(b, "(* index / slice / single-value assertion sites in package unmarshal, all functions *)\nDefinition gen_unmarshal_sites_total : Z := %d.\n", total)
	b.WriteString("\n(* expressions that can panic on the handler goroutine (outside tamePanic): (file, function, index|slice|assert, expression) *)\n")
	b.WriteString("Definition gen_handler_side_sites : list (string * string * string * string) := [\n")
	for i, st := range sites {
		sep := ";"
		if i == len(sites)-1 {
			sep = ""
		}
		fmt.Fprintf(b, "  (%s, %s, %s, %s)%s\n", coqStr(st.file), coqStr(st.fn), coqStr(st.kind), coqStr(st.expr), sep)
	}
	b.WriteString("].\n(* functions of package unmarshal that run on the handler goroutine (reached from Build/Do/doParse*/constructors/PreParse) *)\n")
	b.WriteString("Definition gen_handler_side_functions : list string := " + strList(reached) + ".\n")
}


// ---------------------------------------------------------------------------------------------------------
// onEntries at column level: the appends to p.tsSpl.spl.* (with the slice they come from) and to p.tsSpl.ts.*,
// the flush; every call site of onEntries with the shape of its four slice arguments.

func srcOf(e ast.Expr) string {
	switch exprString(e) {
	case "message":
		return "SrcMsg"
	case "value":
		return "SrcVal"
	case "timestampsNS":
		return "SrcTs"
	case "types":
		return "SrcTypes"
	}
	if c, ok := e.(*ast.CallExpr); ok && calleeName(c.Fun) == "fastFillArray" && len(c.Args) == 2 &&
		strings.ReplaceAll(exprString(c.Args[0]), " ", "") == "len(timestampsNS)" {
		return "SrcFillTs"
	}
	return ""
}

func writeEntries(b *strings.Builder, root string, files []string, parsed map[string]*ast.File) {
	var spl, ts []string
	unknown := -1
	flush := false
	var calls []string
	var consS, consT []string
	for _, p := range files {
		f := parsed[p]
		rel, _ := filepath.Rel(root, p)
		if rel == "service/impl/samplesInsertService.go" {
			consS = consumedFields(f, "TimeSamplesData")
		}
		if rel == "service/impl/timeSeriesInsertService.go" {
			consT = consumedFields(f, "TimeSeriesData")
		}
		if filepath.Dir(rel) != "utils/unmarshal" || strings.HasPrefix(filepath.Base(rel), "zz_verif") {
			continue
		}
		for _, d := range f.Decls {
			fd, ok := d.(*ast.FuncDecl)
			if !ok || fd.Body == nil {
				continue
			}
			if rel == "utils/unmarshal/builder.go" && fd.Name.Name == "onEntries" {
				unknown = 0
				ast.Inspect(fd.Body, func(n ast.Node) bool {
					switch x := n.(type) {
					case *ast.AssignStmt:
						if len(x.Lhs) != 1 || len(x.Rhs) != 1 {
							return true
						}
						lhs := exprString(x.Lhs[0])
						isSpl := strings.HasPrefix(lhs, "p.tsSpl.spl.M")
						isTs := strings.HasPrefix(lhs, "p.tsSpl.ts.M")
						if !isSpl && !isTs {
							return true
						}
						field := lhs[strings.LastIndex(lhs, ".")+1:]
						c, ok := x.Rhs[0].(*ast.CallExpr)
						if !ok || x.Tok != token.ASSIGN || calleeName(c.Fun) != "append" || len(c.Args) != 2 || exprString(c.Args[0]) != lhs {
							unknown++
							return true
						}
						if isSpl {
							if src := srcOf(c.Args[1]); src != "" && c.Ellipsis != token.NoPos {
								spl = append(spl, "LApp "+q(field)+" "+src)
							} else {
								unknown++
							}
						} else {
							if c.Ellipsis == token.NoPos {
								ts = append(ts, q(field))
							} else {
								unknown++
							}
						}
					case *ast.IfStmt:
						c := strings.ReplaceAll(exprString(x.Cond), " ", "")
						if strings.Contains(c, "1*1024*1024") || strings.Contains(c, "1048576") {
							fl, rs := false, false
							for _, st := range x.Body.List {
								if e, ok := st.(*ast.ExprStmt); ok {
									switch exprString(e.X) {
									case "p.tsSpl.flush()":
										fl = true
									case "p.tsSpl.reset()":
										rs = fl // reset after flush
									}
								}
							}
							flush = fl && rs
						}
					}
					return true
				})
			}
			// call sites of onEntries: (file, function, shape of the four slices)
			ast.Inspect(fd.Body, func(n ast.Node) bool {
				c, ok := n.(*ast.CallExpr)
				if !ok || calleeName(c.Fun) != "onEntries" || len(c.Args) != 5 {
					return true
				}
				single := true
				for _, a := range c.Args[1:] {
					cl, ok := a.(*ast.CompositeLit)
					if !ok || len(cl.Elts) != 1 {
						single = false
					}
				}
				shape := "other"
				if single {
					shape = "singletons"
				}
				var as []string
				for _, a := range c.Args[1:] {
					s := strings.ReplaceAll(exprString(a), "\u2026", "...")
					if len(s) > 40 {
						s = s[:40]
					}
					as = append(as, s)
				}
				calls = append(calls, fmt.Sprintf("(%s, %s, %s, %s)", coqStr(rel), coqStr(recvName(fd)), coqStr(shape), coqStr(strings.Join(as, " | "))))
				return true
			})
		}
	}
	b.WriteString("\n(* onEntries at column level *)\n")
	fmt.Fprintf(b, "Definition gen_on_entries_cols : entries_prog := {|\n  ep_spl := [%s];\n  ep_ts := [%s];\n  ep_flush_resets := %v; ep_unknown := %d |}.\n",
		strings.Join(spl, "; "), strings.Join(ts, "; "), flush, unknown)
	b.WriteString("Definition gen_spl_fields : list string := " + strList(sliceFields(parsed, "TimeSamplesData")) + ".\n")
	b.WriteString("Definition gen_tsd_fields : list string := " + strList(sliceFields(parsed, "TimeSeriesData")) + ".\n")
	b.WriteString("Definition gen_spl_consumed : list string := " + strList(consS) + ".\n")
	b.WriteString("Definition gen_tsd_consumed : list string := " + strList(consT) + ".\n")
	// every function under writer/ that calls recover(), and who defers it
	var recs []string
	for _, p := range files {
		rel, _ := filepath.Rel(root, p)
		for _, d := range parsed[p].Decls {
			fd, ok := d.(*ast.FuncDecl)
			if !ok || fd.Body == nil || !containsRecover(fd.Body) {
				continue
			}
			users := 0
			for _, p2 := range files {
				ast.Inspect(parsed[p2], func(n ast.Node) bool {
					if ds, ok := n.(*ast.DeferStmt); ok && calleeName(ds.Call.Fun) == fd.Name.Name {
						users++
					}
					return true
				})
			}
			recs = append(recs, fmt.Sprintf("(%s, %s, %d)", coqStr(rel), coqStr(recvName(fd)), users))
		}
	}
	b.WriteString("(* recover scopes: (file, function that calls recover(), number of `defer` statements naming it) *)\n")
	b.WriteString("Definition gen_recover_scopes : list (string * string * Z) := [" + strings.Join(recs, "; ") + "].\n")
	b.WriteString("(* every call of onEntries: (file, function, singletons | other, the four slice arguments) *)\n")
	b.WriteString("Definition gen_on_entries_calls : list (string * string * string * string) := [\n  " + strings.Join(calls, ";\n  ") + "].\n")
}
