// Translator for property C05: reads the Go sources under $VERIF_REPO/writer and writes
// coq/gen/GenGoroutinesWriter.v:
//
//	gen_goroutines      every `go` statement (file, enclosing function, ordinal, target, whether the spawned
//	                    body -- or every function of that name, for `go x.f()` -- begins with a deferred recover)
//	gen_error_handler   controller/builder.go ErrorHandler as a list of branches
//	gen_error_codes     the status codes of every QrynError / UnMarshalError composite literal
//	gen_snappy_limit    the decoded-length limit enforced by withUnsnappyRequest (None if absent)
//	gen_fastfill_callers number of call sites of impl.fastFill (the loop that never ends for len > 1)
//	gen_ns_guard        whether the loop of unmarshal.ns is guarded against 0
//
// Only the standard library is used (go/ast).
package main

import (
	"encoding/json"
	"fmt"
	"go/ast"
	"go/constant"
	"go/parser"
	"go/token"
	"go/types"
	"os"
	"path/filepath"
	"sort"
	"strconv"
	"strings"
)

type goroutine struct {
	file, fn, target string
	ord              int
	recovers         bool
}

var fset = token.NewFileSet()

// all function declarations under writer/, by bare name
var decls = map[string][]*ast.FuncDecl{}

func containsRecover(n ast.Node) bool {
	found := false
	ast.Inspect(n, func(x ast.Node) bool {
		if c, ok := x.(*ast.CallExpr); ok {
			if id, ok := c.Fun.(*ast.Ident); ok && id.Name == "recover" && len(c.Args) == 0 {
				found = true
			}
		}
		return !found
	})
	return found
}

func calleeName(e ast.Expr) string {
	switch f := e.(type) {
	case *ast.Ident:
		return f.Name
	case *ast.SelectorExpr:
		return f.Sel.Name
	case *ast.IndexExpr:
		return calleeName(f.X)
	}
	return ""
}

// does this block begin with `defer <something that recovers>` ?
func beginsWithRecover(b *ast.BlockStmt) bool {
	if b == nil || len(b.List) == 0 {
		return false
	}
	d, ok := b.List[0].(*ast.DeferStmt)
	if !ok {
		return false
	}
	if lit, ok := d.Call.Fun.(*ast.FuncLit); ok {
		return containsRecover(lit.Body)
	}
	name := calleeName(d.Call.Fun)
	ds := decls[name]
	if name == "" || len(ds) == 0 {
		return false
	}
	for _, fd := range ds {
		if fd.Body == nil || !containsRecover(fd.Body) {
			return false
		}
	}
	return true
}

func recvName(fd *ast.FuncDecl) string {
	if fd.Recv == nil || len(fd.Recv.List) == 0 {
		return fd.Name.Name
	}
	t := fd.Recv.List[0].Type
	for {
		switch x := t.(type) {
		case *ast.StarExpr:
			t = x.X
			continue
		case *ast.IndexExpr:
			t = x.X
			continue
		case *ast.IndexListExpr:
			t = x.X
			continue
		}
		break
	}
	if id, ok := t.(*ast.Ident); ok {
		return id.Name + "." + fd.Name.Name
	}
	return fd.Name.Name
}

func unquote(lit string) string {
	if u, err := strconv.Unquote(lit); err == nil {
		return u
	}
	return strings.Trim(lit, "`\"")
}

// the literal part of a format string before its first verb
func formatHead(f string) string {
	if i := strings.Index(f, "%"); i >= 0 {
		return f[:i]
	}
	return f
}

type errSite struct{ file, fn, kind, head, format string }
type textCompare struct{ file, fn, kind, lit string }

var typedWrappers = map[string]bool{"NewUnmarshalError": true, "New400Error": true, "New401Error": true, "New429Error": true}

// untyped error constructions (fmt.Errorf / errors.New) that are not the direct argument of a typed wrapper,
// and comparisons of an error's TEXT with a literal (strings.HasPrefix/Contains/HasSuffix(x.Error(), "lit"))
func scanErrors(f *ast.File, rel string, sites *[]errSite, cmps *[]textCompare) {
	for _, d := range f.Decls {
		fd, ok := d.(*ast.FuncDecl)
		if !ok || fd.Body == nil {
			continue
		}
		fn := recvName(fd)
		// functions that look at an error's text at all (x.Error() somewhere in the body)
		looksAtText := false
		ast.Inspect(fd.Body, func(n ast.Node) bool {
			if c, ok := n.(*ast.CallExpr); ok && calleeName(c.Fun) == "Error" && len(c.Args) == 0 {
				looksAtText = true
			}
			return !looksAtText
		})
		var stack []ast.Node
		ast.Inspect(fd.Body, func(n ast.Node) bool {
			if n == nil {
				stack = stack[:len(stack)-1]
				return true
			}
			stack = append(stack, n)
			c, ok := n.(*ast.CallExpr)
			if !ok {
				return true
			}
			sel, _ := c.Fun.(*ast.SelectorExpr)
			pkg := ""
			if sel != nil {
				if id, ok := sel.X.(*ast.Ident); ok {
					pkg = id.Name
				}
			}
			name := calleeName(c.Fun)
			if pkg == "strings" && (name == "HasPrefix" || name == "Contains" || name == "HasSuffix") && len(c.Args) == 2 {
				if lit, ok := c.Args[1].(*ast.BasicLit); ok && lit.Kind == token.STRING && looksAtText {
					*cmps = append(*cmps, textCompare{rel, fn, name, unquote(lit.Value)})
				}
			}
			isErrorf := pkg == "fmt" && name == "Errorf"
			isNew := pkg == "errors" && name == "New"
			if (isErrorf || isNew) && len(c.Args) >= 1 {
				if len(stack) >= 2 {
					if pc, ok := stack[len(stack)-2].(*ast.CallExpr); ok && typedWrappers[calleeName(pc.Fun)] {
						return true
					}
				}
				st := errSite{file: rel, fn: fn, kind: name}
				if lit, ok := c.Args[0].(*ast.BasicLit); ok && lit.Kind == token.STRING {
					st.format = unquote(lit.Value)
					st.head = st.format
					if isErrorf {
						st.head = formatHead(st.format)
					}
				} else {
					st.format = "<" + exprString(c.Args[0]) + ">"
					st.head = ""
				}
				*sites = append(*sites, st)
			}
			return true
		})
	}
}

// Coq string literal for arbitrary bytes (non-printables via ascii_of_nat)
func coqStr(s string) string {
	printable := true
	for i := 0; i < len(s); i++ {
		if s[i] < 32 || s[i] > 126 {
			printable = false
		}
	}
	if printable {
		return q(s)
	}
	var parts []string
	cur := ""
	for i := 0; i < len(s); i++ {
		if s[i] >= 32 && s[i] <= 126 {
			cur += string(s[i])
			continue
		}
		if cur != "" {
			parts = append(parts, q(cur))
			cur = ""
		}
		parts = append(parts, fmt.Sprintf("(String (Ascii.ascii_of_nat %d) EmptyString)", s[i]))
	}
	if cur != "" {
		parts = append(parts, q(cur))
	}
	return "(" + strings.Join(parts, " ++ ") + ")"
}

func q(s string) string { return `"` + strings.ReplaceAll(s, `"`, `""`) + `"` }

func constInt(e ast.Expr) (int64, bool) {
	tv, err := types.Eval(fset, nil, token.NoPos, exprString(e))
	if err != nil || tv.Value == nil || tv.Value.Kind() != constant.Int {
		return 0, false
	}
	v, ok := constant.Int64Val(tv.Value)
	return v, ok
}

func exprString(e ast.Expr) string { return types.ExprString(e) }

var httpStatus = map[string]int64{"StatusBadRequest": 400, "StatusUnauthorized": 401, "StatusForbidden": 403, "StatusNotFound": 404,
	"StatusRequestEntityTooLarge": 413, "StatusTooManyRequests": 429, "StatusInternalServerError": 500, "StatusNotImplemented": 501,
	"StatusBadGateway": 502, "StatusServiceUnavailable": 503, "StatusOK": 200, "StatusNoContent": 204, "StatusAccepted": 202}

func statusExpr(e ast.Expr) string {
	if c, ok := e.(*ast.CallExpr); ok && calleeName(c.Fun) == "GetCode" {
		return "CodeOfError"
	}
	if s, ok := e.(*ast.SelectorExpr); ok {
		if v, ok := httpStatus[s.Sel.Name]; ok {
			return fmt.Sprintf("(ConstCode %d)", v)
		}
	}
	if v, ok := constInt(e); ok {
		return fmt.Sprintf("(ConstCode %d)", v)
	}
	return "UnknownCode"
}

func findCall(n ast.Node, name string) *ast.CallExpr {
	var res *ast.CallExpr
	ast.Inspect(n, func(x ast.Node) bool {
		if c, ok := x.(*ast.CallExpr); ok && res == nil && calleeName(c.Fun) == name {
			res = c
		}
		return res == nil
	})
	return res
}

func translateErrorHandler(fd *ast.FuncDecl) []string {
	var out []string
	for _, st := range fd.Body.List {
		switch s := st.(type) {
		case *ast.IfStmt:
			action := "NoWrite"
			if c := findCall(s.Body, "writeErrorResponse"); c != nil && len(c.Args) >= 2 {
				action = "(Write " + statusExpr(c.Args[1]) + ")"
			}
			returns := false
			for _, b := range s.Body.List {
				if _, ok := b.(*ast.ReturnStmt); ok {
					returns = true
				}
			}
			if !returns {
				out = append(out, "BrUnknown")
				continue
			}
			if as, ok := s.Init.(*ast.AssignStmt); ok && len(as.Rhs) == 1 {
				if c, ok := as.Rhs[0].(*ast.CallExpr); ok && calleeName(c.Fun) == "Unwrap" {
					ty := ""
					if ix, ok := c.Fun.(*ast.IndexExpr); ok {
						ty = exprString(ix.Index)
					}
					switch {
					case strings.HasSuffix(ty, "UnMarshalError"):
						out = append(out, "BrIs KUnmarshal "+action)
					case strings.HasSuffix(ty, "IQrynError"):
						out = append(out, "BrIs KQryn "+action)
					default:
						out = append(out, "BrUnknown")
					}
					continue
				}
			}
			if c, ok := s.Cond.(*ast.CallExpr); ok && len(c.Args) == 2 && (calleeName(c.Fun) == "HasPrefix" || calleeName(c.Fun) == "Contains") {
				if lit, ok := c.Args[1].(*ast.BasicLit); ok {
					kind := map[string]string{"HasPrefix": "BrPrefix ", "Contains": "BrContains "}[calleeName(c.Fun)]
					out = append(out, kind+q(unquote(lit.Value))+" "+action)
					continue
				}
			}
			out = append(out, "BrUnknown")
		case *ast.ExprStmt:
			if c, ok := s.X.(*ast.CallExpr); ok && calleeName(c.Fun) == "writeErrorResponse" && len(c.Args) >= 2 {
				out = append(out, "BrDefault (Write "+statusExpr(c.Args[1])+")")
			}
			// other expression statements (logging, metrics) have no effect on the response
		default:
			out = append(out, "BrUnknown")
		}
	}
	return out
}

func main() {
	repo := os.Getenv("VERIF_REPO")
	if repo == "" {
		repo = "/repo"
	}
	root := filepath.Join(repo, "writer")
	outPath := os.Args[1]
	var files []string
	filepath.Walk(root, func(p string, info os.FileInfo, err error) error {
		if err == nil && !info.IsDir() && strings.HasSuffix(p, ".go") && !strings.HasSuffix(p, "_test.go") {
			files = append(files, p)
		}
		return nil
	})
	sort.Strings(files)
	parsed := map[string]*ast.File{}
	for _, p := range files {
		f, err := parser.ParseFile(fset, p, nil, parser.SkipObjectResolution)
		if err != nil {
			fmt.Fprintln(os.Stderr, "parse error:", err)
			os.Exit(1)
		}
		parsed[p] = f
		for _, d := range f.Decls {
			if fd, ok := d.(*ast.FuncDecl); ok {
				decls[fd.Name.Name] = append(decls[fd.Name.Name], fd)
			}
		}
	}
	var gs []goroutine
	var codes []string
	var handler []string
	snappyLimit := "None"
	fastFillCallers := 0
	nsGuard := "false"
	var sites []errSite
	var cmps []textCompare
	for _, p := range files {
		f := parsed[p]
		rel, _ := filepath.Rel(root, p)
		if (strings.HasPrefix(rel, "controller/") || strings.HasPrefix(rel, "utils/unmarshal/")) && !strings.Contains(rel, "/legacy/") {
			scanErrors(f, rel, &sites, &cmps)
		}
		for _, d := range f.Decls {
			name := ""
			var body ast.Node
			switch x := d.(type) {
			case *ast.FuncDecl:
				name, body = recvName(x), x
				if rel == "controller/builder.go" && x.Name.Name == "ErrorHandler" && x.Body != nil {
					handler = translateErrorHandler(x)
				}
				if rel == "utils/unmarshal/binaryPprof.go" && x.Name.Name == "ns" && x.Body != nil {
					// for <cond> { timestamp *= 10 }: guarded iff the condition mentions a comparison with 0
					ast.Inspect(x.Body, func(n ast.Node) bool {
						if fs, ok := n.(*ast.ForStmt); ok && fs.Cond != nil {
							c := exprString(fs.Cond)
							if strings.Contains(c, "> 0") || strings.Contains(c, "!= 0") || strings.Contains(c, "0 <") {
								nsGuard = "true"
							}
						}
						if is, ok := n.(*ast.IfStmt); ok {
							c := exprString(is.Cond)
							if strings.Contains(c, "== 0") {
								for _, b := range is.Body.List {
									if _, ok := b.(*ast.ReturnStmt); ok {
										nsGuard = "true"
									}
								}
							}
						}
						return true
					})
				}
			case *ast.GenDecl:
				for _, sp := range x.Specs {
					if vs, ok := sp.(*ast.ValueSpec); ok && len(vs.Names) > 0 {
						ord := 0
						nm := vs.Names[0].Name
						for _, v := range vs.Values {
							collect(v, rel, nm, &ord, &gs)
							if rel == "controller/middleware.go" && nm == "withUnsnappyRequest" {
								snappyLimit = findSnappyLimit(v)
							}
						}
					}
				}
				continue
			}
			ord := 0
			collect(body, rel, name, &ord, &gs)
		}
		// composite literals of the error types; calls of fastFill
		ast.Inspect(f, func(n ast.Node) bool {
			switch x := n.(type) {
			case *ast.CompositeLit:
				ty := exprString(x.Type)
				pos := -1
				if strings.HasSuffix(ty, "QrynError") && !strings.HasSuffix(ty, "IQrynError") {
					pos = 0
				} else if strings.HasSuffix(ty, "UnMarshalError") {
					pos = 1
				}
				if pos >= 0 && len(x.Elts) > 0 {
					var ce ast.Expr
					for i, e := range x.Elts {
						if kv, ok := e.(*ast.KeyValueExpr); ok {
							if exprString(kv.Key) == "Code" {
								ce = kv.Value
							}
						} else if i == pos {
							ce = e
						}
					}
					if ce != nil {
						if v, ok := constInt(ce); ok {
							codes = append(codes, fmt.Sprint(v))
						} else {
							codes = append(codes, "(-1)") // not a constant: cannot be bounded statically
						}
					}
				}
			case *ast.CallExpr:
				if rel == "service/impl/tempoInsertService.go" || strings.HasPrefix(rel, "service/impl/") {
					if calleeName(x.Fun) == "fastFill" {
						fastFillCallers++
					}
				}
			}
			return true
		})
	}
	var b strings.Builder
	b.WriteString("(* GENERATED by translate/gen_goroutines_writer from " + "$VERIF_REPO/writer" + " -- do not edit, not committed *)\n")
	b.WriteString("From Coq Require Import List String ZArith.\nFrom Qryn Require Import model.IngestRobust.\nImport ListNotations.\nOpen Scope string_scope.\nOpen Scope Z_scope.\n\n")
	b.WriteString("Definition gen_goroutines : list goroutine := [\n")
	for i, g := range gs {
		sep := ";"
		if i == len(gs)-1 {
			sep = ""
		}
		fmt.Fprintf(&b, "  {| g_file := %s; g_func := %s; g_ord := %d; g_target := %s; g_recovers := %v |}%s\n", q(g.file), q(g.fn), g.ord, q(g.target), g.recovers, sep)
	}
	b.WriteString("].\n\n")
	b.WriteString("Definition gen_error_handler : list eh_branch := [\n  " + strings.Join(handler, ";\n  ") + "].\n\n")
	b.WriteString("Definition gen_error_codes : list Z := [" + strings.Join(codes, "; ") + "].\n\n")
	b.WriteString("Definition gen_snappy_limit : option Z := " + snappyLimit + ".\n\n")
	fmt.Fprintf(&b, "Definition gen_fastfill_callers : Z := %d.\n\n", fastFillCallers)
	b.WriteString("Definition gen_ns_guard : bool := " + nsGuard + ".\n")
	b.WriteString("\n(* untyped errors built under controller/ and utils/unmarshal/ (not the direct argument of a typed wrapper):\n   (file, function, fmt.Errorf | errors.New, literal text before the first verb, whole format) *)\n")
	b.WriteString("Definition gen_untyped_error_sites : list (string * string * string * string * string) := [\n")
	for i, st := range sites {
		sep := ";"
		if i == len(sites)-1 {
			sep = ""
		}
		fmt.Fprintf(&b, "  (%s, %s, %s, %s, %s)%s\n", coqStr(st.file), coqStr(st.fn), coqStr(st.kind), coqStr(st.head), coqStr(st.format), sep)
	}
	b.WriteString("].\n\n(* comparisons of an error's text with a literal in controller/: (file, function, HasPrefix|Contains|HasSuffix, literal) *)\n")
	b.WriteString("Definition gen_error_text_compares : list (string * string * string * string) := [\n")
	phrases := []string{}
	for i, c := range cmps {
		sep := ";"
		if i == len(cmps)-1 {
			sep = ""
		}
		fmt.Fprintf(&b, "  (%s, %s, %s, %s)%s\n", coqStr(c.file), coqStr(c.fn), coqStr(c.kind), coqStr(c.lit), sep)
		dup := false
		for _, p := range phrases {
			dup = dup || p == c.lit
		}
		if !dup {
			phrases = append(phrases, c.lit)
		}
	}
	b.WriteString("].\n")
	// side file for the harness: the literal texts that status-deciding code compares error texts with
	if js, err := json.Marshal(map[string]interface{}{"phrases": phrases}); err == nil {
		os.WriteFile(strings.TrimSuffix(outPath, ".v")+".json", js, 0644)
	}
	tmp := outPath + ".tmp"
	if err := os.WriteFile(tmp, []byte(b.String()), 0644); err != nil {
		fmt.Fprintln(os.Stderr, err)
		os.Exit(1)
	}
	// keep the mtime when nothing changed (no needless recompilation)
	if old, err := os.ReadFile(outPath); err == nil && string(old) == b.String() {
		os.Remove(tmp)
		return
	}
	os.Rename(tmp, outPath)
}

// the limit is the constant N of `if <len> > N { return nil, <error> }` inside withUnsnappyRequest
func findSnappyLimit(n ast.Node) string {
	res := "None"
	ast.Inspect(n, func(x ast.Node) bool {
		is, ok := x.(*ast.IfStmt)
		if !ok {
			return true
		}
		be, ok := is.Cond.(*ast.BinaryExpr)
		if !ok || be.Op != token.GTR || !strings.Contains(strings.ToLower(exprString(be.X)), "len") {
			return true
		}
		v, ok := constInt(be.Y)
		if !ok {
			return true
		}
		for _, s := range is.Body.List {
			if r, ok := s.(*ast.ReturnStmt); ok && len(r.Results) == 2 && exprString(r.Results[1]) != "nil" {
				res = fmt.Sprintf("(Some %d)", v)
			}
		}
		return true
	})
	return res
}

func collect(n ast.Node, rel, fn string, ord *int, gs *[]goroutine) {
	if n == nil {
		return
	}
	ast.Inspect(n, func(x ast.Node) bool {
		g, ok := x.(*ast.GoStmt)
		if !ok {
			return true
		}
		e := goroutine{file: rel, fn: fn, ord: *ord}
		*ord++
		if lit, ok := g.Call.Fun.(*ast.FuncLit); ok {
			e.target = "func-literal"
			e.recovers = beginsWithRecover(lit.Body)
		} else {
			name := calleeName(g.Call.Fun)
			e.target = name
			ds := decls[name]
			e.recovers = len(ds) > 0
			for _, fd := range ds {
				if !beginsWithRecover(fd.Body) {
					e.recovers = false
				}
			}
		}
		*gs = append(*gs, e)
		return true
	})
}
