// C05, third session: what stands between the socket and the wire decoders.
//
//	gen_ce_body_wraps       per Content-Encoding case of WithOverallContextMiddleware: the expression assigned to r.Body
//	gen_lim_new             what helpers.LimitDecoded returns
//	gen_lim_read            the statements of (*limitedDecoded).Read, one normalised line each
//	gen_err_decoded_too_long  the value of errDecodedTooLong
//	gen_pb_pool_limit       the initial pbPool.limit (bytes); gen_set_global_limit_pb: what SetGlobalLimit assigns to it
package main

import (
	"bytes"
	"fmt"
	"go/ast"
	"go/parser"
	"go/printer"
	"path/filepath"
	"sort"
	"strings"
)

// one-line rendering of a node: go/printer, white space collapsed
func oneLine(n ast.Node) string {
	var buf bytes.Buffer
	printer.Fprint(&buf, fset, n)
	return strings.Join(strings.Fields(buf.String()), " ")
}

func fileOf(root string, files []string, parsed map[string]*ast.File, rel string) *ast.File {
	for _, p := range files {
		if r, _ := filepath.Rel(root, p); r == rel {
			return parsed[p]
		}
	}
	return nil
}

func funcOf(f *ast.File, recv, name string) *ast.FuncDecl {
	if f == nil {
		return nil
	}
	for _, d := range f.Decls {
		if fd, ok := d.(*ast.FuncDecl); ok && fd.Name.Name == name && fd.Body != nil {
			r := ""
			if fd.Recv != nil && len(fd.Recv.List) == 1 {
				r = strings.TrimPrefix(exprString(fd.Recv.List[0].Type), "*")
			}
			if r == recv {
				return fd
			}
		}
	}
	return nil
}

func writeFraming(b *strings.Builder, root string, files []string, parsed map[string]*ast.File) {
	b.WriteString("\n(* ---- framing (third session) ---- *)\n")
	// WithOverallContextMiddleware: what each Content-Encoding case assigns to r.Body
	var wraps [][2]string
	if mw := fileOf(root, files, parsed, "controller/middleware.go"); mw != nil {
		ast.Inspect(mw, func(n ast.Node) bool {
			sw, ok := n.(*ast.SwitchStmt)
			if !ok || sw.Tag == nil || !strings.Contains(exprString(sw.Tag), "Content-Encoding") {
				return true
			}
			for _, cc := range sw.Body.List {
				cl := cc.(*ast.CaseClause)
				label := "default"
				if len(cl.List) > 0 {
					label = strArg(cl.List[0])
				}
				for _, st := range cl.Body {
					ast.Inspect(st, func(m ast.Node) bool {
						if as, ok := m.(*ast.AssignStmt); ok && len(as.Lhs) == 1 && len(as.Rhs) == 1 && exprString(as.Lhs[0]) == "r.Body" {
							wraps = append(wraps, [2]string{label, oneLine(as.Rhs[0])})
						}
						return true
					})
				}
			}
			return false
		})
	}
	b.WriteString("(* WithOverallContextMiddleware: (Content-Encoding case, expression assigned to r.Body) *)\n")
	b.WriteString("Definition gen_ce_body_wraps : list (string * string) := " + pairList(wraps) + ".\n")
	lb := fileOf(root, files, parsed, "utils/helpers/limitedBuffer.go")
	limNew, tooLong, poolInit, setPb := "", "", int64(-1), ""
	var readStmts []string
	if fd := funcOf(lb, "", "LimitDecoded"); fd != nil && len(fd.Body.List) == 1 {
		if r, ok := fd.Body.List[0].(*ast.ReturnStmt); ok && len(r.Results) == 1 {
			limNew = oneLine(r.Results[0])
		}
	}
	if fd := funcOf(lb, "limitedDecoded", "Read"); fd != nil {
		for _, st := range fd.Body.List {
			readStmts = append(readStmts, oneLine(st))
		}
	}
	if fd := funcOf(lb, "", "SetGlobalLimit"); fd != nil {
		for _, st := range fd.Body.List {
			if as, ok := st.(*ast.AssignStmt); ok && len(as.Lhs) == 1 && exprString(as.Lhs[0]) == "pbPool.limit" {
				setPb = oneLine(as.Rhs[0])
			}
		}
	}
	if lb != nil {
		for _, d := range lb.Decls {
			gd, ok := d.(*ast.GenDecl)
			if !ok {
				continue
			}
			for _, sp := range gd.Specs {
				vs, ok := sp.(*ast.ValueSpec)
				if !ok || len(vs.Names) != 1 || len(vs.Values) != 1 {
					continue
				}
				switch vs.Names[0].Name {
				case "errDecodedTooLong":
					tooLong = oneLine(vs.Values[0])
				case "pbPool":
					if cl, ok := vs.Values[0].(*ast.CompositeLit); ok {
						for _, el := range cl.Elts {
							if kv, ok := el.(*ast.KeyValueExpr); ok && exprString(kv.Key) == "limit" {
								if v, ok := constInt(kv.Value); ok {
									poolInit = v
								}
							}
						}
					}
				}
			}
		}
	}
	b.WriteString("(* helpers.LimitDecoded / limitedDecoded.Read / errDecodedTooLong / pbPool.limit / SetGlobalLimit *)\n")
	b.WriteString("Definition gen_lim_new : string := " + coqStr(limNew) + ".\n")
	b.WriteString("Definition gen_lim_read : list string := " + strList(readStmts) + ".\n")
	b.WriteString("Definition gen_err_decoded_too_long : string := " + coqStr(tooLong) + ".\n")
	fmt.Fprintf(b, "Definition gen_pb_pool_limit : Z := (%d)%%Z.\n", poolInit)
	b.WriteString("Definition gen_set_global_limit_pb : string := " + coqStr(setPb) + ".\n")
	writeServer(b, filepath.Dir(root))
	writeFrames(b, root, files, parsed)
	writeLockstep(b, root, files, parsed)
}

// ---------------------------------------------------------------------------------------------------------
// The equal-length contract of the non-literal onEntries call sites, regenerated instead of read:
// for every call `onEntries(labels, a, b, c, d)` whose slice arguments are not one-element literals, the arguments are
//   - members: identifiers / fields (tsns, p.TsNs, ..) -- the GROUP of the call;
//   - derived: make([]T, E) or fastFillArray[..](E, ..) with E = len(<member>) or E textually equal to the length
//     expression every member was made with.
// Every statement of the FILE that changes the length of a member (x = append(x, one element), x = x[:0],
// x := / = make([]T, 0, ..) or make([]T, E)) must stand in a statement list where the same kind of change is applied to
// every member of the group exactly once, with no return / branch statement between the first and the last of them.
// Then all members have the same length wherever a statement list is entered or left -- in particular at the call.
// (file, function, verdict, detail): verdict "lockstep" or the reason it is not.

type lenChange struct {
	member, kind string // kind: append1 | reset | make0 | make:<expr>
}

func memberName(e ast.Expr) string {
	switch x := e.(type) {
	case *ast.Ident:
		return x.Name
	case *ast.SelectorExpr:
		return exprString(x)
	}
	return ""
}

func classifyChange(st ast.Stmt, group map[string]bool) (lenChange, bool) {
	as, ok := st.(*ast.AssignStmt)
	if !ok || len(as.Lhs) != 1 || len(as.Rhs) != 1 {
		return lenChange{}, false
	}
	m := memberName(as.Lhs[0])
	if !group[m] {
		return lenChange{}, false
	}
	switch r := as.Rhs[0].(type) {
	case *ast.CallExpr:
		switch calleeName(r.Fun) {
		case "append":
			if len(r.Args) == 2 && memberName(r.Args[0]) == m && !r.Ellipsis.IsValid() {
				return lenChange{m, "append1"}, true
			}
			return lenChange{m, "other:" + oneLine(r)}, true
		case "make":
			if len(r.Args) == 3 && exprString(r.Args[1]) == "0" {
				return lenChange{m, "make0"}, true
			}
			if len(r.Args) == 2 {
				return lenChange{m, "make:" + strings.ReplaceAll(exprString(r.Args[1]), " ", "")}, true
			}
		}
	case *ast.SliceExpr:
		if memberName(r.X) == m && r.Low == nil && r.High != nil && exprString(r.High) == "0" {
			return lenChange{m, "reset"}, true
		}
	}
	return lenChange{m, "other:" + oneLine(as.Rhs[0])}, true
}

func lockstepVerdict(f *ast.File, group map[string]bool, derived []string) string {
	verdict := ""
	makeExprs := map[string]bool{}
	var visitList func(list []ast.Stmt)
	visitList = func(list []ast.Stmt) {
		first, last := -1, -1
		counts := map[string]map[string]int{} // kind -> member -> times
		for i, st := range list {
			if ch, ok := classifyChange(st, group); ok {
				if first < 0 {
					first = i
				}
				last = i
				if counts[ch.kind] == nil {
					counts[ch.kind] = map[string]int{}
				}
				counts[ch.kind][ch.member]++
				if strings.HasPrefix(ch.kind, "make:") {
					makeExprs[strings.TrimPrefix(ch.kind, "make:")] = true
				}
			}
		}
		for kind, per := range counts {
			if strings.HasPrefix(kind, "other:") && verdict == "" {
				verdict = "a member is changed by " + strings.TrimPrefix(kind, "other:")
			}
			for m := range group {
				if per[m] != 1 && verdict == "" {
					verdict = fmt.Sprintf("%s applied %d times to %s in a statement list that applies it to other members", kind, per[m], m)
				}
			}
		}
		for i := first + 1; i < last; i++ {
			switch list[i].(type) {
			case *ast.ReturnStmt, *ast.BranchStmt, *ast.IfStmt, *ast.ForStmt, *ast.RangeStmt, *ast.SwitchStmt, *ast.GoStmt, *ast.DeferStmt:
				if _, ok := classifyChange(list[i], group); !ok && verdict == "" {
					verdict = "control flow between the changes of the members: " + firstN(oneLine(list[i]), 60)
				}
			}
		}
	}
	ast.Inspect(f, func(n ast.Node) bool {
		switch x := n.(type) {
		case *ast.BlockStmt:
			visitList(x.List)
		case *ast.CaseClause:
			visitList(x.Body)
		case *ast.CommClause:
			visitList(x.Body)
		}
		return true
	})
	// indexed stores do not change lengths; derived arguments
	for _, d := range derived {
		d = strings.ReplaceAll(d, " ", "")
		ok := makeExprs[d]
		if strings.HasPrefix(d, "len(") && strings.HasSuffix(d, ")") && group[d[4:len(d)-1]] {
			ok = true
		}
		if !ok && verdict == "" {
			verdict = "a derived argument has length " + d + ", which is neither len(member) nor the expression the members are made with"
		}
	}
	if verdict == "" {
		return "lockstep"
	}
	return verdict
}

// the raw material of the verdict, for the Coq side (model/IngestShared.v section 6): every statement list of the file that changes the
// length of a member, as the changes in source order, and whether a control-flow statement stands between the first and the last
func lockstepBlocks(f *ast.File, group map[string]bool) []string {
	var out []string
	visitList := func(list []ast.Stmt) {
		first, last := -1, -1
		var chs []string
		for i, st := range list {
			if ch, ok := classifyChange(st, group); ok {
				if first < 0 {
					first = i
				}
				last = i
				k := ""
				switch {
				case ch.kind == "append1":
					k = "ChAppend1"
				case ch.kind == "reset":
					k = "ChReset"
				case ch.kind == "make0":
					k = "ChMake0"
				case strings.HasPrefix(ch.kind, "make:"):
					k = "ChMakeE " + q(strings.TrimPrefix(ch.kind, "make:"))
				default:
					k = "ChOther " + q(firstN(strings.TrimPrefix(ch.kind, "other:"), 60))
				}
				chs = append(chs, "("+q(ch.member)+", "+k+")")
			}
		}
		if len(chs) == 0 {
			return
		}
		cf := false
		for i := first + 1; i < last; i++ {
			switch list[i].(type) {
			case *ast.ReturnStmt, *ast.BranchStmt, *ast.IfStmt, *ast.ForStmt, *ast.RangeStmt, *ast.SwitchStmt, *ast.GoStmt, *ast.DeferStmt:
				if _, ok := classifyChange(list[i], group); !ok {
					cf = true
				}
			}
		}
		out = append(out, fmt.Sprintf("([%s], %v)", strings.Join(chs, "; "), cf))
	}
	ast.Inspect(f, func(n ast.Node) bool {
		switch x := n.(type) {
		case *ast.BlockStmt:
			visitList(x.List)
		case *ast.CaseClause:
			visitList(x.Body)
		case *ast.CommClause:
			visitList(x.Body)
		}
		return true
	})
	return out
}

func firstN(s string, n int) string {
	if len(s) > n {
		return s[:n]
	}
	return s
}

func writeLockstep(b *strings.Builder, root string, files []string, parsed map[string]*ast.File) {
	var rows, blocks []string
	for _, p := range files {
		rel, _ := filepath.Rel(root, p)
		if !strings.HasPrefix(rel, "utils/unmarshal/") || strings.Contains(rel, "/legacy/") {
			continue
		}
		f := parsed[p]
		for _, d := range f.Decls {
			fd, ok := d.(*ast.FuncDecl)
			if !ok || fd.Body == nil {
				continue
			}
			ast.Inspect(fd.Body, func(n ast.Node) bool {
				c, ok := n.(*ast.CallExpr)
				if !ok || calleeName(c.Fun) != "onEntries" || len(c.Args) != 5 {
					return true
				}
				group := map[string]bool{}
				var derived []string
				literals := 0
				bad := ""
				for _, a := range c.Args[1:] {
					if m := memberName(a); m != "" {
						group[m] = true
						continue
					}
					if cl, ok := a.(*ast.CompositeLit); ok && len(cl.Elts) == 1 {
						literals++
						continue
					}
					if ce, ok := a.(*ast.CallExpr); ok {
						fn := ce.Fun
						if ix, ok := fn.(*ast.IndexExpr); ok {
							fn = ix.X
						}
						switch calleeName(fn) {
						case "make":
							if len(ce.Args) == 2 {
								derived = append(derived, exprString(ce.Args[1]))
								continue
							}
						case "fastFillArray":
							if len(ce.Args) == 2 {
								derived = append(derived, exprString(ce.Args[0]))
								continue
							}
						}
					}
					bad = "argument not understood: " + firstN(oneLine(a), 50)
				}
				if literals == 4 {
					return true
				}
				verdict := bad
				if verdict == "" && literals > 0 {
					verdict = "one-element literals mixed with slices"
				}
				if verdict == "" {
					verdict = lockstepVerdict(f, group, derived)
				}
				var ms []string
				for m := range group {
					ms = append(ms, m)
				}
				sort.Strings(ms)
				rows = append(rows, "("+q(rel)+", "+q(recvName(fd))+", "+q(verdict)+", "+q(strings.Join(ms, " ")+" | "+strings.Join(derived, " "))+")")
				if bad == "" && literals == 0 {
					var dv []string
					for _, d := range derived {
						dv = append(dv, strings.ReplaceAll(d, " ", ""))
					}
					blocks = append(blocks, "("+q(rel)+", "+q(recvName(fd))+", "+strList(ms)+", "+strList(dv)+",\n    ["+strings.Join(lockstepBlocks(f, group), ";\n     ")+"])")
				}
				return true
			})
		}
	}
	b.WriteString("(* non-literal onEntries call sites: (file, function, \"lockstep\" or why not, members | derived lengths) *)\n")
	b.WriteString("Definition gen_on_entries_lockstep : list (string * string * string * string) := [\n  " + strings.Join(rows, ";\n  ") + "].\n")
	b.WriteString("(* the same sites with the length-changing statement lists of their file: (file, function, members, derived lengths, [(changes in order, control flow between)]) *)\n")
	b.WriteString("Definition gen_lockstep_blocks : list (string * string * list string * list string * list (list (string * chg) * bool)) := [\n  " + strings.Join(blocks, ";\n  ") + "].\n")
}

// the NDJSON framing loops: every Decode method under utils/unmarshal/ (not legacy) that makes a bufio.Scanner
func writeFrames(b *strings.Builder, root string, files []string, parsed map[string]*ast.File) {
	bs := func(v bool) string {
		if v {
			return "true"
		}
		return "false"
	}
	var progs []string
	for _, p := range files {
		rel, _ := filepath.Rel(root, p)
		if !strings.HasPrefix(rel, "utils/unmarshal/") || strings.Contains(rel, "/legacy/") {
			continue
		}
		for _, d := range parsed[p].Decls {
			fd, ok := d.(*ast.FuncDecl)
			if !ok || fd.Body == nil || fd.Recv == nil || findCall(fd.Body, "NewScanner") == nil {
				continue
			}
			name := strings.TrimPrefix(exprString(fd.Recv.List[0].Type), "*")
			splitLines, max := true, int64(65536)
			lineErrReturns, checksErr, errTyped, returnsNil := false, false, false, false
			for i, st := range fd.Body.List {
				switch x := st.(type) {
				case *ast.ExprStmt:
					if c, ok := x.X.(*ast.CallExpr); ok {
						switch calleeName(c.Fun) {
						case "Split":
							splitLines = len(c.Args) == 1 && exprString(c.Args[0]) == "bufio.ScanLines"
						case "Buffer":
							if len(c.Args) == 2 {
								if v, ok := constInt(c.Args[1]); ok {
									max = v
								} else {
									max = -1
								}
							}
						}
					}
				case *ast.ForStmt:
					if x.Cond == nil || !strings.HasSuffix(exprString(x.Cond), ".Scan()") {
						continue
					}
					// every statement that assigns err is followed, as the next statement, by `if err != nil { return .. }`
					assigns, guarded := 0, 0
					for k, ls := range x.Body.List {
						as, ok := ls.(*ast.AssignStmt)
						if !ok {
							continue
						}
						hasErr := false
						for _, l := range as.Lhs {
							hasErr = hasErr || exprString(l) == "err"
						}
						if !hasErr {
							continue
						}
						assigns++
						if k+1 < len(x.Body.List) {
							if is, ok := x.Body.List[k+1].(*ast.IfStmt); ok && is.Init == nil && strings.ReplaceAll(exprString(is.Cond), " ", "") == "err!=nil" && len(is.Body.List) > 0 {
								if _, ok := is.Body.List[len(is.Body.List)-1].(*ast.ReturnStmt); ok {
									guarded++
								}
							}
						}
					}
					lineErrReturns = assigns > 0 && assigns == guarded
				case *ast.IfStmt:
					if x.Init != nil && strings.Contains(oneLine(x.Init), ".Err()") && strings.ReplaceAll(exprString(x.Cond), " ", "") == "err!=nil" && len(x.Body.List) == 1 {
						if r, ok := x.Body.List[0].(*ast.ReturnStmt); ok && len(r.Results) == 1 {
							checksErr = true
							if c, ok := r.Results[0].(*ast.CallExpr); ok && calleeName(c.Fun) == "NewUnmarshalError" {
								errTyped = true
							}
						}
					}
				case *ast.ReturnStmt:
					returnsNil = i == len(fd.Body.List)-1 && len(x.Results) == 1 && exprString(x.Results[0]) == "nil"
				}
			}
			progs = append(progs, fmt.Sprintf("{| fp_name := %s; fp_split_lines := %s; fp_max_token := (%d)%%Z; fp_line_err_returns := %s; fp_checks_scan_err := %s; fp_scan_err_typed := %s; fp_returns_nil := %s |}",
				coqStr(name), bs(splitLines), max, bs(lineErrReturns), bs(checksErr), bs(errTyped), bs(returnsNil)))
		}
	}
	b.WriteString("(* NDJSON framing loops (methods of utils/unmarshal that make a bufio.Scanner), in file order *)\n")
	b.WriteString("Definition gen_frame_progs : list frame_prog := [\n  " + strings.Join(progs, ";\n  ") + "].\n")
}

// durationMs: N * time.Unit, time.Unit * N, time.Unit -> milliseconds (-1: not understood)
func durationMs(e ast.Expr) int64 {
	unit := func(x ast.Expr) int64 {
		switch exprString(x) {
		case "time.Millisecond":
			return 1
		case "time.Second":
			return 1000
		case "time.Minute":
			return 60000
		case "time.Hour":
			return 3600000
		}
		return -1
	}
	if u := unit(e); u > 0 {
		return u
	}
	if be, ok := e.(*ast.BinaryExpr); ok && be.Op.String() == "*" {
		if n, ok := constInt(be.X); ok && unit(be.Y) > 0 {
			return n * unit(be.Y)
		}
		if n, ok := constInt(be.Y); ok && unit(be.X) > 0 {
			return n * unit(be.X)
		}
	}
	return -1
}

// main.go httpStart: how the router is served.  gen_server_serve = the Serve call; the timeouts of the http.Server literal
// in that function in ms (0 = field absent: no deadline)
func writeServer(b *strings.Builder, repo string) {
	serve, rt, rht := "", int64(0), int64(0)
	f, err := parser.ParseFile(fset, filepath.Join(repo, "main.go"), nil, parser.SkipObjectResolution)
	if err == nil {
		if fd := funcOf(f, "", "httpStart"); fd != nil {
			ast.Inspect(fd.Body, func(n ast.Node) bool {
				switch x := n.(type) {
				case *ast.CallExpr:
					if nm := calleeName(x.Fun); nm == "Serve" || nm == "ListenAndServe" {
						serve = oneLine(x)
					}
				case *ast.CompositeLit:
					if exprString(x.Type) == "http.Server" {
						for _, el := range x.Elts {
							if kv, ok := el.(*ast.KeyValueExpr); ok {
								switch exprString(kv.Key) {
								case "ReadTimeout":
									rt = durationMs(kv.Value)
								case "ReadHeaderTimeout":
									rht = durationMs(kv.Value)
								}
							}
						}
					}
				}
				return true
			})
		}
	}
	genServerReadTimeoutMs, genServerReadHeaderTimeoutMs = rt, rht
	b.WriteString("(* main.go httpStart: the Serve call; ReadTimeout / ReadHeaderTimeout of its http.Server literal in ms (0 = not set) *)\n")
	b.WriteString("Definition gen_server_serve : string := " + coqStr(serve) + ".\n")
	fmt.Fprintf(b, "Definition gen_server_read_timeout_ms : Z := (%d)%%Z.\nDefinition gen_server_read_header_timeout_ms : Z := (%d)%%Z.\n", rt, rht)
}
