// C05, fourth session: the decoders that build the four slices of an onEntries call in a loop of their own, as programs
// over slice LENGTHS (model/IngestShared.v dprog), interpreted inside Coq for every body shape:
//
//	gen_prom_decode_prog       utils/unmarshal/metricsProtobuf.go promMetricsProtoDec.Decode
//	gen_lokiproto_decode_prog  utils/unmarshal/logsProtobuf.go    logsProtoDec.Decode
//
// What is kept of a statement: whether it makes / appends to / resets / stores into one of the slices handed to onEntries
// (or mentioned in the length of one), counts or resets a counter (`x++`), tests a counter against a constant or a slice
// length against 0, calls onEntries, or ranges over the samples / entries of the series.  Statements that touch none of
// these (label handling, timing) are left out; one that touches them in a form not listed is DUnknown and fails the check.
package main

import (
	"fmt"
	"go/ast"
	"go/token"
	"strings"
)

type decTr struct {
	tracked  map[string]bool
	counters map[string]bool
	consts   map[string]int64
	rangeOf  map[string]bool // texts denoting the collection of the inner range loop
	key      string          // key identifier of the inner range loop being translated
}

func nospace(s string) string { return strings.ReplaceAll(s, " ", "") }

func isOnEntries(e ast.Expr) *ast.CallExpr {
	c, ok := e.(*ast.CallExpr)
	if ok && calleeName(c.Fun) == "onEntries" && len(c.Args) == 5 {
		return c
	}
	return nil
}

func containsOnEntries(n ast.Node) bool {
	found := false
	ast.Inspect(n, func(x ast.Node) bool {
		if e, ok := x.(ast.Expr); ok && isOnEntries(e) != nil {
			found = true
		}
		return !found
	})
	return found
}

// len(<ident or selector>) -> the operand's name
func lenOperand(e ast.Expr) (string, bool) {
	c, ok := e.(*ast.CallExpr)
	if !ok || calleeName(c.Fun) != "len" || len(c.Args) != 1 {
		return "", false
	}
	return nospace(exprString(c.Args[0])), true
}

func (t *decTr) collect(fd *ast.FuncDecl) {
	// slices: what the onEntries calls mention
	note := func(e ast.Expr) {
		if m := memberName(e); m != "" {
			t.tracked[m] = true
		}
	}
	ast.Inspect(fd.Body, func(n ast.Node) bool {
		switch x := n.(type) {
		case *ast.CallExpr:
			if c := isOnEntries(x); c != nil {
				for _, a := range c.Args[1:] {
					note(a)
					ast.Inspect(a, func(y ast.Node) bool {
						switch z := y.(type) {
						case *ast.SliceExpr:
							note(z.X)
						case *ast.CallExpr:
							if calleeName(z.Fun) == "len" && len(z.Args) == 1 {
								note(z.Args[0])
							}
						}
						return true
					})
				}
			}
		case *ast.IncDecStmt:
			if id, ok := x.X.(*ast.Ident); ok && x.Tok == token.INC {
				t.counters[id.Name] = true
			}
		case *ast.DeclStmt:
			if gd, ok := x.Decl.(*ast.GenDecl); ok && gd.Tok == token.CONST {
				for _, sp := range gd.Specs {
					if vs, ok := sp.(*ast.ValueSpec); ok && len(vs.Names) == 1 && len(vs.Values) == 1 {
						if v, ok := constInt(vs.Values[0]); ok {
							t.consts[vs.Names[0].Name] = v
						}
					}
				}
			}
		}
		return true
	})
}

func (t *decTr) touches(n ast.Node) bool {
	found := false
	ast.Inspect(n, func(x ast.Node) bool {
		switch s := x.(type) {
		case *ast.AssignStmt:
			for _, l := range s.Lhs {
				if ix, ok := l.(*ast.IndexExpr); ok {
					l = ix.X
				}
				if m := memberName(l); t.tracked[m] || t.counters[m] {
					found = true
				}
			}
		case *ast.IncDecStmt:
			if id, ok := s.X.(*ast.Ident); ok && t.counters[id.Name] {
				found = true
			}
		case *ast.CallExpr:
			if isOnEntries(s) != nil {
				found = true
			}
		}
		return !found
	})
	return found
}

func (t *decTr) arg(e ast.Expr) string {
	if m := memberName(e); m != "" && t.tracked[m] {
		return "DVar " + q(m)
	}
	lenArg := func(le ast.Expr, ctor string) string {
		if w, ok := lenOperand(le); ok {
			if t.rangeOf[w] {
				return "DRangeLen"
			}
			if t.tracked[w] {
				return ctor + " " + q(w)
			}
		}
		return ""
	}
	switch x := e.(type) {
	case *ast.SliceExpr:
		if m := memberName(x.X); t.tracked[m] && x.Low == nil && x.High != nil && !x.Slice3 {
			if w, ok := lenOperand(x.High); ok && t.tracked[w] {
				return "DSliceTo " + q(m) + " " + q(w)
			}
		}
	case *ast.CallExpr:
		switch calleeName(x.Fun) {
		case "make":
			if len(x.Args) == 2 {
				if s := lenArg(x.Args[1], "DMakeLen"); s != "" {
					return s
				}
			}
		case "fastFillArray":
			if len(x.Args) == 2 {
				if s := lenArg(x.Args[0], "DFill"); s != "" {
					return s
				}
			}
		}
	}
	return "DOther " + q(firstN(oneLine(e), 60))
}

func isErrReturn(st ast.Stmt) bool {
	is, ok := st.(*ast.IfStmt)
	if !ok || is.Init != nil || is.Else != nil || nospace(exprString(is.Cond)) != "err!=nil" || len(is.Body.List) != 1 {
		return false
	}
	_, ok = is.Body.List[0].(*ast.ReturnStmt)
	return ok
}

func (t *decTr) list(list []ast.Stmt) []string {
	var out []string
	unknown := func(n ast.Node) { out = append(out, "DUnknown "+q(firstN(oneLine(n), 70))) }
	for i := 0; i < len(list); i++ {
		st := list[i]
		switch s := st.(type) {
		case *ast.AssignStmt:
			if len(s.Rhs) == 1 && isOnEntries(s.Rhs[0]) != nil {
				c := isOnEntries(s.Rhs[0])
				if len(s.Lhs) == 1 && exprString(s.Lhs[0]) == "err" && i+1 < len(list) && isErrReturn(list[i+1]) {
					out = append(out, fmt.Sprintf("DCall (%s) (%s) (%s) (%s)", t.arg(c.Args[1]), t.arg(c.Args[2]), t.arg(c.Args[3]), t.arg(c.Args[4])))
					i++
				} else {
					unknown(st)
				}
				continue
			}
			if !t.touches(st) {
				continue
			}
			if len(s.Lhs) != 1 || len(s.Rhs) != 1 {
				unknown(st)
				continue
			}
			if ix, ok := s.Lhs[0].(*ast.IndexExpr); ok {
				if m := memberName(ix.X); t.tracked[m] && t.key != "" && exprString(ix.Index) == t.key && s.Tok == token.ASSIGN {
					out = append(out, "DStore "+q(m))
				} else {
					unknown(st)
				}
				continue
			}
			m := memberName(s.Lhs[0])
			switch {
			case t.counters[m]:
				if v, ok := constInt(s.Rhs[0]); ok && v == 0 && (s.Tok == token.ASSIGN || s.Tok == token.DEFINE) {
					out = append(out, "DZero "+q(m))
				} else {
					unknown(st)
				}
			case t.tracked[m]:
				done := false
				switch r := s.Rhs[0].(type) {
				case *ast.CallExpr:
					switch calleeName(r.Fun) {
					case "append":
						if len(r.Args) == 2 && memberName(r.Args[0]) == m && !r.Ellipsis.IsValid() {
							out = append(out, "DAppend "+q(m))
							done = true
						}
					case "make":
						if len(r.Args) == 3 && exprString(r.Args[1]) == "0" {
							out = append(out, "DMake0 "+q(m))
							done = true
						} else if len(r.Args) == 2 {
							if w, ok := lenOperand(r.Args[1]); ok && t.rangeOf[w] {
								out = append(out, "DMakeN "+q(m))
								done = true
							}
						}
					}
				case *ast.SliceExpr:
					if memberName(r.X) == m && r.Low == nil && r.High != nil && exprString(r.High) == "0" {
						out = append(out, "DReset "+q(m))
						done = true
					}
				}
				if !done {
					unknown(st)
				}
			default:
				unknown(st)
			}
		case *ast.IncDecStmt:
			if id, ok := s.X.(*ast.Ident); ok && t.counters[id.Name] {
				if s.Tok == token.INC {
					out = append(out, "DInc "+q(id.Name))
				} else {
					unknown(st)
				}
			}
		case *ast.IfStmt:
			if isErrReturn(st) {
				out = append(out, "DMayReturn")
				continue
			}
			if !t.touches(st) {
				continue
			}
			if be, ok := s.Cond.(*ast.BinaryExpr); ok && s.Init == nil && s.Else == nil {
				if id, ok := be.X.(*ast.Ident); ok && t.counters[id.Name] && be.Op == token.GEQ {
					k, okk := constInt(be.Y)
					if y, ok := be.Y.(*ast.Ident); ok && !okk {
						k, okk = t.consts[y.Name]
					}
					if okk && k >= 0 {
						out = append(out, fmt.Sprintf("DIfGe %s (%d)%%N [%s]", q(id.Name), k, strings.Join(t.list(s.Body.List), "; ")))
						continue
					}
				}
				if w, ok := lenOperand(be.X); ok && t.tracked[w] && be.Op == token.GTR && exprString(be.Y) == "0" {
					out = append(out, fmt.Sprintf("DIfLenPos %s [%s]", q(w), strings.Join(t.list(s.Body.List), "; ")))
					continue
				}
			}
			unknown(st)
		case *ast.RangeStmt:
			if !t.touches(st) {
				continue
			}
			if t.rangeOf[nospace(exprString(s.X))] && t.key == "" {
				t.key = "_"
				if id, ok := s.Key.(*ast.Ident); ok && id.Name != "_" {
					t.key = id.Name
				}
				out = append(out, fmt.Sprintf("DRange [%s]", strings.Join(t.list(s.Body.List), "; ")))
				t.key = ""
				continue
			}
			unknown(st)
		case *ast.DeclStmt:
			if t.touches(st) {
				unknown(st)
			}
		default:
			if t.touches(st) || containsOnEntries(st) {
				unknown(st)
			}
		}
	}
	return out
}

// translateDecoder: the statements before the first range loop that contains an onEntries call, and the body of that loop
func translateDecoder(fd *ast.FuncDecl) (string, string, bool) {
	t := &decTr{tracked: map[string]bool{}, counters: map[string]bool{}, consts: map[string]int64{}, rangeOf: map[string]bool{}}
	t.collect(fd)
	var outer *ast.RangeStmt
	var before []ast.Stmt
	for _, st := range fd.Body.List {
		if rs, ok := st.(*ast.RangeStmt); ok && containsOnEntries(rs) {
			outer = rs
			break
		}
		before = append(before, st)
	}
	if outer == nil {
		return "", "", false
	}
	// the inner collection: what the range loops inside the outer body that touch the slices range over, and its aliases
	ast.Inspect(outer.Body, func(n ast.Node) bool {
		if rs, ok := n.(*ast.RangeStmt); ok && t.touches(rs) {
			t.rangeOf[nospace(exprString(rs.X))] = true
		}
		return true
	})
	if len(t.rangeOf) == 0 {
		// no loop over the elements: the lengths the slices are made with name the collection (len(stream.GetEntries()))
		return "", "", false
	}
	for k := 0; k < 2; k++ {
		ast.Inspect(outer.Body, func(n ast.Node) bool {
			if as, ok := n.(*ast.AssignStmt); ok && len(as.Lhs) == 1 && len(as.Rhs) == 1 && as.Tok == token.DEFINE {
				l, r := nospace(exprString(as.Lhs[0])), nospace(exprString(as.Rhs[0]))
				if t.rangeOf[l] {
					t.rangeOf[r] = true
				}
				if t.rangeOf[r] {
					t.rangeOf[l] = true
				}
			}
			return true
		})
	}
	for k := range t.rangeOf {
		delete(t.tracked, k)
	}
	return "[" + strings.Join(t.list(before), "; ") + "]", "[" + strings.Join(t.list(outer.Body.List), "; ") + "]", true
}

func writeDecoders(b *strings.Builder, root string, files []string, parsed map[string]*ast.File) {
	b.WriteString("\n(* ---- decoder loops as programs over slice lengths (fourth session; model/IngestShared.v) ---- *)\n")
	for _, d := range [][3]string{
		{"gen_prom_decode_prog", "utils/unmarshal/metricsProtobuf.go", "promMetricsProtoDec"},
		{"gen_lokiproto_decode_prog", "utils/unmarshal/logsProtobuf.go", "logsProtoDec"},
	} {
		ini, ser := "[DUnknown \"Decode not found\"]", "[]"
		if fd := funcOf(fileOf(root, files, parsed, d[1]), d[2], "Decode"); fd != nil {
			if i, s, ok := translateDecoder(fd); ok {
				ini, ser = i, s
			} else {
				ini = "[DUnknown \"no loop with an onEntries call\"]"
			}
		}
		fmt.Fprintf(b, "Definition %s : dprog := {|\n  dp_init := %s;\n  dp_series := %s |}.\n", d[0], ini, ser)
	}
	writeProfileCols(b, root, files, parsed)
}

// ---------------------------------------------------------------------------------------------------------
// onProfile at column level and the profile insert service (model/IngestShared.v section 4):
//
//	gen_on_profile_prog   parserDoer.onProfile: per field of p.profile, PApp (p.profile.F = append(p.profile.F, x): one element
//	                      per call) or PSet (p.profile.F = x: the array of the request); pp_flush_resets: the block under
//	                      `if p.profile.Size > ..` sends the request and calls resetProfile
//	gen_profile_fields    the slice fields of model.ProfileData
//	gen_profile_cols      the columns of the profile insert service in the order of toIFace, with how ProcessRequest fills them:
//	                      KRows F (one value per element of profileSeriesData.F) or KOne F (profileSeriesData.F as ONE array value)
func writeProfileCols(b *strings.Builder, root string, files []string, parsed map[string]*ast.File) {
	var ops []string
	unknown := 0
	flush := false
	if fd := funcOf(fileOf(root, files, parsed, "utils/unmarshal/builder.go"), "parserDoer", "onProfile"); fd != nil {
		for _, st := range fd.Body.List {
			switch s := st.(type) {
			case *ast.AssignStmt:
				if len(s.Lhs) != 1 || len(s.Rhs) != 1 {
					unknown++
					continue
				}
				l := nospace(exprString(s.Lhs[0]))
				if !strings.HasPrefix(l, "p.profile.") {
					unknown++
					continue
				}
				f := strings.TrimPrefix(l, "p.profile.")
				if f == "Size" {
					continue
				}
				if c, ok := s.Rhs[0].(*ast.CallExpr); ok && calleeName(c.Fun) == "append" && len(c.Args) == 2 &&
					nospace(exprString(c.Args[0])) == l && !c.Ellipsis.IsValid() {
					ops = append(ops, "PApp "+q(f))
				} else if _, ok := s.Rhs[0].(*ast.Ident); ok {
					ops = append(ops, "PSet "+q(f))
				} else {
					unknown++
				}
			case *ast.IfStmt:
				if strings.HasPrefix(nospace(exprString(s.Cond)), "p.profile.Size>") && s.Else == nil {
					sends, resets := false, false
					for _, x := range s.Body.List {
						if _, ok := isSendOnRes(x); ok {
							sends = true
						}
						if es, ok := x.(*ast.ExprStmt); ok {
							if c, ok := es.X.(*ast.CallExpr); ok && calleeName(c.Fun) == "resetProfile" {
								resets = true
							}
						}
					}
					flush = sends && resets
				} else {
					unknown++
				}
			case *ast.ReturnStmt:
			default:
				unknown++
			}
		}
	} else {
		unknown = -1
	}
	fmt.Fprintf(b, "Definition gen_on_profile_prog : profile_prog := {| pp_ops := [%s]; pp_flush_resets := %v; pp_unknown := %d |}.\n",
		strings.Join(ops, "; "), flush, unknown)
	pf := map[string]*ast.File{}
	for _, p := range files {
		pf[p] = parsed[p]
	}
	b.WriteString("Definition gen_profile_fields : list string := " + strList(sliceFields(pf, "ProfileData")) + ".\n")

	// the profile insert service
	svc := fileOf(root, files, parsed, "service/impl/profileInsertService.go")
	var order []string // acquirer fields in toIFace order
	if fd := funcOf(svc, "profileSamplesAcquirer", "toIFace"); fd != nil {
		ast.Inspect(fd.Body, func(n ast.Node) bool {
			if cl, ok := n.(*ast.CompositeLit); ok {
				for _, e := range cl.Elts {
					order = append(order, strings.TrimPrefix(nospace(exprString(e)), "t."))
				}
				return false
			}
			return true
		})
	}
	fill := map[string]string{}
	bad := 0
	colOf := func(e ast.Expr) string { // acquirer.<col>.Data / &acquirer.<col>.Data inside anything
		s := nospace(oneLine(e)) // go/printer: types.ExprString abbreviates composite literals
		if i := strings.Index(s, "acquirer."); i >= 0 {
			s = s[i+len("acquirer."):]
			if j := strings.Index(s, ".Data"); j >= 0 {
				return s[:j]
			}
		}
		return ""
	}
	fieldOf := func(e ast.Expr) string {
		s := nospace(exprString(e))
		if strings.HasPrefix(s, "profileSeriesData.") {
			return strings.TrimPrefix(s, "profileSeriesData.")
		}
		return ""
	}
	if svc != nil {
		ast.Inspect(svc, func(n ast.Node) bool {
			kv, ok := n.(*ast.KeyValueExpr)
			if !ok || exprString(kv.Key) != "ProcessRequest" {
				return true
			}
			fl, ok := kv.Value.(*ast.FuncLit)
			if !ok {
				return true
			}
			for _, st := range fl.Body.List {
				switch s := st.(type) {
				case *ast.ExprStmt:
					c, ok := s.X.(*ast.CallExpr)
					if !ok || len(c.Args) != 1 {
						continue
					}
					col, f := colOf(c.Fun), fieldOf(c.Args[0])
					if col == "" || f == "" {
						continue
					}
					switch calleeName(c.Fun) {
					case "AppendArr":
						fill[col] += "KRows " + q(f)
					case "Append":
						fill[col] += "KOne " + q(f)
					default:
						bad++
					}
				case *ast.RangeStmt:
					f := fieldOf(s.X)
					if f == "" || len(s.Body.List) != 1 {
						continue
					}
					if es, ok := s.Body.List[0].(*ast.ExprStmt); ok {
						if c, ok := es.X.(*ast.CallExpr); ok && len(c.Args) == 1 && colOf(c.Fun) != "" && exprString(c.Args[0]) == exprString(s.Value) {
							fill[colOf(c.Fun)] += "KRows " + q(f)
							continue
						}
					}
					bad++
				}
			}
			return false
		})
	}
	var cols []string
	for _, c := range order {
		k := fill[c]
		if k == "" || strings.Count(k, "K") != 1 {
			k = "KBad " + q(k)
		}
		cols = append(cols, "("+q(c)+", "+k+")")
	}
	// golangPprof.go Parse: the guard in front of the profile parser (the statement before pprof_proto.Parse)
	var guard []string
	if fd := funcOf(fileOf(root, files, parsed, "utils/unmarshal/golangPprof.go"), "", "Parse"); fd != nil {
		for _, st := range fd.Body.List {
			if strings.Contains(oneLine(st), "pprof_proto.Parse(") {
				break
			}
			if is, ok := st.(*ast.IfStmt); ok {
				if is.Init != nil {
					guard = append(guard, "if "+oneLine(is.Init)+"; "+oneLine(is.Cond))
				} else {
					guard = append(guard, "if "+oneLine(is.Cond))
				}
				for _, x := range is.Body.List {
					guard = append(guard, oneLine(x))
				}
			} else {
				guard = append(guard, oneLine(st))
			}
		}
	}
	b.WriteString("Definition gen_pprof_parse_guard : list string := " + strList(guard) + ".\n")
	// the multipart form of /ingest: the form field read, the bound of the Decompressor, the boundary pattern
	field, dlimit, pattern := "", "", ""
	if gp := fileOf(root, files, parsed, "utils/unmarshal/golangPprof.go"); gp != nil {
		ast.Inspect(gp, func(n ast.Node) bool {
			switch x := n.(type) {
			case *ast.IndexExpr:
				if nospace(exprString(x.X)) == "form.File" {
					field = strArg(x.Index)
				}
			case *ast.CallExpr:
				switch calleeName(x.Fun) {
				case "NewDecompressor":
					if len(x.Args) == 1 {
						dlimit = exprString(x.Args[0])
					}
				case "MustCompile":
					if len(x.Args) == 1 {
						if bl, ok := x.Args[0].(*ast.BasicLit); ok && strings.Contains(bl.Value, "^--") {
							pattern = unquote(bl.Value)
						}
					}
				}
			}
			return true
		})
	}
	b.WriteString("Definition gen_mform_source : list string := " + strList([]string{field, dlimit, pattern}) + ".\n")
	b.WriteString("Definition gen_profile_cols : list (string * kop) := [" + strings.Join(cols, "; ") + "].\n")
	fmt.Fprintf(b, "Definition gen_profile_cols_unknown : Z := %d.\n", bad)
}
