// Round 6 (C05): InsertServiceV2.fetchLoopIteration and InsertServiceV2.ping as step programs for model/IngestConn.v, the select of
// InsertServiceV2.Run and the functions that renew svc.insertCtx.
//
// fetchLoopIteration: every top-level statement becomes one step.  Recognised shapes (white space collapsed, go/printer):
//   CConnect     if svc.client == nil { [var err error;] svc.client, err = svc.V3Session(); if err != nil { <no Done, no send>; return } }
//   CSwap        portion, err := svc.swapBuffers()   followed by   if portion == nil { return }        (two statements, one step)
//   CCapture     waiting := append([]*promise.Promise[uint32]{}, portion.res...)
//   CDefRelease  releaseWaiting := func(err error) { for _, w := range waiting { w.Done(0, err) } }
//   CDo          err = svc.client.Do(..)
//   CRelease     releaseWaiting(err)
//   CCloseOnErr  if err != nil { svc.client.Close(); svc.client = nil }
//   CPlain       no return / go / panic / goto / labelled branch inside, none of the names the protocol depends on, no assignment to err / portion
//   CUnknown     everything else (with its text)
package main

import (
	"fmt"
	"go/ast"
	"go/token"
	"regexp"
	"strings"
)

var svcSensitive = regexp.MustCompile(`svc\.client|V3Session|swapBuffers|svc\.results|portion\.res|\bwaiting\b|releaseWaiting|svc\.insertCtx|svc\.insertCancel|svc\.mtx`)

func hasExit(n ast.Node) bool {
	found := false
	ast.Inspect(n, func(x ast.Node) bool {
		switch v := x.(type) {
		case *ast.ReturnStmt, *ast.GoStmt:
			found = true
		case *ast.BranchStmt:
			if v.Tok == token.GOTO || v.Label != nil {
				found = true
			}
		case *ast.CallExpr:
			if id, ok := v.Fun.(*ast.Ident); ok && (id.Name == "panic" || id.Name == "recover") {
				found = true
			}
			if s := oneLine(v.Fun); s == "os.Exit" || s == "runtime.Goexit" || strings.HasPrefix(s, "log.Fatal") || strings.HasPrefix(s, "logger.Fatal") {
				found = true
			}
		case *ast.FuncLit:
			return false // a closure's return is its own
		}
		return !found
	})
	return found
}

func assignsTo(n ast.Node, names ...string) bool {
	found := false
	ast.Inspect(n, func(x ast.Node) bool {
		if as, ok := x.(*ast.AssignStmt); ok {
			for _, l := range as.Lhs {
				for _, nm := range names {
					if oneLine(l) == nm {
						found = true
					}
				}
			}
		}
		if vs, ok := x.(*ast.ValueSpec); ok {
			for _, id := range vs.Names {
				for _, nm := range names {
					if id.Name == nm {
						found = true
					}
				}
			}
		}
		return !found
	})
	return found
}

func plainStmt(st ast.Stmt) bool {
	return !hasExit(st) && !svcSensitive.MatchString(oneLine(st)) && !assignsTo(st, "err", "portion")
}

// the error branch of the connect step: it ends in return and neither completes a promise nor touches the buffers
func connectErrBranch(st ast.Stmt) bool {
	ifs, ok := st.(*ast.IfStmt)
	if !ok || ifs.Init != nil || ifs.Else != nil || oneLine(ifs.Cond) != "err != nil" || len(ifs.Body.List) == 0 {
		return false
	}
	last := ifs.Body.List[len(ifs.Body.List)-1]
	if r, ok := last.(*ast.ReturnStmt); !ok || len(r.Results) != 0 {
		return false
	}
	for _, s := range ifs.Body.List[:len(ifs.Body.List)-1] {
		if !plainStmt(s) {
			return false
		}
	}
	return true
}

func isConnect(st ast.Stmt) bool {
	ifs, ok := st.(*ast.IfStmt)
	if !ok || ifs.Init != nil || ifs.Else != nil || oneLine(ifs.Cond) != "svc.client == nil" {
		return false
	}
	stage := 0
	for _, s := range ifs.Body.List {
		t := oneLine(s)
		switch {
		case stage == 0 && t == "var err error":
		case stage == 0 && t == "svc.client, err = svc.V3Session()":
			stage = 1
		case stage == 1 && connectErrBranch(s):
			stage = 2
		default:
			return false
		}
	}
	return stage == 2
}

func fetchLoopSteps(fd *ast.FuncDecl) []string {
	var out []string
	list := fd.Body.List
	for i := 0; i < len(list); i++ {
		st := list[i]
		t := oneLine(st)
		switch {
		case isConnect(st):
			out = append(out, "CConnect")
		case t == "portion, err := svc.swapBuffers()" && i+1 < len(list) && oneLine(list[i+1]) == "if portion == nil { return }":
			out = append(out, "CSwap")
			i++
		case t == "waiting := append([]*promise.Promise[uint32]{}, portion.res...)":
			out = append(out, "CCapture")
		case t == "releaseWaiting := func(err error) { for _, w := range waiting { w.Done(0, err) } }":
			out = append(out, "CDefRelease")
		case strings.HasPrefix(t, "err = svc.client.Do(") && !hasExit(st):
			out = append(out, "CDo")
		case t == "releaseWaiting(err)":
			out = append(out, "CRelease")
		case t == "if err != nil { svc.client.Close() svc.client = nil }":
			out = append(out, "CCloseOnErr")
		case plainStmt(st):
			out = append(out, "CPlain")
		default:
			out = append(out, "CUnknown "+coqStr(firstN(t, 160)))
		}
	}
	return out
}

func pingSteps(fd *ast.FuncDecl) []string {
	var out []string
	for _, st := range fd.Body.List {
		t := oneLine(st)
		switch {
		case t == "if svc.client == nil { return }":
			out = append(out, "PNoClientReturn")
		case t == "if svc.lastRequest.Add(time.Second).After(time.Now()) { return }":
			out = append(out, "PRecentReturn")
		case t == "err := svc.client.Ping(to)":
			out = append(out, "PPing")
		case isPingClose(st):
			out = append(out, "PCloseOnErr")
		case !hasExit(st) && !regexp.MustCompile(`svc\.client|svc\.results|svc\.columns|svc\.insertCtx|svc\.insertCancel|svc\.mtx`).MatchString(t) && !assignsTo(st, "err"):
			out = append(out, "PPlain")
		default:
			out = append(out, "PUnknown "+coqStr(firstN(t, 160)))
		}
	}
	return out
}

// if err != nil { svc.client.Close(); svc.client = nil; <plain>*; return }
func isPingClose(st ast.Stmt) bool {
	ifs, ok := st.(*ast.IfStmt)
	if !ok || ifs.Init != nil || ifs.Else != nil || oneLine(ifs.Cond) != "err != nil" || len(ifs.Body.List) < 3 {
		return false
	}
	l := ifs.Body.List
	if oneLine(l[0]) != "svc.client.Close()" || oneLine(l[1]) != "svc.client = nil" {
		return false
	}
	if r, ok := l[len(l)-1].(*ast.ReturnStmt); !ok || len(r.Results) != 0 {
		return false
	}
	for _, s := range l[2 : len(l)-1] {
		if hasExit(s) || svcSensitive.MatchString(oneLine(s)) {
			return false
		}
	}
	return true
}

func writeService(b *strings.Builder, root string, files []string, parsed map[string]*ast.File) {
	b.WriteString("\n(* ---- the connection of an insert service (round 6; model/IngestConn.v) ---- *)\n")
	f := fileOf(root, files, parsed, "service/genericInsertService.go")
	steps := []string{`CUnknown "fetchLoopIteration not found"`}
	if fd := funcOf(f, "InsertServiceV2", "fetchLoopIteration"); fd != nil {
		steps = fetchLoopSteps(fd)
	}
	b.WriteString("Definition gen_fetch_loop : list cstep := [" + strings.Join(steps, "; ") + "].\n")
	psteps := []string{`PUnknown "ping not found"`}
	if fd := funcOf(f, "InsertServiceV2", "ping"); fd != nil {
		psteps = pingSteps(fd)
	}
	b.WriteString("Definition gen_ping_prog : list pstep := [" + strings.Join(psteps, "; ") + "].\n")
	// Run: for { select { case <-ch: body } }
	var cases []string
	if fd := funcOf(f, "InsertServiceV2", "Run"); fd != nil {
		ast.Inspect(fd.Body, func(n ast.Node) bool {
			sel, ok := n.(*ast.SelectStmt)
			if !ok {
				return true
			}
			for _, c := range sel.Body.List {
				cc := c.(*ast.CommClause)
				ch := "default"
				if cc.Comm != nil {
					ch = strings.TrimPrefix(oneLine(cc.Comm), "<-")
				}
				body := ""
				if len(cc.Body) > 0 {
					body = oneLine(cc.Body[len(cc.Body)-1])
					if len(cc.Body) == 1 {
						body = oneLine(cc.Body[0])
					}
				}
				cases = append(cases, fmt.Sprintf("(%s, %s)", coqStr(ch), coqStr(body)))
			}
			return false
		})
	}
	b.WriteString("Definition gen_run_cases : list (string * string) := [" + strings.Join(cases, "; ") + "].\n")
	// the methods of InsertServiceV2 that assign svc.insertCtx
	var writers []string
	if f != nil {
		for _, d := range f.Decls {
			fd, ok := d.(*ast.FuncDecl)
			if !ok || fd.Body == nil || fd.Recv == nil || len(fd.Recv.List) != 1 || strings.TrimPrefix(exprString(fd.Recv.List[0].Type), "*") != "InsertServiceV2" {
				continue
			}
			if assignsTo(fd.Body, "svc.insertCtx") {
				writers = append(writers, coqStr(fd.Name.Name))
			}
		}
	}
	b.WriteString("Definition gen_insert_ctx_writers : list string := [" + strings.Join(writers, "; ") + "].\n")
}
