// Round 8 (C05): which functions run while an insert service holds its mutex, and which of them take that mutex themselves.
//
// For every method of the three service types of service/genericInsertService.go (each has a field `mtx sync.Mutex`, receiver R) the body
// is walked with a LEXICAL held flag:
//   R.mtx.Lock()            (expression statement)  held from here on; seen while held: a direct re-lock
//   R.mtx.Unlock()          (expression statement)  not held from here to the end of this statement list
//   defer R.mtx.Unlock()                            held to the end of the enclosing function / function literal
//   func() {..}()           walked as its own scope, entered with the current flag
//   go func() {..}()        walked with held = false (another goroutine: contention, not re-entrancy); `go f()` is not a call of this goroutine
//   a nested statement list that ends held leaves the outer list held; one that unlocks (and returns) does not change the outer flag
//   (over-approximation: more is "held" than at run time, never less, as long as Lock / Unlock are expression statements on R.mtx)
// Every call met while held is recorded by the text of its callee:  R.m with m a method of the type = self call (the dangerous kind: it
// runs on the same object, hence the same mutex), R.f otherwise = a function-valued field, anything else = other.
// All self calls of a method (held or not) are recorded too: model/IngestConn.v closes "may lock" over them.
package main

import (
	"fmt"
	"go/ast"
	"sort"
	"strings"
)

type mtxMethod struct {
	typ, name, recv                      string
	locks, relock                        bool
	selfCalls, heldSelf, heldField, heldOther []string
	methods                              map[string]bool
	odd                                  []string // mutex uses that are not expression statements / defers (the lexical walk would be wrong)
}

func addOnce(l []string, s string) []string {
	for _, x := range l {
		if x == s {
			return l
		}
	}
	return append(l, s)
}

func (m *mtxMethod) call(c *ast.CallExpr, held bool) {
	callee := oneLine(c.Fun)
	if strings.HasPrefix(callee, m.recv+".mtx.") {
		return
	}
	if sel, ok := c.Fun.(*ast.SelectorExpr); ok {
		if id, ok := sel.X.(*ast.Ident); ok && id.Name == m.recv {
			if m.methods[sel.Sel.Name] {
				m.selfCalls = addOnce(m.selfCalls, sel.Sel.Name)
				if held {
					m.heldSelf = addOnce(m.heldSelf, sel.Sel.Name)
				}
			} else if held {
				m.heldField = addOnce(m.heldField, sel.Sel.Name)
			}
			return
		}
	}
	if held {
		m.heldOther = addOnce(m.heldOther, callee)
	}
}

// exprs: the calls inside an expression / simple statement, function literals walked as scopes
func (m *mtxMethod) exprs(n ast.Node, held bool) {
	if n == nil {
		return
	}
	ast.Inspect(n, func(x ast.Node) bool {
		switch v := x.(type) {
		case *ast.FuncLit:
			m.walk(v.Body.List, held) // a closure value: assumed to run where it is written
			return false
		case *ast.CallExpr:
			if strings.HasPrefix(oneLine(v.Fun), m.recv+".mtx.") {
				m.odd = addOnce(m.odd, oneLine(v))
			}
			m.call(v, held)
		}
		return true
	})
}

func (m *mtxMethod) mtxStmt(e ast.Expr) string {
	if c, ok := e.(*ast.CallExpr); ok && len(c.Args) == 0 {
		switch oneLine(c.Fun) {
		case m.recv + ".mtx.Lock":
			return "Lock"
		case m.recv + ".mtx.Unlock":
			return "Unlock"
		}
	}
	return ""
}

func (m *mtxMethod) walk(stmts []ast.Stmt, held bool) bool {
	for _, st := range stmts {
		switch v := st.(type) {
		case *ast.ExprStmt:
			switch m.mtxStmt(v.X) {
			case "Lock":
				m.locks = true
				if held {
					m.relock = true
				}
				held = true
			case "Unlock":
				held = false
			default:
				m.exprs(v.X, held)
			}
		case *ast.DeferStmt:
			if m.mtxStmt(v.Call) == "Unlock" {
				continue // held to the end of this scope
			}
			if m.mtxStmt(v.Call) == "Lock" {
				m.odd = addOnce(m.odd, oneLine(v))
				continue
			}
			m.exprs(v.Call, held)
		case *ast.GoStmt:
			if lit, ok := v.Call.Fun.(*ast.FuncLit); ok {
				m.walk(lit.Body.List, false)
			}
			for _, a := range v.Call.Args {
				m.exprs(a, held)
			}
		case *ast.BlockStmt:
			held = m.walk(v.List, held) || held
		case *ast.IfStmt:
			if v.Init != nil {
				held = m.walk([]ast.Stmt{v.Init}, held) || held
			}
			m.exprs(v.Cond, held)
			h := m.walk(v.Body.List, held)
			if v.Else != nil {
				h = m.walk([]ast.Stmt{v.Else}, held) || h
			}
			held = held || h
		case *ast.ForStmt:
			if v.Init != nil {
				held = m.walk([]ast.Stmt{v.Init}, held) || held
			}
			m.exprs(v.Cond, held)
			h := m.walk(v.Body.List, held)
			if v.Post != nil {
				h = m.walk([]ast.Stmt{v.Post}, held || h) || h
			}
			held = held || h
		case *ast.RangeStmt:
			m.exprs(v.X, held)
			held = m.walk(v.Body.List, held) || held
		case *ast.SwitchStmt:
			if v.Init != nil {
				held = m.walk([]ast.Stmt{v.Init}, held) || held
			}
			m.exprs(v.Tag, held)
			held = m.walk(v.Body.List, held) || held
		case *ast.TypeSwitchStmt:
			if v.Init != nil {
				held = m.walk([]ast.Stmt{v.Init}, held) || held
			}
			held = m.walk([]ast.Stmt{v.Assign}, held) || held
			held = m.walk(v.Body.List, held) || held
		case *ast.SelectStmt:
			held = m.walk(v.Body.List, held) || held
		case *ast.CaseClause:
			for _, e := range v.List {
				m.exprs(e, held)
			}
			held = m.walk(v.Body, held) || held
		case *ast.CommClause:
			if v.Comm != nil {
				held = m.walk([]ast.Stmt{v.Comm}, held) || held
			}
			held = m.walk(v.Body, held) || held
		case *ast.LabeledStmt:
			held = m.walk([]ast.Stmt{v.Stmt}, held) || held
		default:
			m.exprs(st, held)
		}
	}
	return held
}

func coqStrs(l []string) string {
	q := make([]string, len(l))
	for i, s := range l {
		q[i] = coqStr(s)
	}
	return "[" + strings.Join(q, "; ") + "]"
}

func writeLocks(b *strings.Builder, root string, files []string, parsed map[string]*ast.File) {
	b.WriteString("\n(* ---- what runs under the mutex of an insert service (round 8; model/IngestConn.v, section 5) ---- *)\n")
	f := fileOf(root, files, parsed, "service/genericInsertService.go")
	var out, odd []string
	if f != nil {
		hasMtx := map[string]bool{}
		ast.Inspect(f, func(n ast.Node) bool {
			ts, ok := n.(*ast.TypeSpec)
			if !ok {
				return true
			}
			if st, ok := ts.Type.(*ast.StructType); ok {
				for _, fl := range st.Fields.List {
					for _, nm := range fl.Names {
						if nm.Name == "mtx" && oneLine(fl.Type) == "sync.Mutex" {
							hasMtx[ts.Name.Name] = true
						}
					}
				}
			}
			return false
		})
		methods := map[string]map[string]bool{}
		var decls []*ast.FuncDecl
		for _, d := range f.Decls {
			fd, ok := d.(*ast.FuncDecl)
			if !ok || fd.Body == nil || fd.Recv == nil || len(fd.Recv.List) != 1 {
				continue
			}
			t := strings.TrimPrefix(exprString(fd.Recv.List[0].Type), "*")
			if !hasMtx[t] {
				continue
			}
			if methods[t] == nil {
				methods[t] = map[string]bool{}
			}
			methods[t][fd.Name.Name] = true
			decls = append(decls, fd)
		}
		for _, fd := range decls {
			t := strings.TrimPrefix(exprString(fd.Recv.List[0].Type), "*")
			recv := "_"
			if len(fd.Recv.List[0].Names) == 1 {
				recv = fd.Recv.List[0].Names[0].Name
			}
			m := &mtxMethod{typ: t, name: fd.Name.Name, recv: recv, methods: methods[t]}
			m.walk(fd.Body.List, false)
			for _, o := range m.odd {
				odd = append(odd, t+"."+fd.Name.Name+": "+o)
			}
			sort.Strings(m.heldOther)
			out = append(out, fmt.Sprintf("{| mm_type := %s; mm_name := %s; mm_locks := %v; mm_relock := %v; mm_self_calls := %s;\n     mm_held_self := %s; mm_held_fields := %s; mm_held_other := %s |}",
				coqStr(t), coqStr(fd.Name.Name), m.locks, m.relock, coqStrs(m.selfCalls), coqStrs(m.heldSelf), coqStrs(m.heldField), coqStrs(m.heldOther)))
		}
	}
	b.WriteString("Definition gen_mtx_methods : list mtx_method := [\n  " + strings.Join(out, ";\n  ") + "].\n")
	b.WriteString("Definition gen_mtx_odd_uses : list string := " + coqStrs(odd) + ".\n")
	// where the bulk size of the services comes from (writer/plugin): every MaxQueueSize of an InsertServiceOpts literal
	var srcs []string
	for _, p := range files {
		ast.Inspect(parsed[p], func(n ast.Node) bool {
			cl, ok := n.(*ast.CompositeLit)
			if !ok || !strings.HasSuffix(oneLine(cl.Type), "InsertServiceOpts") {
				return true
			}
			for _, e := range cl.Elts {
				if kv, ok := e.(*ast.KeyValueExpr); ok && oneLine(kv.Key) == "MaxQueueSize" {
					srcs = addOnce(srcs, oneLine(kv.Value))
				}
			}
			return true
		})
	}
	sort.Strings(srcs)
	b.WriteString("Definition gen_bulk_size_sources : list string := " + coqStrs(srcs) + ".\n")
}
