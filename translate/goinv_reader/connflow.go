package main

// Connection flows (coq/model/ReadConn.v, Part 2): one control-flow model per (function body or literal, variable), where the
// variable is a result set (`rows, err := X.QueryCtx(..)`: CKRows) or the channel of a lending call (`ch, err := f(..)`, f may
// issue a statement and returns a channel: the goroutine feeding the channel holds the result set: CKChan).
//
//   CAcq    the statement into the variable                 CRel   <var>.Close()
//   CAsk    any other statement / call that may issue one   CHand  go func(){ .. <var> .. }()
//   CCallL  the lending call into the variable              CLoop LRows  for <var>.Next() { .. }
//                                                            CLoop LDrain for .. := range <var> { .. }
//
// "may issue a statement" is the least fixpoint over the call graph: a body that contains a call named QueryCtx /
// QueryContext / Queryx (a statement) or ExecCtx / ExecContext / Exec / Conn / Begin (ask-and-give-back; Exec is also the
// PromQL engine's Query.Exec, which calls back into the reader's Queryable), or a call resolved to such a function.
// Resolution: a plain identifier of the package and pkg.F through an import of a reader package with certainty; a method
// call by the type of its receiver where that is written down in the unit (the enclosing method's receiver field, a
// parameter, `x := &T{..}` / `T{..}` / `new(T)` / `var x T`): a struct type selects its own method, an interface type
// declared in the reader selects the methods of that name with the interface method's shape (parameter count, result
// count, which results are channels); any other method call by name alone.

import (
	"fmt"
	"go/ast"
	"go/token"
	"sort"
	"strings"
)

var acqNames = map[string]bool{"QueryCtx": true, "QueryContext": true, "Queryx": true, "QueryxContext": true}
var askNames = map[string]bool{"ExecCtx": true, "ExecContext": true, "Exec": true, "Conn": true, "Begin": true}

var (
	queriesDecl = map[*ast.FuncDecl]bool{}
	typeDecls   = map[string]map[string]*typeInfo{} // package dir -> type name
)

type typeInfo struct {
	ctx   *fileCtx
	iface *ast.InterfaceType
	st    *ast.StructType
}

// the declaration of the type an expression names, seen from a file (its package, its imports of reader packages)
func lookupType(ctx *fileCtx, t ast.Expr) *typeInfo {
	if ctx == nil {
		return nil
	}
	for {
		switch x := t.(type) {
		case *ast.StarExpr:
			t = x.X
		case *ast.IndexExpr:
			t = x.X
		case *ast.IndexListExpr:
			t = x.X
		case *ast.ParenExpr:
			t = x.X
		case *ast.SelectorExpr:
			if id, ok := x.X.(*ast.Ident); ok {
				return typeDecls[ctx.imports[id.Name]][x.Sel.Name]
			}
			return nil
		case *ast.Ident:
			return typeDecls[ctx.dir][x.Name]
		default:
			return nil
		}
	}
}

func baseTypeName(t ast.Expr) string {
	for {
		switch x := t.(type) {
		case *ast.StarExpr:
			t = x.X
		case *ast.IndexExpr:
			t = x.X
		case *ast.IndexListExpr:
			t = x.X
		case *ast.ParenExpr:
			t = x.X
		case *ast.SelectorExpr:
			return x.Sel.Name
		case *ast.Ident:
			return x.Name
		default:
			return ""
		}
	}
}

func collectTypes(files []*ast.File, ctxs []*fileCtx) {
	for fi, f := range files {
		ctx := ctxs[fi]
		if typeDecls[ctx.dir] == nil {
			typeDecls[ctx.dir] = map[string]*typeInfo{}
		}
		for _, dc := range f.Decls {
			gd, ok := dc.(*ast.GenDecl)
			if !ok || gd.Tok != token.TYPE {
				continue
			}
			for _, sp := range gd.Specs {
				ts := sp.(*ast.TypeSpec)
				switch t := ts.Type.(type) {
				case *ast.InterfaceType:
					typeDecls[ctx.dir][ts.Name.Name] = &typeInfo{ctx: ctx, iface: t}
				case *ast.StructType:
					typeDecls[ctx.dir][ts.Name.Name] = &typeInfo{ctx: ctx, st: t}
				}
			}
		}
	}
}

type shape struct {
	params, results int
	chans           string
}

func shapeOf(ft *ast.FuncType) shape {
	s := shape{}
	count := func(fl *ast.FieldList, chans bool) int {
		n := 0
		if fl == nil {
			return 0
		}
		for _, f := range fl.List {
			k := len(f.Names)
			if k == 0 {
				k = 1
			}
			for i := 0; i < k; i++ {
				if chans {
					if _, ok := f.Type.(*ast.ChanType); ok {
						s.chans += "c"
					} else {
						s.chans += "."
					}
				}
				n++
			}
		}
		return n
	}
	s.params = count(ft.Params, false)
	s.results = count(ft.Results, true)
	return s
}

func returnsChan(fd *ast.FuncDecl) bool { return strings.Contains(shapeOf(fd.Type).chans, "c") }

// the type written down for an identifier of the unit's declaration: receiver, parameter, x := &T{} / T{} / new(T), var x T
func typeOfIdent(fd *ast.FuncDecl, name string) ast.Expr {
	var res ast.Expr
	look := func(fl *ast.FieldList) {
		if fl == nil {
			return
		}
		for _, f := range fl.List {
			for _, n := range f.Names {
				if n.Name == name {
					res = f.Type
				}
			}
		}
	}
	look(fd.Recv)
	look(fd.Type.Params)
	if res != nil {
		return res
	}
	ast.Inspect(fd.Body, func(n ast.Node) bool {
		switch x := n.(type) {
		case *ast.FuncLit:
			look(x.Type.Params)
		case *ast.AssignStmt:
			if len(x.Lhs) == len(x.Rhs) {
				for i := range x.Lhs {
					if id, ok := x.Lhs[i].(*ast.Ident); ok && id.Name == name {
						r := x.Rhs[i]
						if u, ok := r.(*ast.UnaryExpr); ok && u.Op == token.AND {
							r = u.X
						}
						if cl, ok := r.(*ast.CompositeLit); ok && cl.Type != nil {
							res = cl.Type
						}
						if c, ok := r.(*ast.CallExpr); ok {
							if f, ok := c.Fun.(*ast.Ident); ok && f.Name == "new" && len(c.Args) == 1 {
								res = c.Args[0]
							}
						}
					}
				}
			}
		case *ast.ValueSpec:
			for _, n := range x.Names {
				if n.Name == name && x.Type != nil {
					res = x.Type
				}
			}
		}
		return true
	})
	return res
}

// the type expression written down for an expression of the unit, and the file context in which to read it:
// identifiers (receiver, parameters, x := <expr>, var x T, for _, x := range <slice>), recv.field, &T{..} / T{..} / new(T),
// and calls resolved with certainty (the first result type of the callee)
func typeExprOf(fd *ast.FuncDecl, e ast.Expr, depth int) (ast.Expr, *fileCtx) {
	ctx := declCtx[fd]
	if depth > 4 || ctx == nil {
		return nil, nil
	}
	switch x := e.(type) {
	case *ast.ParenExpr:
		return typeExprOf(fd, x.X, depth+1)
	case *ast.UnaryExpr:
		if x.Op == token.AND {
			return typeExprOf(fd, x.X, depth+1)
		}
	case *ast.StarExpr:
		return typeExprOf(fd, x.X, depth+1)
	case *ast.CompositeLit:
		if x.Type != nil {
			return x.Type, ctx
		}
	case *ast.CallExpr:
		if f, ok := x.Fun.(*ast.Ident); ok && f.Name == "new" && len(x.Args) == 1 {
			return x.Args[0], ctx
		}
		save := curCtx
		curCtx = ctx
		ds, certain := resolveCall(x)
		curCtx = save
		if !certain {
			ds, certain = connResolveD(fd, x, depth+1)
		}
		if certain && len(ds) == 1 && ds[0].Type.Results != nil && len(ds[0].Type.Results.List) > 0 {
			return ds[0].Type.Results.List[0].Type, declCtx[ds[0]]
		}
	case *ast.SelectorExpr:
		if te, tctx := typeExprOf(fd, x.X, depth+1); te != nil {
			if rt := lookupType(tctx, te); rt != nil && rt.st != nil {
				for _, f := range rt.st.Fields.List {
					for _, n := range f.Names {
						if n.Name == x.Sel.Name {
							return f.Type, rt.ctx
						}
					}
				}
			}
		}
	case *ast.Ident:
		if t := typeOfIdent(fd, x.Name); t != nil {
			return t, ctx
		}
		var res ast.Expr
		var rctx *fileCtx
		ast.Inspect(fd.Body, func(n ast.Node) bool {
			switch y := n.(type) {
			case *ast.AssignStmt:
				for i := range y.Lhs {
					if id, ok := y.Lhs[i].(*ast.Ident); ok && id.Name == x.Name && res == nil {
						if len(y.Lhs) == len(y.Rhs) {
							res, rctx = typeExprOf(fd, y.Rhs[i], depth+1)
						} else if i == 0 && len(y.Rhs) == 1 {
							res, rctx = typeExprOf(fd, y.Rhs[0], depth+1)
						}
					}
				}
			case *ast.RangeStmt:
				if id, ok := y.Value.(*ast.Ident); ok && id.Name == x.Name && res == nil {
					if te, tctx := typeExprOf(fd, y.X, depth+1); te != nil {
						switch a := te.(type) {
						case *ast.ArrayType:
							res, rctx = a.Elt, tctx
						case *ast.Ellipsis:
							res, rctx = a.Elt, tctx
						}
					}
				}
			}
			return true
		})
		return res, rctx
	}
	return nil, nil
}

// candidates of a call; exact = resolved with certainty or by the receiver's written type
func connResolve(fd *ast.FuncDecl, call *ast.CallExpr) ([]*ast.FuncDecl, bool) {
	return connResolveD(fd, call, 0)
}

func connResolveD(fd *ast.FuncDecl, call *ast.CallExpr, depth int) ([]*ast.FuncDecl, bool) {
	ds, certain := resolveCall(call)
	if certain {
		return ds, true
	}
	// by name: only methods that take this many arguments
	var fit []*ast.FuncDecl
	for _, d := range ds {
		np, variadic := 0, false
		for _, f := range d.Type.Params.List {
			k := len(f.Names)
			if k == 0 {
				k = 1
			}
			np += k
			if _, ok := f.Type.(*ast.Ellipsis); ok {
				variadic = true
			}
		}
		if np == len(call.Args) || (variadic && len(call.Args) >= np-1) || call.Ellipsis != token.NoPos {
			fit = append(fit, d)
		}
	}
	ds = fit
	sel, ok := call.Fun.(*ast.SelectorExpr)
	if !ok || fd == nil {
		return ds, false
	}
	var ti *typeInfo
	if te, tctx := typeExprOf(fd, sel.X, depth+1); te != nil {
		ti = lookupType(tctx, te)
	}
	if ti == nil {
		return ds, false
	}
	if ti.iface != nil {
		for _, m := range ti.iface.Methods.List {
			ft, ok := m.Type.(*ast.FuncType)
			if !ok {
				continue
			}
			for _, n := range m.Names {
				if n.Name == sel.Sel.Name {
					want := shapeOf(ft)
					var res []*ast.FuncDecl
					for _, d := range ds {
						if shapeOf(d.Type) == want {
							res = append(res, d)
						}
					}
					return res, true
				}
			}
		}
		return ds, false
	}
	var res []*ast.FuncDecl
	for _, d := range ds {
		if d.Recv != nil && len(d.Recv.List) > 0 && declCtx[d] != nil && declCtx[d].dir == ti.ctx.dir && lookupType(declCtx[d], d.Recv.List[0].Type) == ti {
			res = append(res, d)
		}
	}
	return res, true
}

func anyQueries(ds []*ast.FuncDecl) bool {
	for _, d := range ds {
		if queriesDecl[d] {
			return true
		}
	}
	return false
}

// does the call ask the pool for a connection (directly or through a callee)?
func callAsks(fd *ast.FuncDecl, call *ast.CallExpr) bool {
	if sel, ok := call.Fun.(*ast.SelectorExpr); ok && (acqNames[sel.Sel.Name] || askNames[sel.Sel.Name]) {
		// url.Values / fiber ctx .Query(..) are not in the lists; ExecCtx etc. on anything are
		return true
	}
	ds, _ := connResolve(fd, call)
	return anyQueries(ds)
}

func callLends(fd *ast.FuncDecl, call *ast.CallExpr) bool {
	ds, _ := connResolve(fd, call)
	for _, d := range ds {
		if queriesDecl[d] && returnsChan(d) {
			return true
		}
	}
	return false
}

func computeQueries() {
	for changed := true; changed; {
		changed = false
		for d, ctx := range declCtx {
			if queriesDecl[d] {
				continue
			}
			curCtx = ctx
			found := false
			ast.Inspect(d.Body, func(n ast.Node) bool {
				if c, ok := n.(*ast.CallExpr); ok && !found && callAsks(d, c) {
					found = true
				}
				return !found
			})
			if found {
				queriesDecl[d] = true
				changed = true
			}
		}
	}
	curCtx = nil
}

// ---------------------------------------------------------------- builder
type connBuilder struct {
	fd    *ast.FuncDecl
	v     string // the variable
	chanV bool
	ft    *ast.FuncType // the type of the unit (declaration or literal)
	owned bool          // a return statement hands the variable itself to the caller
}

func lastIsError(ft *ast.FuncType) bool {
	if ft == nil || ft.Results == nil || len(ft.Results.List) == 0 {
		return false
	}
	id, ok := ft.Results.List[len(ft.Results.List)-1].Type.(*ast.Ident)
	return ok && id.Name == "error"
}

func typeReturnsChan(ft *ast.FuncType) bool {
	return ft != nil && strings.Contains(shapeOf(ft).chans, "c")
}

// the function types of the units of a declaration, in the order of unitsOf
func unitTypes(fd *ast.FuncDecl) []*ast.FuncType {
	res := []*ast.FuncType{fd.Type}
	ast.Inspect(fd.Body, func(n ast.Node) bool {
		if fl, ok := n.(*ast.FuncLit); ok {
			res = append(res, fl.Type)
		}
		return true
	})
	return res
}

// does the unit register `defer <v>.Close()` (directly or inside a deferred closure)?
func deferredClose(body *ast.BlockStmt, v string) bool {
	found := false
	ast.Inspect(body, func(n ast.Node) bool {
		if _, ok := n.(*ast.FuncLit); ok {
			return false
		}
		d, ok := n.(*ast.DeferStmt)
		if !ok {
			return true
		}
		ast.Inspect(d.Call, func(k ast.Node) bool {
			if c, ok := k.(*ast.CallExpr); ok {
				if sel, ok := c.Fun.(*ast.SelectorExpr); ok && sel.Sel.Name == "Close" && isIdent(sel.X, v) {
					found = true
				}
			}
			return true
		})
		return false
	})
	return found
}

func cseq(parts []string) string {
	var ps []string
	for _, p := range parts {
		if p != "CSkip" && p != "" {
			ps = append(ps, p)
		}
	}
	if len(ps) == 0 {
		return "CSkip"
	}
	res := ps[len(ps)-1]
	for i := len(ps) - 2; i >= 0; i-- {
		res = "(CSeq " + ps[i] + " " + res + ")"
	}
	return res
}

func calt(parts []string) string {
	if len(parts) == 0 {
		return "CSkip"
	}
	res := parts[len(parts)-1]
	for i := len(parts) - 2; i >= 0; i-- {
		res = "(CIf " + parts[i] + " " + res + ")"
	}
	return res
}

func isIdent(e ast.Expr, name string) bool {
	id, ok := e.(*ast.Ident)
	return ok && id.Name == name
}

// the connection events of the calls inside the nodes (function literals are values: not entered), in source order.
// bind = the variable the FIRST result of the outermost call is assigned to ("" = none)
func (b *connBuilder) events(bind string, nodes ...ast.Node) string {
	var evs []string
	for _, n := range nodes {
		if n == nil {
			continue
		}
		var outer *ast.CallExpr
		if c, ok := n.(*ast.CallExpr); ok {
			outer = c
		}
		// arguments are evaluated before the call: post-order
		var walk func(m ast.Node)
		walk = func(m ast.Node) {
			ast.Inspect(m, func(k ast.Node) bool {
				if k == nil {
					return false
				}
				if _, ok := k.(*ast.FuncLit); ok {
					return false
				}
				c, ok := k.(*ast.CallExpr)
				if !ok || k == m {
					return true
				}
				walk(c)
				evs = append(evs, b.callEvent(c, ""))
				return false
			})
		}
		if outer != nil {
			walk(outer)
			evs = append(evs, b.callEvent(outer, bind))
		} else {
			walk(n)
		}
	}
	return cseq(evs)
}

func (b *connBuilder) callEvent(c *ast.CallExpr, bind string) string {
	if sel, ok := c.Fun.(*ast.SelectorExpr); ok {
		if isIdent(sel.X, b.v) {
			// methods of the variable itself: Close releases; Next / Scan / Err / Columns ask for nothing
			if sel.Sel.Name == "Close" && !b.chanV {
				return "CRel"
			}
			return ""
		}
		if acqNames[sel.Sel.Name] {
			if bind == b.v && !b.chanV {
				return "CAcq"
			}
			return "CAsk"
		}
	}
	if !callAsks(b.fd, c) {
		return ""
	}
	if bind == b.v && b.chanV && callLends(b.fd, c) {
		return "CCallL"
	}
	return "CAsk"
}

func mentions(n ast.Node, name string) bool {
	found := false
	ast.Inspect(n, func(k ast.Node) bool {
		if id, ok := k.(*ast.Ident); ok && id.Name == name {
			found = true
		}
		return !found
	})
	return found
}

// `v, err := <statement / lending call>` directly followed by `if err != nil { .. }`: database/sql (and every lending
// function of the reader) returns either the result set / channel or an error, so the error branch runs exactly on the
// refused path, on which the variable holds nothing: (CIf (CSeq CAsk <error branch>) <the acquisition>)
func errCheck(st ast.Stmt) *ast.IfStmt {
	x, ok := st.(*ast.IfStmt)
	if !ok || x.Init != nil || x.Else != nil {
		return nil
	}
	c, ok := x.Cond.(*ast.BinaryExpr)
	if !ok || c.Op != token.NEQ || !isIdent(c.X, "err") || !isIdent(c.Y, "nil") {
		return nil
	}
	return x
}

func (b *connBuilder) list(l []ast.Stmt) string {
	var parts []string
	for i := 0; i < len(l); i++ {
		if a, ok := l[i].(*ast.AssignStmt); ok && i+1 < len(l) && len(a.Rhs) == 1 && firstLhs(a) == b.v && len(a.Lhs) == 2 && isIdent(a.Lhs[1], "err") {
			if ifs := errCheck(l[i+1]); ifs != nil {
				ev := b.stmt(a)
				if strings.HasSuffix(ev, "CAcq") || strings.HasSuffix(ev, "CCallL") || strings.HasSuffix(ev, "CAcq)") || strings.HasSuffix(ev, "CCallL)") {
					kind := "CAcq"
					if b.chanV {
						kind = "CCallL"
					}
					pre := strings.TrimSuffix(strings.TrimSuffix(ev, ")"), kind)
					_ = pre
					// the events of the arguments come first in both branches; the acquisition is the last event of ev
					args := b.events("", argNodes(a.Rhs[0])...)
					parts = append(parts, args, "(CIf "+cseq([]string{"CAsk", b.block(ifs.Body)})+" "+kind+")")
					i++
					continue
				}
			}
		}
		parts = append(parts, b.stmt(l[i]))
	}
	return cseq(parts)
}

func argNodes(e ast.Expr) []ast.Node {
	var ns []ast.Node
	if c, ok := e.(*ast.CallExpr); ok {
		ns = append(ns, c.Fun)
		for _, a := range c.Args {
			ns = append(ns, a)
		}
	}
	return ns
}

func (b *connBuilder) block(bl *ast.BlockStmt) string {
	if bl == nil {
		return "CSkip"
	}
	return b.list(bl.List)
}

func (b *connBuilder) clauses(body *ast.BlockStmt, addSkip bool) string {
	var parts []string
	hasDefault := false
	for _, cl := range body.List {
		switch x := cl.(type) {
		case *ast.CaseClause:
			if x.List == nil {
				hasDefault = true
			}
			var ns []ast.Node
			for _, e := range x.List {
				ns = append(ns, e)
			}
			parts = append(parts, cseq([]string{b.events("", ns...), b.list(x.Body)}))
		case *ast.CommClause:
			if x.Comm == nil {
				hasDefault = true
				parts = append(parts, b.list(x.Body))
			} else {
				parts = append(parts, cseq([]string{b.stmt(x.Comm), b.list(x.Body)}))
			}
		}
	}
	if !hasDefault && addSkip {
		parts = append(parts, "CSkip")
	}
	return calt(parts)
}

func firstLhs(a *ast.AssignStmt) string {
	if len(a.Lhs) > 0 {
		if id, ok := a.Lhs[0].(*ast.Ident); ok {
			return id.Name
		}
	}
	return ""
}

func (b *connBuilder) stmt(st ast.Stmt) string {
	switch x := st.(type) {
	case nil:
		return "CSkip"
	case *ast.AssignStmt:
		if len(x.Rhs) == 1 {
			return b.events(firstLhs(x), x.Rhs[0])
		}
		var ns []ast.Node
		for _, e := range x.Rhs {
			ns = append(ns, e)
		}
		return b.events("", ns...)
	case *ast.ExprStmt:
		return b.events("", x.X)
	case *ast.DeferStmt:
		// acts when the function is left; its arguments are evaluated now
		var ns []ast.Node
		for _, a := range x.Call.Args {
			ns = append(ns, a)
		}
		return cseq([]string{b.events("", ns...), "COther"})
	case *ast.GoStmt:
		var ns []ast.Node
		for _, a := range x.Call.Args {
			ns = append(ns, a)
		}
		ev := b.events("", ns...)
		if mentions(x.Call, b.v) && !b.chanV {
			return cseq([]string{ev, "CHand"})
		}
		return cseq([]string{ev, "COther"})
	case *ast.ReturnStmt:
		var ns []ast.Node
		for _, a := range x.Results {
			ns = append(ns, a)
		}
		parts := []string{b.events("", ns...)}
		for _, r := range x.Results {
			if isIdent(r, b.v) {
				// the variable itself goes to the caller: its flows have the call as a statement / lending call of their own
				b.owned = true
				if !b.chanV {
					parts = append(parts, "CHand")
				}
			}
		}
		if lastIsError(b.ft) && len(x.Results) > 0 && !isIdent(x.Results[len(x.Results)-1], "nil") {
			parts = append(parts, "CGiveUp")
		}
		parts = append(parts, "CReturn")
		return cseq(parts)
	case *ast.BranchStmt:
		if x.Label == nil && x.Tok == token.BREAK {
			return "CBreak"
		}
		if x.Label == nil && x.Tok == token.CONTINUE {
			return "CContinue"
		}
		return "CJump"
	case *ast.BlockStmt:
		return b.block(x)
	case *ast.LabeledStmt:
		return b.stmt(x.Stmt)
	case *ast.IfStmt:
		els := "CSkip"
		if x.Else != nil {
			els = b.stmt(x.Else)
		}
		return cseq([]string{b.stmt(x.Init), b.events("", x.Cond), "(CIf " + b.block(x.Body) + " " + els + ")"})
	case *ast.ForStmt:
		kind := "LPlain"
		condEv := ""
		if x.Cond != nil {
			if c, ok := x.Cond.(*ast.CallExpr); ok && !b.chanV {
				if sel, ok := c.Fun.(*ast.SelectorExpr); ok && sel.Sel.Name == "Next" && isIdent(sel.X, b.v) {
					kind = "LRows"
				}
			}
			condEv = b.events("", x.Cond)
		}
		body := cseq([]string{condEv, b.block(x.Body), b.stmt(x.Post)})
		if body == "CSkip" {
			body = "COther"
		}
		return cseq([]string{b.stmt(x.Init), "(CLoop " + kind + " " + body + ")"})
	case *ast.RangeStmt:
		kind := "LPlain"
		if b.chanV && isIdent(x.X, b.v) {
			kind = "LDrain"
		}
		body := b.block(x.Body)
		if body == "CSkip" {
			body = "COther"
		}
		return cseq([]string{b.events("", x.X), "(CLoop " + kind + " " + body + ")"})
	case *ast.SwitchStmt:
		var tag ast.Node
		if x.Tag != nil {
			tag = x.Tag
		}
		return cseq([]string{b.stmt(x.Init), b.events("", tag), "(CSwitch " + b.clauses(x.Body, true) + ")"})
	case *ast.TypeSwitchStmt:
		return cseq([]string{b.stmt(x.Init), b.stmt(x.Assign), "(CSwitch " + b.clauses(x.Body, true) + ")"})
	case *ast.SelectStmt:
		return "(CSwitch " + b.clauses(x.Body, false) + ")"
	case *ast.DeclStmt:
		var ns []ast.Node
		if gd, ok := x.Decl.(*ast.GenDecl); ok {
			for _, sp := range gd.Specs {
				if vs, ok := sp.(*ast.ValueSpec); ok {
					for _, v := range vs.Values {
						ns = append(ns, v)
					}
				}
			}
		}
		return b.events("", ns...)
	case *ast.SendStmt:
		return b.events("", x.Chan, x.Value)
	case *ast.IncDecStmt, *ast.EmptyStmt:
		return "CSkip"
	}
	return "COther"
}

type connFlow struct {
	file, fn, v, kind, body string
	unit, line              int
	deferred, retChan       bool
}
type qSite struct {
	file, fn string
	bound    bool
	line     int
}

// the variables of a unit (nested literals not entered): result sets and channels of lending calls
func connVars(fd *ast.FuncDecl, body *ast.BlockStmt, rel string, sites *[]qSite, untracked *[][2]string, fset *token.FileSet) (rows, chans []string) {
	seenR, seenC := map[string]bool{}, map[string]bool{}
	bound := map[*ast.CallExpr]string{}
	returned := map[*ast.CallExpr]bool{}
	var insp func(n ast.Node) bool
	insp = func(n ast.Node) bool {
		switch x := n.(type) {
		case *ast.FuncLit:
			return false
		case *ast.AssignStmt:
			if len(x.Rhs) == 1 {
				if c, ok := x.Rhs[0].(*ast.CallExpr); ok {
					if v := firstLhs(x); v != "" && v != "_" {
						bound[c] = v
					}
				}
			}
		case *ast.ReturnStmt:
			for _, r := range x.Results {
				if c, ok := r.(*ast.CallExpr); ok {
					returned[c] = true
				}
			}
		case *ast.CallExpr:
			if sel, ok := x.Fun.(*ast.SelectorExpr); ok && acqNames[sel.Sel.Name] {
				v := bound[x]
				*sites = append(*sites, qSite{rel, recvName(fd), v != "", fset.Position(x.Pos()).Line})
				if v != "" && !seenR[v] {
					seenR[v] = true
					rows = append(rows, v)
				}
			} else if callLends(fd, x) {
				v := bound[x]
				if v != "" {
					if !seenC[v] {
						seenC[v] = true
						chans = append(chans, v)
					}
				} else if !returned[x] {
					*untracked = append(*untracked, [2]string{rel, recvName(fd)})
				}
			}
		}
		return true
	}
	ast.Inspect(body, insp)
	return
}

func writeConnFlows(b *strings.Builder, fset *token.FileSet, root string, files []string, parsed map[string]*ast.File, ctxOf map[string]*fileCtx, rel func(string) string) {
	var fl []*ast.File
	var cl []*fileCtx
	for _, p := range files {
		fl = append(fl, parsed[p])
		cl = append(cl, ctxOf[p])
	}
	collectTypes(fl, cl)
	computeQueries()
	var flows []connFlow
	var sites []qSite
	var untracked [][2]string
	for _, p := range files {
		curCtx = ctxOf[p]
		for _, dc := range parsed[p].Decls {
			fd, ok := dc.(*ast.FuncDecl)
			if !ok || fd.Body == nil {
				continue
			}
			uts := unitTypes(fd)
			for i, u := range unitsOf(fd) {
				rows, chans := connVars(fd, u, rel(p), &sites, &untracked, fset)
				for _, v := range rows {
					cb := &connBuilder{fd: fd, v: v, ft: uts[i]}
					body := cb.block(u)
					flows = append(flows, connFlow{rel(p), recvName(fd), v, "CKRows", body, i, fset.Position(u.Pos()).Line, deferredClose(u, v), typeReturnsChan(uts[i]) || cb.owned})
				}
				for _, v := range chans {
					cb := &connBuilder{fd: fd, v: v, chanV: true, ft: uts[i]}
					body := cb.block(u)
					flows = append(flows, connFlow{rel(p), recvName(fd), v, "CKChan", body, i, fset.Position(u.Pos()).Line, false, typeReturnsChan(uts[i]) || cb.owned})
				}
			}
		}
	}
	curCtx = nil
	nq := 0
	var qnames []string
	for d := range queriesDecl {
		nq++
		qnames = append(qnames, recvName(d))
	}
	sort.Strings(qnames)
	fmt.Fprintf(b, "\n(* connection flows (model/ReadConn.v): %d functions of the reader may issue a statement (least fixpoint over the call graph) *)\n", nq)
	fmt.Fprintf(b, "Definition reader_may_query_count : nat := %d.\n", nq)
	b.WriteString("Definition reader_conn_flows : list cflow := [\n")
	for i, f := range flows {
		sep := ";"
		if i == len(flows)-1 {
			sep = ""
		}
		fmt.Fprintf(b, "  {| cf_file := %q; cf_func := %q; cf_unit := %d; cf_var := %q; cf_kind := %s; cf_deferred_close := %s; cf_returns_chan := %s;\n     cf_body := %s |}%s (* line %d *)\n",
			f.file, f.fn, f.unit, f.v, f.kind, bstr(f.deferred), bstr(f.retChan), f.body, sep, f.line)
	}
	b.WriteString("].\n\n(* every statement site: a call named QueryCtx / QueryContext / Queryx; bound = its result set goes into a variable that has a flow *)\n")
	b.WriteString("Definition reader_query_sites : list qsite := [\n")
	for i, s := range sites {
		sep := ";"
		if i == len(sites)-1 {
			sep = ""
		}
		fmt.Fprintf(b, "  {| q_file := %q; q_func := %q; q_bound := %s |}%s (* line %d *)\n", s.file, s.fn, bstr(s.bound), sep, s.line)
	}
	b.WriteString("].\n\n(* lending calls whose channel is neither bound to a variable nor returned as it is *)\n")
	b.WriteString("Definition reader_untracked_lends : list (string * string) := [")
	for i, u := range untracked {
		if i > 0 {
			b.WriteString("; ")
		}
		fmt.Fprintf(b, "(%q, %q)", u[0], u[1])
	}
	b.WriteString("].\n")
}
