// goinv_reader lists every `go` statement under <repo>/reader (non-test files) with its enclosing
// function, whether the spawned body starts by deferring an EFFECTIVE recover, and a census of the
// operations of the body that can fault. Output: a Coq file (coq/gen/GenGoroutinesReader.v).
//
// recover() stops a panic only when it is called directly by the deferred function:
//
//	defer shared.TamePanic(out)                  -> RecDirect   (TamePanic/tamePanic call recover themselves)
//	defer func() { if r := recover(); ... }()    -> RecDirect
//	defer func() { shared.TamePanic(out) }()     -> RecIndirect (recover() returns nil there: NOT recovered)
//	nothing                                      -> RecNone
package main

import (
	"fmt"
	"go/ast"
	"go/parser"
	"go/printer"
	"go/token"
	"os"
	"path/filepath"
	"sort"
	"strings"
)

var recoverers = map[string]bool{"TamePanic": true, "tamePanic": true}

type entry struct {
	file, fn                string
	ord, line               int
	target                  string // "" for a function literal, else the called name
	rec                     string
	leading                 bool
	div, idx, slc, mk, asrt int
	ch                      chanOps
}

func calleeName(e ast.Expr) string {
	switch x := e.(type) {
	case *ast.Ident:
		return x.Name
	case *ast.SelectorExpr:
		return x.Sel.Name
	}
	return ""
}

// does body (not descending into nested function literals) call fn-names satisfying pred?
func callsDirect(body *ast.BlockStmt, pred func(string) bool) bool {
	found := false
	ast.Inspect(body, func(n ast.Node) bool {
		if _, ok := n.(*ast.FuncLit); ok {
			return false
		}
		if c, ok := n.(*ast.CallExpr); ok {
			if pred(calleeName(c.Fun)) {
				found = true
			}
		}
		return true
	})
	return found
}

func recStatus(body *ast.BlockStmt) (string, bool) {
	leading := true
	for _, st := range body.List {
		switch s := st.(type) {
		case *ast.DeferStmt:
			if fl, ok := s.Call.Fun.(*ast.FuncLit); ok {
				if callsDirect(fl.Body, func(n string) bool { return n == "recover" }) {
					return "RecDirect", leading
				}
				if callsDirect(fl.Body, func(n string) bool { return recoverers[n] }) {
					return "RecIndirect", leading
				}
			} else if recoverers[calleeName(s.Call.Fun)] {
				return "RecDirect", leading
			}
		case *ast.AssignStmt:
			for _, r := range s.Rhs {
				if _, ok := r.(*ast.FuncLit); !ok {
					leading = false
				}
			}
		case *ast.DeclStmt:
		default:
			leading = false
		}
	}
	return "RecNone", false
}

// census counts the fault-capable operations of body and, transitively, of the functions it calls by a plain
// identifier: closures bound in the enclosing function (locals) and package-level functions of the same directory.
func census(body *ast.BlockStmt, e *entry, locals map[string]*ast.FuncLit, pkg map[string]*ast.FuncDecl) {
	seen := map[ast.Node]bool{}
	var visit func(b *ast.BlockStmt)
	visit = func(b *ast.BlockStmt) {
		if b == nil || seen[b] {
			return
		}
		seen[b] = true
		twoValue := map[ast.Expr]bool{}
		ast.Inspect(b, func(n ast.Node) bool {
			if a, ok := n.(*ast.AssignStmt); ok && len(a.Lhs) == 2 && len(a.Rhs) == 1 {
				twoValue[a.Rhs[0]] = true // v, ok := x.(T) / m[k]
			}
			return true
		})
		ast.Inspect(b, func(n ast.Node) bool {
			switch x := n.(type) {
			case *ast.BinaryExpr:
				if x.Op == token.QUO || x.Op == token.REM {
					e.div++
				}
			case *ast.AssignStmt:
				if x.Tok == token.QUO_ASSIGN || x.Tok == token.REM_ASSIGN {
					e.div++
				}
			case *ast.IndexExpr:
				if !twoValue[x] {
					e.idx++
				}
			case *ast.SliceExpr:
				e.slc++
			case *ast.TypeAssertExpr:
				if !twoValue[x] && x.Type != nil {
					e.asrt++
				}
			case *ast.CallExpr:
				if id, ok := x.Fun.(*ast.Ident); ok {
					if id.Name == "make" && len(x.Args) >= 2 {
						if _, lit := x.Args[1].(*ast.BasicLit); !lit {
							e.mk++
						}
					}
					if fl := locals[id.Name]; fl != nil {
						visit(fl.Body)
					} else if fd := pkg[id.Name]; fd != nil && fd.Recv == nil {
						visit(fd.Body)
					}
				}
			}
			return true
		})
	}
	visit(body)
}

type loopEntry struct {
	file, fn  string
	ord, line int
	kind, x   string
	early     bool
}

// does the loop body leave the loop before its channel is closed: a return, a labelled break/goto, or an
// unlabelled break that targets this loop (not one inside a nested for/switch/select); closures are not entered
func earlyExit(body *ast.BlockStmt) bool {
	found := false
	var walk func(n ast.Node, depth int)
	walk = func(n ast.Node, depth int) {
		if n == nil || found {
			return
		}
		switch x := n.(type) {
		case *ast.FuncLit:
			return
		case *ast.ReturnStmt:
			found = true
			return
		case *ast.BranchStmt:
			if x.Tok == token.GOTO || (x.Tok == token.BREAK && (x.Label != nil || depth == 0)) {
				found = true
			}
			return
		case *ast.ForStmt:
			walk(x.Body, depth+1)
			return
		case *ast.RangeStmt:
			walk(x.Body, depth+1)
			return
		case *ast.SwitchStmt:
			walk(x.Body, depth+1)
			return
		case *ast.TypeSwitchStmt:
			walk(x.Body, depth+1)
			return
		case *ast.SelectStmt:
			walk(x.Body, depth+1)
			return
		}
		ast.Inspect(n, func(c ast.Node) bool {
			if c == n || c == nil {
				return true
			}
			walk(c, depth)
			return false
		})
	}
	walk(body, 0)
	return found
}

func hasReceive(body *ast.BlockStmt) bool {
	found := false
	ast.Inspect(body, func(n ast.Node) bool {
		if _, ok := n.(*ast.FuncLit); ok {
			return false
		}
		if u, ok := n.(*ast.UnaryExpr); ok && u.Op == token.ARROW {
			found = true
		}
		return true
	})
	return found
}

func exprText(fset *token.FileSet, e ast.Expr) string {
	var b strings.Builder
	printer.Fprint(&b, fset, e)
	t := strings.Join(strings.Fields(b.String()), " ")
	if len(t) > 60 {
		t = t[:60]
	}
	return strings.ReplaceAll(t, "\"", "'")
}

// ---- mutex inventory: every X.Lock() / X.RLock() statement and how the lock is given back
type lockEntry struct {
	file, fn, recv, kind, status string
	ord, line                    int
}

// lockCall: stmt is `X.<name>()`; returns the text of X
func lockCall(fset *token.FileSet, st ast.Stmt, names ...string) (string, string, bool) {
	var call *ast.CallExpr
	switch x := st.(type) {
	case *ast.ExprStmt:
		call, _ = x.X.(*ast.CallExpr)
	case *ast.DeferStmt:
		call = x.Call
	}
	if call == nil || len(call.Args) != 0 {
		return "", "", false
	}
	sel, ok := call.Fun.(*ast.SelectorExpr)
	if !ok {
		return "", "", false
	}
	for _, n := range names {
		if sel.Sel.Name == n {
			return exprText(fset, sel.X), n, true
		}
	}
	return "", "", false
}

// between a Lock and its Unlock (same statement list): every way out must give the lock back first.
// returns false when some return (or a break/continue/goto at this level) leaves with the lock held.
func pathsUnlock(fset *token.FileSet, stmts []ast.Stmt, recv, unlock string) bool {
	ok := true
	var walkList func(list []ast.Stmt, depth int)
	var walk func(n ast.Node, depth int)
	walkList = func(list []ast.Stmt, depth int) {
		for i, st := range list {
			switch x := st.(type) {
			case *ast.ReturnStmt:
				prev := false
				if i > 0 {
					if _, isDefer := list[i-1].(*ast.DeferStmt); !isDefer {
						if r, _, is := lockCall(fset, list[i-1], unlock); is && r == recv {
							prev = true
						}
					}
				}
				if !prev {
					ok = false
				}
			case *ast.BranchStmt:
				if x.Tok == token.GOTO || x.Label != nil || depth == 0 {
					ok = false
				}
			default:
				walk(st, depth)
			}
		}
	}
	walk = func(n ast.Node, depth int) {
		switch x := n.(type) {
		case nil:
		case *ast.FuncLit:
		case *ast.BlockStmt:
			walkList(x.List, depth)
		case *ast.IfStmt:
			walk(x.Body, depth)
			if x.Else != nil {
				walk(x.Else, depth)
			}
		case *ast.ForStmt:
			walk(x.Body, depth+1)
		case *ast.RangeStmt:
			walk(x.Body, depth+1)
		case *ast.SwitchStmt:
			walk(x.Body, depth+1)
		case *ast.TypeSwitchStmt:
			walk(x.Body, depth+1)
		case *ast.SelectStmt:
			walk(x.Body, depth+1)
		case *ast.CaseClause:
			walkList(x.Body, depth)
		case *ast.CommClause:
			walkList(x.Body, depth)
		case *ast.LabeledStmt:
			walk(x.Stmt, depth)
		}
	}
	walkList(stmts, 0)
	return ok
}

func lockInventory(fset *token.FileSet, rel string, fd *ast.FuncDecl, out *[]lockEntry) {
	ord := 0
	var visit func(list []ast.Stmt)
	visit = func(list []ast.Stmt) {
		for i, st := range list {
			if _, isDefer := st.(*ast.DeferStmt); !isDefer {
				if recv, kind, is := lockCall(fset, st, "Lock", "RLock"); is {
					unlock := "Unlock"
					if kind == "RLock" {
						unlock = "RUnlock"
					}
					e := lockEntry{file: rel, fn: recvName(fd), recv: recv, kind: kind, ord: ord, line: fset.Position(st.Pos()).Line, status: "MUnmatched"}
					ord++
					for j := i + 1; j < len(list); j++ {
						r, _, isU := lockCall(fset, list[j], unlock)
						if !isU || r != recv {
							continue
						}
						if _, isDefer := list[j].(*ast.DeferStmt); isDefer {
							if j == i+1 {
								e.status = "MDeferred"
							} else if pathsUnlock(fset, list[i+1:j], recv, unlock) {
								e.status = "MDeferred"
							} else {
								e.status = "MLeaky"
							}
						} else if pathsUnlock(fset, list[i+1:j], recv, unlock) {
							e.status = "MPaired"
						} else {
							e.status = "MLeaky"
						}
						break
					}
					*out = append(*out, e)
				}
			}
			// nested statement lists (and closures: they are functions of their own as far as locking goes)
			ast.Inspect(st, func(n ast.Node) bool {
				switch x := n.(type) {
				case *ast.BlockStmt:
					visit(x.List)
					return false
				case *ast.CaseClause:
					visit(x.Body)
					return false
				case *ast.CommClause:
					visit(x.Body)
					return false
				}
				return true
			})
		}
	}
	visit(fd.Body.List)
}

func recvName(fd *ast.FuncDecl) string {
	if fd.Recv == nil || len(fd.Recv.List) == 0 {
		return fd.Name.Name
	}
	t := fd.Recv.List[0].Type
	star := ""
	if s, ok := t.(*ast.StarExpr); ok {
		star = "*"
		t = s.X
	}
	if ix, ok := t.(*ast.IndexExpr); ok {
		t = ix.X
	}
	name := "?"
	if id, ok := t.(*ast.Ident); ok {
		name = id.Name
	}
	return "(" + star + name + ")." + fd.Name.Name
}


// ---------------------------------------------------------------- control-flow model (coq/model/ReaderFlow.v)
// A unit (a function declaration body, or a function literal) is rendered as a `stmt` with respect to ONE resource:
// a mutex (X.Lock ... X.Unlock / defer X.Unlock) or the channel a goroutine sends on (close(ch) / defer close(ch)).
type resource struct {
	kind string // "Lock", "RLock" or "close"
	text string // receiver / channel expression text
}

var safeCalls = map[string]bool{"len": true, "cap": true, "append": true, "new": true, "delete": true, "Now": true, "Sprintf": true, "Println": true,
	"Error": true, "Errorf": true, "AddInt32": true, "StoreInt32": true, "LoadInt32": true, "CompareAndSwapInt32": true, "Sleep": true, "NewTicker": true, "Stop": true}

// ---- callee closure: may a call to a function of the reader packages panic (outside a recover scope)?
// Resolution is by name, without types: a plain identifier that names a package-level function of the current package,
// or pkg.F where pkg is an import of a reader package, is resolved with certainty and judged by the callee's body alone
// (least fixpoint over the call graph; a callee whose body starts with an effective recover does not propagate). Any
// other call (a method, an external function, a closure variable) may panic unless its name is on the safe list AND no
// method of the reader packages with that name can panic.
type fileCtx struct {
	dir     string
	imports map[string]string // identifier -> directory of a reader package
}

var (
	curCtx        *fileCtx
	pkgFuncs      = map[string]map[string]*ast.FuncDecl{} // dir -> package-level function
	methodsByName = map[string][]*ast.FuncDecl{}
	panicsDecl    = map[*ast.FuncDecl]bool{}
	declCtx       = map[*ast.FuncDecl]*fileCtx{}
	closureStats  struct{ certain, certainSafe, safeListedButReaderPanics int }
	countStats    bool
)

func resolveCall(call *ast.CallExpr) ([]*ast.FuncDecl, bool) {
	if curCtx == nil {
		return nil, false
	}
	switch f := call.Fun.(type) {
	case *ast.Ident:
		if d, ok := pkgFuncs[curCtx.dir][f.Name]; ok {
			return []*ast.FuncDecl{d}, true
		}
	case *ast.SelectorExpr:
		if id, ok := f.X.(*ast.Ident); ok && id.Obj == nil {
			if dir, ok := curCtx.imports[id.Name]; ok {
				if d, ok := pkgFuncs[dir][f.Sel.Name]; ok {
					return []*ast.FuncDecl{d}, true
				}
				return nil, false
			}
		}
		return methodsByName[f.Sel.Name], false
	}
	return nil, false
}

func anyPanics(ds []*ast.FuncDecl) bool {
	for _, d := range ds {
		if panicsDecl[d] {
			return true
		}
	}
	return false
}

// least fixpoint of "a call to d may panic"
func computeCalleeClosure() {
	for changed := true; changed; {
		changed = false
		for d, ctx := range declCtx {
			if panicsDecl[d] {
				continue
			}
			if st, _ := recStatus(d.Body); st == "RecDirect" {
				continue
			}
			curCtx = ctx
			if mayPanic(d.Body) {
				panicsDecl[d] = true
				changed = true
			}
		}
	}
	curCtx = nil
}

// may the evaluation of n panic? (calls -- see above --, index, slice, dereference, single-value assertion, division,
// send) -- function literals are values: their bodies are not entered
func mayPanic(nodes ...ast.Node) bool {
	found := false
	for _, n := range nodes {
		if n == nil || (isNilNode(n)) {
			continue
		}
		ast.Inspect(n, func(c ast.Node) bool {
			switch x := c.(type) {
			case *ast.FuncLit:
				return false
			case *ast.CallExpr:
				name := calleeName(x.Fun)
				decls, certain := resolveCall(x)
				if certain {
					if countStats {
						closureStats.certain++
					}
					if anyPanics(decls) {
						found = true
					} else if countStats {
						closureStats.certainSafe++
					}
				} else if name == "make" {
					if len(x.Args) >= 2 {
						if _, lit := x.Args[1].(*ast.BasicLit); !lit {
							found = true
						}
					}
				} else if !safeCalls[name] {
					found = true
				} else if anyPanics(decls) {
					if countStats {
						closureStats.safeListedButReaderPanics++
					}
					found = true
				}
			case *ast.IndexExpr, *ast.SliceExpr, *ast.StarExpr, *ast.SendStmt:
				found = true
			case *ast.TypeAssertExpr:
				if x.Type != nil {
					found = true
				}
			case *ast.BinaryExpr:
				if x.Op == token.QUO || x.Op == token.REM {
					found = true
				}
			}
			return true
		})
	}
	return found
}

func isNilNode(n ast.Node) bool {
	switch x := n.(type) {
	case ast.Expr:
		return x == nil
	case ast.Stmt:
		return x == nil
	}
	return false
}

type flowBuilder struct {
	fset *token.FileSet
	res  resource
}

// the call of statement st (expression statement or defer) if it is `X.<name>()` on the resource / close(X)
func (b *flowBuilder) relCall(call *ast.CallExpr) bool {
	if call == nil {
		return false
	}
	if b.res.kind == "close" {
		id, ok := call.Fun.(*ast.Ident)
		return ok && id.Name == "close" && len(call.Args) == 1 && exprText(b.fset, call.Args[0]) == b.res.text
	}
	sel, ok := call.Fun.(*ast.SelectorExpr)
	if !ok || len(call.Args) != 0 {
		return false
	}
	un := "Unlock"
	if b.res.kind == "RLock" {
		un = "RUnlock"
	}
	return sel.Sel.Name == un && exprText(b.fset, sel.X) == b.res.text
}

func (b *flowBuilder) acqCall(call *ast.CallExpr) bool {
	if call == nil || b.res.kind == "close" {
		return false
	}
	sel, ok := call.Fun.(*ast.SelectorExpr)
	return ok && len(call.Args) == 0 && sel.Sel.Name == b.res.kind && exprText(b.fset, sel.X) == b.res.text
}

func bstr(p bool) string {
	if p {
		return "true"
	}
	return "false"
}

func seq(parts []string) string {
	if len(parts) == 0 {
		return "SSkip"
	}
	r := parts[len(parts)-1]
	for i := len(parts) - 2; i >= 0; i-- {
		r = "(SSeq " + parts[i] + " " + r + ")"
	}
	return r
}

func alt(parts []string) string {
	if len(parts) == 0 {
		return "SSkip"
	}
	r := parts[len(parts)-1]
	for i := len(parts) - 2; i >= 0; i-- {
		r = "(SIf " + parts[i] + " " + r + ")"
	}
	return r
}

func other(p bool) string { return "(SOther " + bstr(p) + ")" }

func (b *flowBuilder) list(l []ast.Stmt) string {
	var parts []string
	for _, st := range l {
		parts = append(parts, b.stmt(st))
	}
	return seq(parts)
}

func (b *flowBuilder) block(bl *ast.BlockStmt) string {
	if bl == nil {
		return "SSkip"
	}
	return b.list(bl.List)
}

func (b *flowBuilder) clauses(body *ast.BlockStmt, addSkip bool) string {
	var parts []string
	hasDefault := false
	for _, c := range body.List {
		switch x := c.(type) {
		case *ast.CaseClause:
			if x.List == nil {
				hasDefault = true
			}
			var ns []ast.Node
			for _, e := range x.List {
				ns = append(ns, e)
			}
			parts = append(parts, seq([]string{other(mayPanic(ns...)), b.list(x.Body)}))
		case *ast.CommClause:
			if x.Comm == nil {
				hasDefault = true
				parts = append(parts, b.list(x.Body))
			} else {
				parts = append(parts, seq([]string{other(mayPanic(x.Comm)), b.list(x.Body)}))
			}
		}
	}
	if !hasDefault && addSkip {
		parts = append(parts, "SSkip")
	}
	return alt(parts)
}

func (b *flowBuilder) stmt(st ast.Stmt) string {
	switch x := st.(type) {
	case nil:
		return "SSkip"
	case *ast.ExprStmt:
		if call, ok := x.X.(*ast.CallExpr); ok {
			if b.acqCall(call) {
				return "SAcq"
			}
			if b.relCall(call) {
				return "SRel"
			}
		}
		return other(mayPanic(x.X))
	case *ast.DeferStmt:
		if b.relCall(x.Call) {
			return "SDefer"
		}
		if fl, ok := x.Call.Fun.(*ast.FuncLit); ok {
			found := false
			ast.Inspect(fl.Body, func(n ast.Node) bool {
				if c, ok := n.(*ast.CallExpr); ok && b.relCall(c) {
					found = true
				}
				return true
			})
			if found {
				return "SDefer"
			}
		}
		var ns []ast.Node
		for _, a := range x.Call.Args {
			ns = append(ns, a)
		}
		return other(mayPanic(ns...))
	case *ast.GoStmt:
		var ns []ast.Node
		for _, a := range x.Call.Args {
			ns = append(ns, a)
		}
		return other(mayPanic(ns...))
	case *ast.ReturnStmt:
		var ns []ast.Node
		for _, a := range x.Results {
			ns = append(ns, a)
		}
		return seq([]string{other(mayPanic(ns...)), "SReturn"})
	case *ast.BranchStmt:
		if x.Label == nil && x.Tok == token.BREAK {
			return "SBreak"
		}
		if x.Label == nil && x.Tok == token.CONTINUE {
			return "SContinue"
		}
		return "SJump"
	case *ast.BlockStmt:
		return b.block(x)
	case *ast.LabeledStmt:
		return b.stmt(x.Stmt)
	case *ast.IfStmt:
		els := "SSkip"
		if x.Else != nil {
			els = b.stmt(x.Else)
		}
		return seq([]string{b.stmt(x.Init), other(mayPanic(x.Cond)), "(SIf " + b.block(x.Body) + " " + els + ")"})
	case *ast.ForStmt:
		var cond ast.Node
		if x.Cond != nil {
			cond = x.Cond
		}
		body := seq([]string{other(cond != nil && mayPanic(cond)), b.block(x.Body), b.stmt(x.Post)})
		return seq([]string{b.stmt(x.Init), "(SLoop " + body + ")"})
	case *ast.RangeStmt:
		return seq([]string{other(mayPanic(x.X)), "(SLoop " + b.block(x.Body) + ")"})
	case *ast.SwitchStmt:
		var tag ast.Node
		if x.Tag != nil {
			tag = x.Tag
		}
		return seq([]string{b.stmt(x.Init), other(tag != nil && mayPanic(tag)), "(SSwitch " + b.clauses(x.Body, true) + ")"})
	case *ast.TypeSwitchStmt:
		return seq([]string{b.stmt(x.Init), b.stmt(x.Assign), "(SSwitch " + b.clauses(x.Body, true) + ")"})
	case *ast.SelectStmt:
		return "(SSwitch " + b.clauses(x.Body, false) + ")"
	}
	return other(mayPanic(st))
}

type flowEntry struct {
	file, fn string
	unit     int
	res      resource
	recovers bool
	body     string
	line     int
}

// the function literals of a declaration in source order (unit n = the n-th literal, 1-based; 0 = the declaration itself)
func unitsOf(fd *ast.FuncDecl) []*ast.BlockStmt {
	units := []*ast.BlockStmt{fd.Body}
	ast.Inspect(fd.Body, func(n ast.Node) bool {
		if fl, ok := n.(*ast.FuncLit); ok {
			units = append(units, fl.Body)
		}
		return true
	})
	return units
}

// Lock()/RLock() statements directly in the unit (not in nested literals)
func lockResources(fset *token.FileSet, body *ast.BlockStmt) []resource {
	var res []resource
	seen := map[resource]bool{}
	ast.Inspect(body, func(n ast.Node) bool {
		if _, ok := n.(*ast.FuncLit); ok {
			return false
		}
		if es, ok := n.(*ast.ExprStmt); ok {
			if recv, kind, is := lockCall(fset, es, "Lock", "RLock"); is {
				r := resource{kind, recv}
				if !seen[r] {
					seen[r] = true
					res = append(res, r)
				}
			}
		}
		return true
	})
	return res
}

// channel operations of a goroutine body (nested literals included, they run on the same goroutine unless started by go)
type chanOps struct {
	send, recv, sel, selDone, selDefault, selPlain, rng, cls int
	sendOn                                    []string
}

func chanInventory(fset *token.FileSet, body *ast.BlockStmt, locals map[string]*ast.FuncLit, pkg map[string]*ast.FuncDecl) chanOps {
	var c chanOps
	seen := map[string]bool{}
	inComm := map[ast.Node]bool{}
	visited := map[*ast.BlockStmt]bool{body: true}
	var visit func(b *ast.BlockStmt, direct bool)
	var insp func(n ast.Node) bool
	direct := true
	insp = func(n ast.Node) bool {
		switch x := n.(type) {
		case *ast.GoStmt:
			return false
		case *ast.SelectStmt:
			c.sel++
			done, def := false, false
			for _, cl := range x.Body.List {
				cc := cl.(*ast.CommClause)
				if cc.Comm == nil {
					def = true
					continue
				}
				inComm[cc.Comm] = true
				if strings.Contains(exprTextNode(fset, cc.Comm), ".Done()") {
					done = true
				}
			}
			if done {
				c.selDone++
			}
			if def {
				c.selDefault++
			}
			if !done && !def {
				c.selPlain++
			}
		case *ast.RangeStmt:
			c.rng++
		case *ast.SendStmt:
			if !inComm[x] {
				c.send++
				t := exprText(fset, x.Chan)
				if direct && !seen[t] {
					seen[t] = true
					c.sendOn = append(c.sendOn, t)
				}
			}
		case *ast.UnaryExpr:
			if x.Op == token.ARROW {
				c.recv++
			}
		case *ast.CallExpr:
			if id, ok := x.Fun.(*ast.Ident); ok && id.Name == "close" {
				c.cls++
			}
			// closures of the enclosing function share its channels; functions / methods of the package are followed for the counts
			name := calleeName(x.Fun)
			if _, plain := x.Fun.(*ast.Ident); plain && locals[name] != nil {
				visit(locals[name].Body, direct)
			} else if fd := pkg[name]; fd != nil && name != "TamePanic" {
				visit(fd.Body, false)
			}
		}
		return true
	}
	visit = func(b *ast.BlockStmt, d bool) {
		if b == nil || visited[b] {
			return
		}
		visited[b] = true
		old := direct
		direct = d
		ast.Inspect(b, insp)
		direct = old
	}
	ast.Inspect(body, insp)
	// receives that are the communication of a select clause are not blocking on their own
	for n := range inComm {
		ast.Inspect(n, func(m ast.Node) bool {
			if u, ok := m.(*ast.UnaryExpr); ok && u.Op == token.ARROW {
				c.recv--
			}
			return true
		})
	}
	return c
}

func exprTextNode(fset *token.FileSet, n ast.Node) string {
	var b strings.Builder
	printer.Fprint(&b, fset, n)
	return b.String()
}

func main() {
	repo := os.Getenv("VERIF_REPO")
	if repo == "" {
		repo = "/repo"
	}
	root := filepath.Join(repo, "reader")
	out := os.Args[1]
	fset := token.NewFileSet()
	var files []string
	filepath.Walk(root, func(p string, info os.FileInfo, err error) error {
		if err == nil && !info.IsDir() && strings.HasSuffix(p, ".go") && !strings.HasSuffix(p, "_test.go") {
			files = append(files, p)
		}
		return nil
	})
	sort.Strings(files)
	// package dir -> function name -> decl (for `go x.Method(...)`)
	decls := map[string]map[string]*ast.FuncDecl{}
	parsed := map[string]*ast.File{}
	for _, p := range files {
		f, err := parser.ParseFile(fset, p, nil, 0)
		if err != nil {
			fmt.Fprintln(os.Stderr, "parse error:", err)
			os.Exit(1)
		}
		parsed[p] = f
		d := filepath.Dir(p)
		if decls[d] == nil {
			decls[d] = map[string]*ast.FuncDecl{}
		}
		for _, dc := range f.Decls {
			if fd, ok := dc.(*ast.FuncDecl); ok && fd.Body != nil {
				decls[d][fd.Name.Name] = fd
			}
		}
	}
	// ---- callee closure tables
	dirPkgName := map[string]string{}
	for _, p := range files {
		dirPkgName[filepath.Dir(p)] = parsed[p].Name.Name
	}
	ctxOf := map[string]*fileCtx{}
	for _, p := range files {
		ctx := &fileCtx{dir: filepath.Dir(p), imports: map[string]string{}}
		for _, im := range parsed[p].Imports {
			path := strings.Trim(im.Path.Value, "\"`")
			const pre = "github.com/metrico/qryn/reader"
			if path != pre && !strings.HasPrefix(path, pre+"/") {
				continue
			}
			dir := filepath.Join(root, strings.TrimPrefix(path, pre))
			name := dirPkgName[dir]
			if im.Name != nil {
				name = im.Name.Name
			}
			if name != "" && name != "_" && name != "." {
				ctx.imports[name] = dir
			}
		}
		ctxOf[p] = ctx
		for _, dc := range parsed[p].Decls {
			fd, ok := dc.(*ast.FuncDecl)
			if !ok || fd.Body == nil {
				continue
			}
			declCtx[fd] = ctx
			if fd.Recv == nil {
				if pkgFuncs[ctx.dir] == nil {
					pkgFuncs[ctx.dir] = map[string]*ast.FuncDecl{}
				}
				pkgFuncs[ctx.dir][fd.Name.Name] = fd
			} else {
				methodsByName[fd.Name.Name] = append(methodsByName[fd.Name.Name], fd)
			}
		}
	}
	computeCalleeClosure()
	countStats = true
	var all []entry
	var closeFlows, lockFlows []flowEntry
	for _, p := range files {
		curCtx = ctxOf[p]
		rel, _ := filepath.Rel(root, p)
		for _, dc := range parsed[p].Decls {
			fd, ok := dc.(*ast.FuncDecl)
			if !ok || fd.Body == nil {
				continue
			}
			for i, u := range unitsOf(fd) {
				for _, r := range lockResources(fset, u) {
					fb := &flowBuilder{fset: fset, res: r}
					lockFlows = append(lockFlows, flowEntry{file: rel, fn: recvName(fd), unit: i, res: r, body: fb.block(u), line: fset.Position(u.Pos()).Line})
				}
			}
		}
	}
	for _, p := range files {
		f := parsed[p]
		curCtx = ctxOf[p]
		rel, _ := filepath.Rel(root, p)
		for _, dc := range f.Decls {
			fd, ok := dc.(*ast.FuncDecl)
			if !ok || fd.Body == nil {
				continue
			}
			ord := 0
			locals := map[string]*ast.FuncLit{}
			ast.Inspect(fd.Body, func(n ast.Node) bool {
				if a, ok := n.(*ast.AssignStmt); ok && len(a.Lhs) == len(a.Rhs) {
					for i := range a.Lhs {
						if id, ok := a.Lhs[i].(*ast.Ident); ok {
							if fl, ok := a.Rhs[i].(*ast.FuncLit); ok {
								locals[id.Name] = fl
							}
						}
					}
				}
				return true
			})
			ast.Inspect(fd.Body, func(n ast.Node) bool {
				g, ok := n.(*ast.GoStmt)
				if !ok {
					return true
				}
				e := entry{file: rel, fn: recvName(fd), ord: ord, line: fset.Position(g.Pos()).Line}
				ord++
				var body *ast.BlockStmt
				if fl, ok := g.Call.Fun.(*ast.FuncLit); ok {
					body = fl.Body
				} else {
					e.target = calleeName(g.Call.Fun)
					if td := decls[filepath.Dir(p)][e.target]; td != nil {
						body = td.Body
					}
				}
				if body != nil {
					e.rec, e.leading = recStatus(body)
					census(body, &e, locals, decls[filepath.Dir(p)])
					// go func() { q.f(a, b) }(): the goroutine IS f
					if len(body.List) == 1 {
						if es, ok := body.List[0].(*ast.ExprStmt); ok {
							if call, ok := es.X.(*ast.CallExpr); ok {
								if td := decls[filepath.Dir(p)][calleeName(call.Fun)]; td != nil {
									body = td.Body
								}
							}
						}
					}
					e.ch = chanInventory(fset, body, locals, decls[filepath.Dir(p)])
					unit := 0
					for i, u := range unitsOf(fd) {
						if u == body {
							unit = i
						}
					}
					for _, c := range e.ch.sendOn {
						fb := &flowBuilder{fset: fset, res: resource{"close", c}}
						closeFlows = append(closeFlows, flowEntry{file: rel, fn: recvName(fd), unit: unit, res: fb.res,
							recovers: e.rec == "RecDirect" && e.leading, body: fb.block(body), line: e.line})
					}
				} else {
					e.rec = "RecUnknown"
				}
				all = append(all, e)
				return true
			})
		}
	}
	var loops []loopEntry
	for _, p := range files {
		rel, _ := filepath.Rel(root, p)
		if !strings.HasPrefix(rel, "controller"+string(filepath.Separator)) {
			continue
		}
		for _, dc := range parsed[p].Decls {
			fd, ok := dc.(*ast.FuncDecl)
			if !ok || fd.Body == nil {
				continue
			}
			ord := 0
			ast.Inspect(fd.Body, func(n ast.Node) bool {
				switch x := n.(type) {
				case *ast.RangeStmt:
					loops = append(loops, loopEntry{rel, recvName(fd), ord, fset.Position(x.Pos()).Line, "range", exprText(fset, x.X), earlyExit(x.Body)})
					ord++
				case *ast.ForStmt:
					if hasReceive(x.Body) {
						loops = append(loops, loopEntry{rel, recvName(fd), ord, fset.Position(x.Pos()).Line, "recv", "", earlyExit(x.Body)})
						ord++
					}
				}
				return true
			})
		}
	}
	var locks []lockEntry
	for _, p := range files {
		rel, _ := filepath.Rel(root, p)
		for _, dc := range parsed[p].Decls {
			if fd, ok := dc.(*ast.FuncDecl); ok && fd.Body != nil {
				lockInventory(fset, rel, fd, &locks)
			}
		}
	}
	var b strings.Builder
	b.WriteString("(* GENERATED by translate/gen_goroutines_reader from " + "$VERIF_REPO/reader" + " -- do not edit, never committed *)\n")
	b.WriteString("From Coq Require Import List String ZArith.\nFrom Qryn Require Import model.ReaderGoroutines model.ReaderFlow model.ReadConn.\nImport ListNotations.\nOpen Scope string_scope.\n\n")
	np := 0
	for _, v := range panicsDecl {
		if v {
			np++
		}
	}
	fmt.Fprintf(&b, "(* callee closure of the may-panic test: functions of the reader packages, of them may panic when called, calls in the flow models\n   resolved with certainty, of them to a function that cannot panic, safe-listed names that a reader method of the same name overrides *)\n")
	fmt.Fprintf(&b, "Definition reader_closure_stats : list nat := [%d; %d; %d; %d; %d]%%nat.\n\n", len(declCtx), np, closureStats.certain, closureStats.certainSafe, closureStats.safeListedButReaderPanics)
	b.WriteString("Definition reader_goroutines : list goroutine := [\n")
	for i, e := range all {
		sep := ";"
		if i == len(all)-1 {
			sep = ""
		}
		lead := "false"
		if e.leading {
			lead = "true"
		}
		fmt.Fprintf(&b, "  {| g_file := %q; g_func := %q; g_ord := %d; g_target := %q; g_rec := %s; g_leading := %s;\n     g_div := %d; g_idx := %d; g_slice := %d; g_make := %d; g_assert := %d |}%s (* line %d *)\n",
			e.file, e.fn, e.ord, e.target, e.rec, lead, e.div, e.idx, e.slc, e.mk, e.asrt, sep, e.line)
	}
	b.WriteString("].\n\n(* every range / receive loop of reader/controller: does it leave before its channel is closed? *)\n")
	b.WriteString("Definition reader_loops : list rloop := [\n")
	for i, l := range loops {
		sep := ";"
		if i == len(loops)-1 {
			sep = ""
		}
		early := "false"
		if l.early {
			early = "true"
		}
		fmt.Fprintf(&b, "  {| l_file := %q; l_func := %q; l_ord := %d; l_kind := %q; l_x := %q; l_early := %s |}%s (* line %d *)\n",
			l.file, l.fn, l.ord, l.kind, l.x, early, sep, l.line)
	}
	b.WriteString("].\n")
	b.WriteString("\n(* every sync.Mutex / RWMutex Lock()/RLock() statement under reader/ and how the lock is given back *)\n")
	b.WriteString("Definition reader_locks : list mlock := [\n")
	for i, l := range locks {
		sep := ";"
		if i == len(locks)-1 {
			sep = ""
		}
		fmt.Fprintf(&b, "  {| m_file := %q; m_func := %q; m_ord := %d; m_recv := %q; m_kind := %q; m_status := %s |}%s (* line %d *)\n",
			l.file, l.fn, l.ord, l.recv, l.kind, l.status, sep, l.line)
	}
	b.WriteString("].\n")
	b.WriteString("\n(* channel operations of every goroutine body: blocking sends / receives outside a select, selects (with a Done case, with a default), close calls *)\n")
	b.WriteString("Definition reader_chanops : list chanop := [\n")
	for i, e := range all {
		sep := ";"
		if i == len(all)-1 {
			sep = ""
		}
		fmt.Fprintf(&b, "  {| c_file := %q; c_func := %q; c_ord := %d; c_send := %d; c_recv := %d; c_sel := %d; c_sel_done := %d; c_sel_default := %d; c_sel_plain := %d; c_range := %d; c_close := %d |}%s (* line %d; sends on %s *)\n",
			e.file, e.fn, e.ord, e.ch.send, e.ch.recv, e.ch.sel, e.ch.selDone, e.ch.selDefault, e.ch.selPlain, e.ch.rng, e.ch.cls, sep, e.line, strings.ReplaceAll(strings.Join(e.ch.sendOn, ", "), "*)", "* )"))
	}
	b.WriteString("].\n")
	writeFlows := func(name, kind string, fl []flowEntry) {
		b.WriteString("\nDefinition " + name + " : list flow := [\n")
		for i, f := range fl {
			sep := ";"
			if i == len(fl)-1 {
				sep = ""
			}
			fmt.Fprintf(&b, "  {| f_file := %q; f_func := %q; f_unit := %d; f_res := %q; f_kind := %s; f_recovers := %s;\n     f_body := %s |}%s (* line %d *)\n",
				f.file, f.fn, f.unit, f.res.kind+" "+f.res.text, kind, bstr(f.recovers), f.body, sep, f.line)
		}
		b.WriteString("].\n")
	}
	b.WriteString("\n(* control-flow model of every function body / literal that takes a mutex, per mutex *)")
	writeFlows("reader_lock_flows", "FLock", lockFlows)
	b.WriteString("\n(* control-flow model of every goroutine body per channel it sends on: the duty to close it *)")
	writeFlows("reader_close_flows", "FClose", closeFlows)
	writeConnFlows(&b, fset, root, files, parsed, ctxOf, func(p string) string { r, _ := filepath.Rel(root, p); return r })
	if err := os.WriteFile(out, []byte(b.String()), 0644); err != nil {
		fmt.Fprintln(os.Stderr, err)
		os.Exit(1)
	}
}
