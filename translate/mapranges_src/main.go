// mapranges (C14): where could the TEXT of a generated SQL statement depend on Go's map iteration order?
//
// Type-checks every non-test package under <repo>/reader (export data of the dependencies comes from
// `go list -export`, i.e. from the same build cache the harness uses) and records
//   * every call of a method named SetSetting (sql_select.ISelect) outside SetSetting methods themselves -- Select.String prints the settings
//     by ranging over a map, so with two settings the text would depend on the iteration order;
//   * every `range` over a map-typed expression inside a function that builds SQL, i.e. a function of
//     package sql_select or one whose body uses an object of package sql_select.
// Output: a Coq file (definitions only) and a JSON file with the same content.
package main

import (
	"bytes"
	"encoding/json"
	"fmt"
	"go/ast"
	"go/importer"
	"go/parser"
	"go/printer"
	"go/token"
	"go/types"
	"io"
	"os"
	"os/exec"
	"path/filepath"
	"sort"
	"strings"
)

type listPkg struct {
	ImportPath string
	Export     string
	Dir        string
	GoFiles    []string
	Imports    []string
	Standard   bool
}

// package-level variable of a package the translation entry points can reach (import closure), with the
// functions (other than init) that write it / take its address / call a pointer-receiver method on it
type stateVar struct {
	Pkg    string   `json:"pkg"`
	Name   string   `json:"name"`
	Type   string   `json:"type"`
	Writes []string `json:"writes"` // "Func" or "Func:method()" or "Func:&"
}

var entryPkgs = []string{"logql/logql_transpiler_v2", "logql/logql_parser", "traceql/transpiler", "traceql/parser", "prof/transpiler", "prof/parser"}

// translation entry points: the exported planning / parsing functions of the translation packages, every
// Process method that returns an ISelect (planners) and every String method that takes a *sql.Ctx (rendering)
func isEntry(pkg string, fd *ast.FuncDecl, fo *types.Func) bool {
	sig := fo.Type().(*types.Signature)
	if fd.Recv == nil {
		for _, e := range entryPkgs {
			if pkg == e || strings.HasPrefix(pkg, e+"/") {
				return ast.IsExported(fd.Name.Name) && (strings.HasPrefix(fd.Name.Name, "Plan") || fd.Name.Name == "Parse" || fd.Name.Name == "Transpile")
			}
		}
		return false
	}
	if fd.Name.Name == "Process" && sig.Results().Len() == 2 && strings.HasSuffix(sig.Results().At(0).Type().String(), "sql_select.ISelect") {
		return true
	}
	if fd.Name.Name == "String" && sig.Params().Len() >= 1 && strings.HasSuffix(sig.Params().At(0).Type().String(), "sql_select.Ctx") {
		return true
	}
	return false
}

func pkgLevelVar(o types.Object) *types.Var {
	v, ok := o.(*types.Var)
	if !ok || v.IsField() || v.Pkg() == nil || v.Parent() != v.Pkg().Scope() {
		return nil
	}
	return v
}

// rootVar: the package-level variable an lvalue / receiver expression is rooted at
func rootVar(info *types.Info, e ast.Expr) *types.Var {
	switch x := e.(type) {
	case *ast.ParenExpr:
		return rootVar(info, x.X)
	case *ast.IndexExpr:
		return rootVar(info, x.X)
	case *ast.SliceExpr:
		return rootVar(info, x.X)
	case *ast.StarExpr:
		return rootVar(info, x.X)
	case *ast.SelectorExpr:
		if v := pkgLevelVar(info.Uses[x.Sel]); v != nil {
			return v
		}
		return rootVar(info, x.X)
	case *ast.Ident:
		if o := info.Uses[x]; o != nil {
			return pkgLevelVar(o)
		}
	}
	return nil
}

type site struct {
	File string `json:"file"`
	Func string `json:"func"`
	Expr string `json:"expr"`
	Ord  int    `json:"ord"`  // ordinal among the recorded sites of the function
	Uses string `json:"uses"` // for a range: k | v | kv | none (which loop variables are bound)
}

// a write to state that outlives the function: an assignment / IncDec / in-place builtin or library call whose target is
// rooted at the receiver, a parameter, a local alias of one of them, or a package-level variable
type fieldWrite struct {
	Func   string `json:"func"`   // pkg:Type.Method
	Root   string `json:"root"`   // recv | param | alias | global
	Target string `json:"target"` // NamedType.field[.field] of the written location
	How    string `json:"how"`    // = | ++ | delete | copy | sort | Type.Method() | iface-call Method()
	Expr   string `json:"expr"`
	fn     string
}

// every package-level variable of a package in the import closure of the translation packages
type pkgVar struct {
	Pkg       string   `json:"pkg"`
	Name      string   `json:"name"`
	Type      string   `json:"type"`
	Kind      string   `json:"kind"` // immutable-value | func | pointer | map | slice | sync | struct | interface | chan | array
	WrittenBy []string `json:"written_by"` // every function outside init that assigns it / stores into it / takes its address / calls a pointer method on it
	ReadBy    int      `json:"read_by_reachable"` // number of reachable translation functions that mention it
	obj       *types.Var
}

func typeKind(t types.Type) string {
	if n, ok := t.(*types.Named); ok && n.Obj().Pkg() != nil {
		p := n.Obj().Pkg().Path()
		if p == "sync" || p == "sync/atomic" {
			return "sync"
		}
	}
	switch u := t.Underlying().(type) {
	case *types.Basic:
		return "immutable-value"
	case *types.Signature:
		return "func"
	case *types.Pointer:
		return "pointer"
	case *types.Map:
		return "map"
	case *types.Slice:
		return "slice"
	case *types.Struct:
		for i := 0; i < u.NumFields(); i++ {
			if typeKind(u.Field(i).Type()) == "sync" {
				return "sync"
			}
		}
		return "struct"
	case *types.Interface:
		return "interface"
	case *types.Chan:
		return "chan"
	case *types.Array:
		return "array"
	}
	return "other"
}

func namedOf(t types.Type) string {
	for {
		if p, ok := t.(*types.Pointer); ok {
			t = p.Elem()
			continue
		}
		break
	}
	if n, ok := t.(*types.Named); ok {
		if n.Obj().Pkg() != nil {
			return strings.TrimPrefix(n.Obj().Pkg().Path(), prefix) + "." + n.Obj().Name()
		}
		return n.Obj().Name()
	}
	return types.TypeString(t, func(p *types.Package) string { return p.Name() })
}

// baseIdent: the identifier an lvalue / receiver expression is rooted at, and the field path from it
func baseIdent(e ast.Expr) (*ast.Ident, []*ast.SelectorExpr) {
	var path []*ast.SelectorExpr
	for {
		switch x := e.(type) {
		case *ast.ParenExpr:
			e = x.X
		case *ast.IndexExpr:
			e = x.X
		case *ast.SliceExpr:
			e = x.X
		case *ast.StarExpr:
			e = x.X
		case *ast.TypeAssertExpr:
			e = x.X
		case *ast.UnaryExpr:
			if x.Op != token.AND {
				return nil, nil
			}
			e = x.X
		case *ast.SelectorExpr:
			path = append([]*ast.SelectorExpr{x}, path...)
			e = x.X
		case *ast.Ident:
			return x, path
		default:
			return nil, nil
		}
	}
}

func refLike(t types.Type) bool {
	switch t.Underlying().(type) {
	case *types.Pointer, *types.Map, *types.Slice, *types.Interface, *types.Chan:
		return true
	}
	return false
}

const sqlPkg = "github.com/metrico/qryn/reader/utils/sql_select"
const prefix = "github.com/metrico/qryn/reader/"

func exprText(fset *token.FileSet, e ast.Expr) string {
	var b bytes.Buffer
	printer.Fprint(&b, fset, e)
	return b.String()
}

func funcName(fd *ast.FuncDecl) string {
	if fd.Recv != nil && len(fd.Recv.List) > 0 {
		t := fd.Recv.List[0].Type
		if s, ok := t.(*ast.StarExpr); ok {
			t = s.X
		}
		if ix, ok := t.(*ast.IndexExpr); ok {
			t = ix.X
		}
		if id, ok := t.(*ast.Ident); ok {
			return id.Name + "." + fd.Name.Name
		}
	}
	return fd.Name.Name
}

func coqStr(s string) string { return `"` + strings.ReplaceAll(s, `"`, `""`) + `"` }

func main() {
	if len(os.Args) < 4 {
		fmt.Fprintln(os.Stderr, "usage: mapranges <repo> <out.v> <out.json>")
		os.Exit(2)
	}
	repo := os.Args[1]
	cmd := exec.Command("go", "list", "-e", "-export", "-deps", "-json=ImportPath,Export,Dir,GoFiles,Imports,Standard", "./reader/...")
	cmd.Dir = repo
	outb, err := cmd.Output()
	if err != nil && len(outb) == 0 {
		fmt.Fprintln(os.Stderr, "go list failed:", err)
		os.Exit(1)
	}
	exports := map[string]string{}
	var pkgs []listPkg
	dec := json.NewDecoder(bytes.NewReader(outb))
	for {
		var p listPkg
		if err := dec.Decode(&p); err == io.EOF {
			break
		} else if err != nil {
			fmt.Fprintln(os.Stderr, "decode:", err)
			os.Exit(1)
		}
		exports[p.ImportPath] = p.Export
		if strings.HasPrefix(p.ImportPath, prefix) {
			pkgs = append(pkgs, p)
		}
	}
	imports := map[string][]string{}
	for _, p := range pkgs {
		imports[p.ImportPath] = p.Imports
	}
	reach := map[string]bool{}
	var visit func(string)
	visit = func(ip string) {
		if reach[ip] || !strings.HasPrefix(ip, prefix) {
			return
		}
		reach[ip] = true
		for _, d := range imports[ip] {
			visit(d)
		}
	}
	for _, e := range entryPkgs {
		visit(prefix + e)
	}
	state := map[string]*stateVar{}
	// call graph over the functions of reader/: caller -> callees (by types.Func.FullName); calls through an
	// interface go to every method of that name
	edges := map[string]map[string]bool{}
	ifaceCalls := map[string]map[string]bool{}
	byName := map[string][]string{}
	short := map[string]string{}
	type pending struct {
		v       *types.Var
		fn, how string
	}
	notes := map[string][]pending{}
	var entries []string
	curFn := ""
	var note func(v *types.Var, fn, how string)
	everyWrite := map[string]map[string]bool{} // package-level variable -> functions outside init that write it
	curPkgRel := ""
	noteLater := func(v *types.Var, fn, how string) {
		if v != nil && curFn != "" {
			notes[curFn] = append(notes[curFn], pending{v, fn, how})
			k := v.Pkg().Path() + "." + v.Name()
			if everyWrite[k] == nil {
				everyWrite[k] = map[string]bool{}
			}
			everyWrite[k][curPkgRel+":"+fn+how] = true
		}
	}
	note = func(v *types.Var, fn, how string) {
		if v == nil || !strings.HasPrefix(v.Pkg().Path(), prefix) {
			return
		}
		k := v.Pkg().Path() + "." + v.Name()
		sv := state[k]
		if sv == nil {
			sv = &stateVar{Pkg: strings.TrimPrefix(v.Pkg().Path(), prefix), Name: v.Name(), Type: types.TypeString(v.Type(), func(p *types.Package) string { return p.Name() })}
			state[k] = sv
		}
		w := fn + how
		for _, x := range sv.Writes {
			if x == w {
				return
			}
		}
		sv.Writes = append(sv.Writes, w)
	}
	fset := token.NewFileSet()
	imp := importer.ForCompiler(fset, "gc", func(path string) (io.ReadCloser, error) {
		f := exports[path]
		if f == "" {
			return nil, fmt.Errorf("no export data for %s", path)
		}
		return os.Open(f)
	})
	allVars := map[string]*pkgVar{}
	varUses := map[string][]string{}
	var fwrites []fieldWrite
	var setCalls, forwards, ranges, others []site
	npk, nfn, nsqlfn := 0, 0, 0
	var unchecked []string
	for _, p := range pkgs {
		var files []*ast.File
		for _, gf := range p.GoFiles {
			f, err := parser.ParseFile(fset, filepath.Join(p.Dir, gf), nil, 0)
			if err != nil {
				fmt.Fprintln(os.Stderr, "parse:", err)
				os.Exit(1)
			}
			files = append(files, f)
		}
		info := &types.Info{Types: map[ast.Expr]types.TypeAndValue{}, Uses: map[*ast.Ident]types.Object{}, Defs: map[*ast.Ident]types.Object{},
			Selections: map[*ast.SelectorExpr]*types.Selection{}}
		conf := types.Config{Importer: imp, Error: func(err error) {}}
		if _, err := conf.Check(p.ImportPath, fset, files, info); err != nil {
			// a package that does not compile is not part of the reader binary; analysed with partial types
			unchecked = append(unchecked, strings.TrimPrefix(p.ImportPath, prefix))
		}
		npk++
		importsSQL := p.ImportPath == sqlPkg
		for _, f := range files {
			for _, im := range f.Imports {
				if strings.Trim(im.Path.Value, `"`) == sqlPkg {
					importsSQL = true
				}
			}
		}
		relPkg := strings.TrimPrefix(p.ImportPath, prefix)
		curPkgRel = relPkg
		// package-level variables of this package (with the functions that write them, filled in below)
		if pk := info.Defs; pk != nil {
			for id, o := range info.Defs {
				if v := pkgLevelVar(o); v != nil && id.Name != "_" {
					allVars[p.ImportPath+"."+v.Name()] = &pkgVar{Pkg: relPkg, Name: v.Name(), Kind: typeKind(v.Type()), obj: v,
						Type: types.TypeString(v.Type(), func(p *types.Package) string { return p.Name() })}
				}
			}
		}
		type unit struct {
			fd   *ast.FuncDecl // nil for the initialiser of a package-level variable
			body ast.Node
			name string
			full string
			rel  string
		}
		var units []unit
		for _, f := range files {
			rel, _ := filepath.Rel(repo, fset.Position(f.Pos()).Filename)
			for _, d := range f.Decls {
				if gd, ok := d.(*ast.GenDecl); ok && gd.Tok == token.VAR {
					// a function literal in the initialiser of a package-level variable runs when the variable is called:
					// a pseudo function, reached from every function that mentions the variable
					for _, sp := range gd.Specs {
						vs := sp.(*ast.ValueSpec)
						for i, val := range vs.Values {
							hasLit := false
							ast.Inspect(val, func(n ast.Node) bool {
								if _, ok := n.(*ast.FuncLit); ok {
									hasLit = true
								}
								return true
							})
							if hasLit && i < len(vs.Names) {
								units = append(units, unit{nil, val, "var " + vs.Names[i].Name, "var:" + p.ImportPath + "." + vs.Names[i].Name, rel})
							}
						}
					}
					continue
				}
				fd, ok := d.(*ast.FuncDecl)
				if !ok || fd.Body == nil {
					continue
				}
				full := ""
				if fo, ok := info.Defs[fd.Name].(*types.Func); ok {
					full = fo.FullName()
				}
				units = append(units, unit{fd, fd.Body, funcName(fd), full, rel})
			}
		}
		{
			for _, u := range units {
				fd, rel, name := u.fd, u.rel, u.name
				nfn++
				isInit := fd != nil && fd.Recv == nil && fd.Name.Name == "init"
				curFn = u.full
				if curFn != "" {
					short[curFn] = relPkg + ":" + name
					edges[curFn] = map[string]bool{}
					ifaceCalls[curFn] = map[string]bool{}
				}
				roots := map[types.Object]string{}
				recvIsValue := false
				if fd != nil {
					if fo, ok := info.Defs[fd.Name].(*types.Func); ok {
						if fd.Recv != nil {
							byName[fd.Name.Name] = append(byName[fd.Name.Name], curFn)
						}
						if isEntry(relPkg, fd, fo) {
							entries = append(entries, curFn)
						}
					}
					if fd.Recv != nil {
						for _, fl := range fd.Recv.List {
							if _, isPtr := fl.Type.(*ast.StarExpr); !isPtr {
								recvIsValue = true
							}
							for _, nm := range fl.Names {
								if o := info.Defs[nm]; o != nil {
									roots[o] = "recv"
								}
							}
						}
					}
					if fd.Type.Params != nil {
						for _, fl := range fd.Type.Params.List {
							for _, nm := range fl.Names {
								if o := info.Defs[nm]; o != nil {
									roots[o] = "param"
								}
							}
						}
					}
				}
				// classify an lvalue-like expression: which long-lived location does a store through it reach?
				classify := func(e ast.Expr) (string, string, bool) {
					id, path := baseIdent(e)
					if id == nil {
						return "", "", false
					}
					o := info.Uses[id]
					if o == nil {
						o = info.Defs[id]
					}
					if o == nil {
						return "", "", false
					}
					kind, ok := roots[o]
					if !ok {
						return "", "", false
					}
					_, bare := e.(*ast.Ident)
					if bare {
						return "", "", false // rebinding a local name
					}
					if kind == "recv" && recvIsValue && len(path) == 1 {
						if se, ok := e.(*ast.SelectorExpr); ok && se == path[0] {
							return "", "", false // field of a by-value receiver: a copy
						}
					}
					var names []string
					for _, se := range path {
						names = append(names, se.Sel.Name)
					}
					owner := namedOf(o.Type())
					if len(path) > 1 {
						if tv, ok := info.Types[path[len(path)-1].X]; ok {
							owner = namedOf(tv.Type)
							names = names[len(names)-1:]
						}
					}
					tgt := owner + "|"
					if len(names) > 0 {
						tgt += strings.Join(names, ".")
					} else {
						tgt += "[*]"
					}
					return kind, tgt, true
				}
				addWrite := func(e ast.Expr, how string, whole ast.Node) {
					if isInit || curFn == "" {
						return
					}
					if kind, tgt, ok := classify(e); ok {
						var b bytes.Buffer
						printer.Fprint(&b, fset, whole)
						tx := strings.Join(strings.Fields(b.String()), " ")
						if len(tx) > 90 {
							tx = tx[:90] + "..."
						}
						fwrites = append(fwrites, fieldWrite{Func: relPkg + ":" + name, Root: kind, Target: tgt, How: how, Expr: tx, fn: curFn})
					}
				}
				alias := func(lhs ast.Expr, rhs ast.Expr) {
					id, ok := lhs.(*ast.Ident)
					if !ok || id.Name == "_" {
						return
					}
					o := info.Defs[id]
					if o == nil {
						o = info.Uses[id]
					}
					if o == nil || pkgLevelVar(o) != nil {
						return
					}
					if _, already := roots[o]; already {
						return
					}
					rid, _ := baseIdent(rhs)
					if rid == nil {
						return
					}
					ro := info.Uses[rid]
					if ro == nil {
						return
					}
					_, rooted := roots[ro]
					if !rooted && pkgLevelVar(ro) == nil {
						return
					}
					if refLike(o.Type()) {
						roots[o] = "alias"
					}
				}
				usesSQL := p.ImportPath == sqlPkg
				var rs []*ast.RangeStmt
				ast.Inspect(u.body, func(n ast.Node) bool {
					switch x := n.(type) {
					case *ast.FuncLit:
						if x.Type.Params != nil {
							for _, fl := range x.Type.Params.List {
								for _, nm := range fl.Names {
									if o := info.Defs[nm]; o != nil {
										roots[o] = "param"
									}
								}
							}
						}
					case *ast.Ident:
						if o := info.Uses[x]; o != nil && o.Pkg() != nil && o.Pkg().Path() == sqlPkg {
							usesSQL = true
						}
						if v := pkgLevelVar(info.Uses[x]); v != nil && curFn != "" && strings.HasPrefix(v.Pkg().Path(), prefix) {
							edges[curFn]["var:"+v.Pkg().Path()+"."+v.Name()] = true
							varUses[curFn] = append(varUses[curFn], v.Pkg().Path()+"."+v.Name())
						}
						if fo, ok := info.Uses[x].(*types.Func); ok && curFn != "" {
							if rcv := fo.Type().(*types.Signature).Recv(); rcv != nil && types.IsInterface(rcv.Type()) {
								ifaceCalls[curFn][fo.Name()] = true
							} else {
								edges[curFn][fo.FullName()] = true
							}
						}
					case *ast.CallExpr:
						if se, ok := x.Fun.(*ast.SelectorExpr); ok && !isInit {
							if sel := info.Selections[se]; sel != nil && sel.Kind() == types.MethodVal {
								if f, ok := sel.Obj().(*types.Func); ok {
									if rcv := f.Type().(*types.Signature).Recv(); rcv != nil {
										if _, ptr := rcv.Type().(*types.Pointer); ptr {
											noteLater(rootVar(info, se.X), name, ":"+se.Sel.Name+"()")
										}
									}
								}
							}
						}
						// in-place builtins and library calls on a long-lived location
						if id, ok := x.Fun.(*ast.Ident); ok && len(x.Args) > 0 {
							if _, isB := info.Uses[id].(*types.Builtin); isB && (id.Name == "delete" || id.Name == "copy" || id.Name == "clear") {
								addWrite(x.Args[0], id.Name, x)
								if !isInit {
									noteLater(rootVar(info, x.Args[0]), name, ":"+id.Name+"()")
								}
							}
						}
						if se, ok := x.Fun.(*ast.SelectorExpr); ok {
							if pid, ok := se.X.(*ast.Ident); ok && len(x.Args) > 0 {
								if pn, ok := info.Uses[pid].(*types.PkgName); ok && (pn.Imported().Path() == "sort" || pn.Imported().Path() == "slices") &&
									(strings.HasPrefix(se.Sel.Name, "Sort") || se.Sel.Name == "Strings" || se.Sel.Name == "Ints" || se.Sel.Name == "Slice" || se.Sel.Name == "Stable" || se.Sel.Name == "Reverse") {
									addWrite(x.Args[0], pn.Imported().Path()+"."+se.Sel.Name, x)
									if !isInit {
										noteLater(rootVar(info, x.Args[0]), name, ":"+pn.Imported().Path()+"."+se.Sel.Name+"()")
									}
								}
							}
							if sel := info.Selections[se]; sel != nil && sel.Kind() == types.MethodVal {
								if f, ok := sel.Obj().(*types.Func); ok {
									rcv := f.Type().(*types.Signature).Recv()
									outside := f.Pkg() == nil || !strings.HasPrefix(f.Pkg().Path(), prefix)
									_, ptr := rcv.Type().(*types.Pointer)
									if outside && ptr {
										// a pointer-receiver method of a library type (sync.Map.Store, strings.Builder.WriteString ...)
										addWrite(se.X, namedOf(rcv.Type())+"."+se.Sel.Name+"()", x)
									}
									if f.Pkg() != nil && f.Pkg().Path() == sqlPkg && !strings.HasPrefix(se.Sel.Name, "Get") && se.Sel.Name != "String" {
										// a builder method of sql_select invoked on a STORED object (field of the receiver / a parameter)
										if _, path := baseIdent(se.X); len(path) > 0 {
											addWrite(se.X, "sql_select "+se.Sel.Name+"()", x)
										}
									}
								}
							}
						}
						if se, ok := x.Fun.(*ast.SelectorExpr); ok && se.Sel.Name == "SetSetting" {
							// a SetSetting method that passes its own arguments on is an implementation of the
							// interface (UnionSelect), not a place where a setting originates
							if strings.HasSuffix(name, ".SetSetting") {
								forwards = append(forwards, site{File: rel, Func: name, Expr: exprText(fset, x)})
							} else {
								setCalls = append(setCalls, site{File: rel, Func: name, Expr: exprText(fset, x)})
							}
						}
					case *ast.AssignStmt:
						if !isInit {
							for _, l := range x.Lhs {
								noteLater(rootVar(info, l), name, "")
							}
						}
						for _, l := range x.Lhs {
							addWrite(l, x.Tok.String(), x)
						}
						if len(x.Lhs) == len(x.Rhs) {
							for i := range x.Lhs {
								alias(x.Lhs[i], x.Rhs[i])
							}
						}
					case *ast.IncDecStmt:
						if !isInit {
							noteLater(rootVar(info, x.X), name, "")
						}
						addWrite(x.X, x.Tok.String(), x)
					case *ast.UnaryExpr:
						if !isInit && x.Op == token.AND {
							noteLater(rootVar(info, x.X), name, ":&")
						}
					case *ast.RangeStmt:
						if x.Value != nil {
							alias(x.Value, x.X)
						}
						if tv, ok := info.Types[x.X]; ok {
							if _, isMap := tv.Type.Underlying().(*types.Map); isMap {
								rs = append(rs, x)
							}
						}
					}
					return true
				})
				if !usesSQL && importsSQL {
					for i, r := range rs {
						others = append(others, site{File: rel, Func: name, Expr: exprText(fset, r.X), Ord: i})
					}
				}
				if usesSQL {
					nsqlfn++
					for i, r := range rs {
						uses := "none"
						k := r.Key != nil && exprText(fset, r.Key) != "_"
						v := r.Value != nil && exprText(fset, r.Value) != "_"
						switch {
						case k && v:
							uses = "kv"
						case k:
							uses = "k"
						case v:
							uses = "v"
						}
						ranges = append(ranges, site{File: rel, Func: name, Expr: exprText(fset, r.X), Ord: i, Uses: uses})
					}
				}
			}
		}
	}
	// functions reachable from the translation entry points
	reachFn := map[string]bool{}
	var walk func(string)
	walk = func(f string) {
		if reachFn[f] {
			return
		}
		reachFn[f] = true
		for g := range edges[f] {
			if _, ok := edges[g]; ok {
				walk(g)
			}
		}
		for m := range ifaceCalls[f] {
			for _, g := range byName[m] {
				walk(g)
			}
		}
	}
	for _, e := range entries {
		walk(e)
	}
	for f := range reachFn {
		for _, n := range notes[f] {
			note(n.v, short[f], n.how)
		}
	}
	// writes to receiver / parameter / alias rooted locations by reachable functions
	var rw []fieldWrite
	seenW := map[string]bool{}
	for _, w := range fwrites {
		if !reachFn[w.fn] {
			continue
		}
		k := w.Func + "|" + w.Root + "|" + w.Target
		if seenW[k] {
			continue
		}
		seenW[k] = true
		rw = append(rw, w)
	}
	sort.Slice(rw, func(i, j int) bool {
		a, b := rw[i], rw[j]
		if a.Func != b.Func {
			return a.Func < b.Func
		}
		if a.Target != b.Target {
			return a.Target < b.Target
		}
		return a.How < b.How
	})
	// the package-level variables of the packages the translation entry points import (transitively)
	var pvars []*pkgVar
	for f := range reachFn {
		if sh, ok := short[f]; ok {
			reach[prefix+strings.SplitN(sh, ":", 2)[0]] = true
		}
	}
	for k, pv := range allVars {
		if !reach[prefix+pv.Pkg] {
			continue
		}
		for f := range everyWrite[k] {
			pv.WrittenBy = append(pv.WrittenBy, f)
		}
		sort.Strings(pv.WrittenBy)
		for f := range reachFn {
			for _, u := range varUses[f] {
				if u == k {
					pv.ReadBy++
					break
				}
			}
		}
		pvars = append(pvars, pv)
	}
	sort.Slice(pvars, func(i, j int) bool {
		if pvars[i].Pkg != pvars[j].Pkg {
			return pvars[i].Pkg < pvars[j].Pkg
		}
		return pvars[i].Name < pvars[j].Name
	})
	less := func(a, b site) bool {
		if a.File != b.File {
			return a.File < b.File
		}
		if a.Func != b.Func {
			return a.Func < b.Func
		}
		return a.Ord < b.Ord
	}
	sort.Slice(setCalls, func(i, j int) bool { return less(setCalls[i], setCalls[j]) })
	sort.Slice(forwards, func(i, j int) bool { return less(forwards[i], forwards[j]) })
	sort.Slice(ranges, func(i, j int) bool { return less(ranges[i], ranges[j]) })

	var states []*stateVar
	for _, sv := range state {
		sort.Strings(sv.Writes)
		states = append(states, sv)
	}
	sort.Slice(states, func(i, j int) bool {
		if states[i].Pkg != states[j].Pkg {
			return states[i].Pkg < states[j].Pkg
		}
		return states[i].Name < states[j].Name
	})

	var b strings.Builder
	b.WriteString("(* GENERATED by translate/gen_mapranges from the Go sources under reader/ -- do not edit.\n")
	b.WriteString("   set_setting_calls: every call of ISelect.SetSetting; sql_map_ranges: every range over a map inside a\n")
	b.WriteString("   function that builds SQL (file, function, ranged expression, bound loop variables). *)\n")
	b.WriteString("From Coq Require Import List String.\nImport ListNotations.\nOpen Scope string_scope.\n\n")
	b.WriteString("Definition set_setting_calls : list (string * string * string) := [")
	for i, s := range setCalls {
		if i > 0 {
			b.WriteString(";")
		}
		fmt.Fprintf(&b, "\n  (%s, %s, %s)", coqStr(s.File), coqStr(s.Func), coqStr(s.Expr))
	}
	b.WriteString("].\n\nDefinition sql_map_ranges : list (string * string * string * string) := [")
	for i, s := range ranges {
		if i > 0 {
			b.WriteString(";")
		}
		fmt.Fprintf(&b, "\n  (%s, %s, %s, %s)", coqStr(s.File), coqStr(s.Func), coqStr(s.Expr), coqStr(s.Uses))
	}
	b.WriteString("].\n\n(* package-level variables under reader/ that a function reachable from the translation entry points\n")
	b.WriteString("   (Parse/Plan*/Transpile, every planner Process, every SQL String method; calls through interfaces go to every\n")
	b.WriteString("   method of that name) assigns, takes the address of, or calls a pointer-receiver method on:\n")
	b.WriteString("   (package, variable, type) *)\n")
	b.WriteString("Definition translation_package_state : list (string * string * string) := [")
	for i, sv := range states {
		if i > 0 {
			b.WriteString(";")
		}
		fmt.Fprintf(&b, "\n  (%s, %s, %s)", coqStr(sv.Pkg), coqStr(sv.Name), coqStr(sv.Type))
	}
	b.WriteString("].\n\n(* every package-level variable of the packages in the import closure of the translation packages\n")
	b.WriteString("   (logql parser / transpiler_v2 / clickhouse_planner / internal_planner / shared, traceql, prof, sql_select, ...):\n")
	b.WriteString("   (package, variable, type, kind, written outside init by some function, mentioned by a reachable translation function) *)\n")
	b.WriteString("Definition translation_package_vars : list (string * string * string * string * bool * bool) := [")
	for i, pv := range pvars {
		if i > 0 {
			b.WriteString(";")
		}
		fmt.Fprintf(&b, "\n  (%s, %s, %s, %s, %v, %v)", coqStr(pv.Pkg), coqStr(pv.Name), coqStr(pv.Type), coqStr(pv.Kind), len(pv.WrittenBy) > 0, pv.ReadBy > 0)
	}
	b.WriteString("].\n\n(* every store by a function reachable from the translation entry points into a location that outlives the call:\n")
	b.WriteString("   an assignment / ++ / delete / copy / sort / library pointer-method / sql_select builder call whose target is rooted at\n")
	b.WriteString("   the receiver, a parameter, or a local alias of one: (function, root, type owning the field, field) *)\n")
	b.WriteString("Definition translation_field_writes : list (string * string * string * string) := [")
	for i, w := range rw {
		if i > 0 {
			b.WriteString(";")
		}
		tf := strings.SplitN(w.Target, "|", 2)
		fmt.Fprintf(&b, "\n  (%s, %s, %s, %s)", coqStr(w.Func), coqStr(w.Root), coqStr(tf[0]), coqStr(tf[1]))
	}
	b.WriteString("].\n")
	if err := os.WriteFile(os.Args[2], []byte(b.String()), 0o644); err != nil {
		panic(err)
	}
	js, _ := json.MarshalIndent(map[string]interface{}{"set_setting_calls": setCalls, "set_setting_forwarders": forwards, "other_map_ranges_in_sql_packages": others, "sql_map_ranges": ranges,
		"translation_package_state": states, "translation_package_vars": pvars, "translation_field_writes": rw, "translation_entry_functions": len(entries), "translation_reachable_functions": len(reachFn), "packages": npk, "functions": nfn, "sql_building_functions": nsqlfn, "packages_not_compiling": unchecked}, "", " ")
	if err := os.WriteFile(os.Args[3], js, 0o644); err != nil {
		panic(err)
	}
}
