// mapranges (C14): where could the TEXT of a generated SQL statement depend on Go's map iteration order?
//
// Type-checks every non-test package under <repo>/reader (export data of the dependencies comes from
// `go list -export`, i.e. from the same build cache the harness uses) and records
//   * every call of a method named SetSetting (sql_select.ISelect) outside SetSetting methods themselves -- Select.String prints the settings
//     by ranging over a map, so with two settings the text would depend on the iteration order;
//   * every `range` over a map-typed expression inside a function that builds SQL, i.e. a function of
//     package sql_select or one whose body uses an object of package sql_select.
// Output: a Coq file (definitions only) and a JSON file with the same content.
package main

import (
	"bytes"
	"encoding/json"
	"fmt"
	"go/ast"
	"go/importer"
	"go/parser"
	"go/printer"
	"go/token"
	"go/types"
	"io"
	"os"
	"os/exec"
	"path/filepath"
	"sort"
	"strings"
)

type listPkg struct {
	ImportPath string
	Export     string
	Dir        string
	GoFiles    []string
	Imports    []string
	Standard   bool
}

// package-level variable of a package the translation entry points can reach (import closure), with the
// functions (other than init) that write it / take its address / call a pointer-receiver method on it
type stateVar struct {
	Pkg    string   `json:"pkg"`
	Name   string   `json:"name"`
	Type   string   `json:"type"`
	Writes []string `json:"writes"` // "Func" or "Func:method()" or "Func:&"
}

var entryPkgs = []string{"logql/logql_transpiler_v2", "logql/logql_parser", "traceql/transpiler", "traceql/parser", "prof/transpiler", "prof/parser"}

// translation entry points: the exported planning / parsing functions of the translation packages, every
// Process method that returns an ISelect (planners) and every String method that takes a *sql.Ctx (rendering)
func isEntry(pkg string, fd *ast.FuncDecl, fo *types.Func) bool {
	sig := fo.Type().(*types.Signature)
	if fd.Recv == nil {
		for _, e := range entryPkgs {
			if pkg == e || strings.HasPrefix(pkg, e+"/") {
				return ast.IsExported(fd.Name.Name) && (strings.HasPrefix(fd.Name.Name, "Plan") || fd.Name.Name == "Parse" || fd.Name.Name == "Transpile")
			}
		}
		return false
	}
	if fd.Name.Name == "Process" && sig.Results().Len() == 2 && strings.HasSuffix(sig.Results().At(0).Type().String(), "sql_select.ISelect") {
		return true
	}
	if fd.Name.Name == "String" && sig.Params().Len() >= 1 && strings.HasSuffix(sig.Params().At(0).Type().String(), "sql_select.Ctx") {
		return true
	}
	return false
}

func pkgLevelVar(o types.Object) *types.Var {
	v, ok := o.(*types.Var)
	if !ok || v.IsField() || v.Pkg() == nil || v.Parent() != v.Pkg().Scope() {
		return nil
	}
	return v
}

// rootVar: the package-level variable an lvalue / receiver expression is rooted at
func rootVar(info *types.Info, e ast.Expr) *types.Var {
	switch x := e.(type) {
	case *ast.ParenExpr:
		return rootVar(info, x.X)
	case *ast.IndexExpr:
		return rootVar(info, x.X)
	case *ast.SliceExpr:
		return rootVar(info, x.X)
	case *ast.StarExpr:
		return rootVar(info, x.X)
	case *ast.SelectorExpr:
		if v := pkgLevelVar(info.Uses[x.Sel]); v != nil {
			return v
		}
		return rootVar(info, x.X)
	case *ast.Ident:
		if o := info.Uses[x]; o != nil {
			return pkgLevelVar(o)
		}
	}
	return nil
}

type site struct {
	File string `json:"file"`
	Func string `json:"func"`
	Expr string `json:"expr"`
	Ord  int    `json:"ord"`  // ordinal among the recorded sites of the function
	Uses string `json:"uses"` // for a range: k | v | kv | none (which loop variables are bound)
}

const sqlPkg = "github.com/metrico/qryn/reader/utils/sql_select"
const prefix = "github.com/metrico/qryn/reader/"

func exprText(fset *token.FileSet, e ast.Expr) string {
	var b bytes.Buffer
	printer.Fprint(&b, fset, e)
	return b.String()
}

func funcName(fd *ast.FuncDecl) string {
	if fd.Recv != nil && len(fd.Recv.List) > 0 {
		t := fd.Recv.List[0].Type
		if s, ok := t.(*ast.StarExpr); ok {
			t = s.X
		}
		if ix, ok := t.(*ast.IndexExpr); ok {
			t = ix.X
		}
		if id, ok := t.(*ast.Ident); ok {
			return id.Name + "." + fd.Name.Name
		}
	}
	return fd.Name.Name
}

func coqStr(s string) string { return `"` + strings.ReplaceAll(s, `"`, `""`) + `"` }

func main() {
	if len(os.Args) < 4 {
		fmt.Fprintln(os.Stderr, "usage: mapranges <repo> <out.v> <out.json>")
		os.Exit(2)
	}
	repo := os.Args[1]
	cmd := exec.Command("go", "list", "-e", "-export", "-deps", "-json=ImportPath,Export,Dir,GoFiles,Imports,Standard", "./reader/...")
	cmd.Dir = repo
	outb, err := cmd.Output()
	if err != nil && len(outb) == 0 {
		fmt.Fprintln(os.Stderr, "go list failed:", err)
		os.Exit(1)
	}
	exports := map[string]string{}
	var pkgs []listPkg
	dec := json.NewDecoder(bytes.NewReader(outb))
	for {
		var p listPkg
		if err := dec.Decode(&p); err == io.EOF {
			break
		} else if err != nil {
			fmt.Fprintln(os.Stderr, "decode:", err)
			os.Exit(1)
		}
		exports[p.ImportPath] = p.Export
		if strings.HasPrefix(p.ImportPath, prefix) {
			pkgs = append(pkgs, p)
		}
	}
	imports := map[string][]string{}
	for _, p := range pkgs {
		imports[p.ImportPath] = p.Imports
	}
	reach := map[string]bool{}
	var visit func(string)
	visit = func(ip string) {
		if reach[ip] || !strings.HasPrefix(ip, prefix) {
			return
		}
		reach[ip] = true
		for _, d := range imports[ip] {
			visit(d)
		}
	}
	for _, e := range entryPkgs {
		visit(prefix + e)
	}
	state := map[string]*stateVar{}
	// call graph over the functions of reader/: caller -> callees (by types.Func.FullName); calls through an
	// interface go to every method of that name
	edges := map[string]map[string]bool{}
	ifaceCalls := map[string]map[string]bool{}
	byName := map[string][]string{}
	short := map[string]string{}
	type pending struct {
		v       *types.Var
		fn, how string
	}
	notes := map[string][]pending{}
	var entries []string
	curFn := ""
	var note func(v *types.Var, fn, how string)
	noteLater := func(v *types.Var, fn, how string) {
		if v != nil && curFn != "" {
			notes[curFn] = append(notes[curFn], pending{v, fn, how})
		}
	}
	note = func(v *types.Var, fn, how string) {
		if v == nil || !strings.HasPrefix(v.Pkg().Path(), prefix) {
			return
		}
		k := v.Pkg().Path() + "." + v.Name()
		sv := state[k]
		if sv == nil {
			sv = &stateVar{Pkg: strings.TrimPrefix(v.Pkg().Path(), prefix), Name: v.Name(), Type: types.TypeString(v.Type(), func(p *types.Package) string { return p.Name() })}
			state[k] = sv
		}
		w := fn + how
		for _, x := range sv.Writes {
			if x == w {
				return
			}
		}
		sv.Writes = append(sv.Writes, w)
	}
	fset := token.NewFileSet()
	imp := importer.ForCompiler(fset, "gc", func(path string) (io.ReadCloser, error) {
		f := exports[path]
		if f == "" {
			return nil, fmt.Errorf("no export data for %s", path)
		}
		return os.Open(f)
	})
	var setCalls, forwards, ranges, others []site
	npk, nfn, nsqlfn := 0, 0, 0
	var unchecked []string
	for _, p := range pkgs {
		var files []*ast.File
		for _, gf := range p.GoFiles {
			f, err := parser.ParseFile(fset, filepath.Join(p.Dir, gf), nil, 0)
			if err != nil {
				fmt.Fprintln(os.Stderr, "parse:", err)
				os.Exit(1)
			}
			files = append(files, f)
		}
		info := &types.Info{Types: map[ast.Expr]types.TypeAndValue{}, Uses: map[*ast.Ident]types.Object{}, Defs: map[*ast.Ident]types.Object{},
			Selections: map[*ast.SelectorExpr]*types.Selection{}}
		conf := types.Config{Importer: imp, Error: func(err error) {}}
		if _, err := conf.Check(p.ImportPath, fset, files, info); err != nil {
			// a package that does not compile is not part of the reader binary; analysed with partial types
			unchecked = append(unchecked, strings.TrimPrefix(p.ImportPath, prefix))
		}
		npk++
		importsSQL := p.ImportPath == sqlPkg
		for _, f := range files {
			for _, im := range f.Imports {
				if strings.Trim(im.Path.Value, `"`) == sqlPkg {
					importsSQL = true
				}
			}
		}
		for _, f := range files {
			rel, _ := filepath.Rel(repo, fset.Position(f.Pos()).Filename)
			for _, d := range f.Decls {
				fd, ok := d.(*ast.FuncDecl)
				if !ok || fd.Body == nil {
					continue
				}
				nfn++
				name := funcName(fd)
				isInit := fd.Recv == nil && fd.Name.Name == "init"
				curFn = ""
				if fo, ok := info.Defs[fd.Name].(*types.Func); ok {
					curFn = fo.FullName()
					short[curFn] = strings.TrimPrefix(p.ImportPath, prefix) + ":" + name
					edges[curFn] = map[string]bool{}
					ifaceCalls[curFn] = map[string]bool{}
					if fd.Recv != nil {
						byName[fd.Name.Name] = append(byName[fd.Name.Name], curFn)
					}
					if isEntry(strings.TrimPrefix(p.ImportPath, prefix), fd, fo) {
						entries = append(entries, curFn)
					}
				}
				usesSQL := p.ImportPath == sqlPkg
				var rs []*ast.RangeStmt
				ast.Inspect(fd.Body, func(n ast.Node) bool {
					switch x := n.(type) {
					case *ast.Ident:
						if o := info.Uses[x]; o != nil && o.Pkg() != nil && o.Pkg().Path() == sqlPkg {
							usesSQL = true
						}
						if fo, ok := info.Uses[x].(*types.Func); ok && curFn != "" {
							if rcv := fo.Type().(*types.Signature).Recv(); rcv != nil && types.IsInterface(rcv.Type()) {
								ifaceCalls[curFn][fo.Name()] = true
							} else {
								edges[curFn][fo.FullName()] = true
							}
						}
					case *ast.CallExpr:
						if se, ok := x.Fun.(*ast.SelectorExpr); ok && !isInit {
							if sel := info.Selections[se]; sel != nil && sel.Kind() == types.MethodVal {
								if f, ok := sel.Obj().(*types.Func); ok {
									if rcv := f.Type().(*types.Signature).Recv(); rcv != nil {
										if _, ptr := rcv.Type().(*types.Pointer); ptr {
											noteLater(rootVar(info, se.X), name, ":"+se.Sel.Name+"()")
										}
									}
								}
							}
						}
						if se, ok := x.Fun.(*ast.SelectorExpr); ok && se.Sel.Name == "SetSetting" {
							// a SetSetting method that passes its own arguments on is an implementation of the
							// interface (UnionSelect), not a place where a setting originates
							if strings.HasSuffix(name, ".SetSetting") {
								forwards = append(forwards, site{File: rel, Func: name, Expr: exprText(fset, x)})
							} else {
								setCalls = append(setCalls, site{File: rel, Func: name, Expr: exprText(fset, x)})
							}
						}
					case *ast.AssignStmt:
						if !isInit {
							for _, l := range x.Lhs {
								noteLater(rootVar(info, l), name, "")
							}
						}
					case *ast.IncDecStmt:
						if !isInit {
							noteLater(rootVar(info, x.X), name, "")
						}
					case *ast.UnaryExpr:
						if !isInit && x.Op == token.AND {
							noteLater(rootVar(info, x.X), name, ":&")
						}
					case *ast.RangeStmt:
						if tv, ok := info.Types[x.X]; ok {
							if _, isMap := tv.Type.Underlying().(*types.Map); isMap {
								rs = append(rs, x)
							}
						}
					}
					return true
				})
				if !usesSQL && importsSQL {
					for i, r := range rs {
						others = append(others, site{File: rel, Func: name, Expr: exprText(fset, r.X), Ord: i})
					}
				}
				if usesSQL {
					nsqlfn++
					for i, r := range rs {
						uses := "none"
						k := r.Key != nil && exprText(fset, r.Key) != "_"
						v := r.Value != nil && exprText(fset, r.Value) != "_"
						switch {
						case k && v:
							uses = "kv"
						case k:
							uses = "k"
						case v:
							uses = "v"
						}
						ranges = append(ranges, site{File: rel, Func: name, Expr: exprText(fset, r.X), Ord: i, Uses: uses})
					}
				}
			}
		}
	}
	// functions reachable from the translation entry points
	reachFn := map[string]bool{}
	var walk func(string)
	walk = func(f string) {
		if reachFn[f] {
			return
		}
		reachFn[f] = true
		for g := range edges[f] {
			if _, ok := edges[g]; ok {
				walk(g)
			}
		}
		for m := range ifaceCalls[f] {
			for _, g := range byName[m] {
				walk(g)
			}
		}
	}
	for _, e := range entries {
		walk(e)
	}
	for f := range reachFn {
		for _, n := range notes[f] {
			note(n.v, short[f], n.how)
		}
	}
	less := func(a, b site) bool {
		if a.File != b.File {
			return a.File < b.File
		}
		if a.Func != b.Func {
			return a.Func < b.Func
		}
		return a.Ord < b.Ord
	}
	sort.Slice(setCalls, func(i, j int) bool { return less(setCalls[i], setCalls[j]) })
	sort.Slice(forwards, func(i, j int) bool { return less(forwards[i], forwards[j]) })
	sort.Slice(ranges, func(i, j int) bool { return less(ranges[i], ranges[j]) })

	var states []*stateVar
	for _, sv := range state {
		sort.Strings(sv.Writes)
		states = append(states, sv)
	}
	sort.Slice(states, func(i, j int) bool {
		if states[i].Pkg != states[j].Pkg {
			return states[i].Pkg < states[j].Pkg
		}
		return states[i].Name < states[j].Name
	})

	var b strings.Builder
	b.WriteString("(* GENERATED by translate/gen_mapranges from the Go sources under reader/ -- do not edit.\n")
	b.WriteString("   set_setting_calls: every call of ISelect.SetSetting; sql_map_ranges: every range over a map inside a\n")
	b.WriteString("   function that builds SQL (file, function, ranged expression, bound loop variables). *)\n")
	b.WriteString("From Coq Require Import List String.\nImport ListNotations.\nOpen Scope string_scope.\n\n")
	b.WriteString("Definition set_setting_calls : list (string * string * string) := [")
	for i, s := range setCalls {
		if i > 0 {
			b.WriteString(";")
		}
		fmt.Fprintf(&b, "\n  (%s, %s, %s)", coqStr(s.File), coqStr(s.Func), coqStr(s.Expr))
	}
	b.WriteString("].\n\nDefinition sql_map_ranges : list (string * string * string * string) := [")
	for i, s := range ranges {
		if i > 0 {
			b.WriteString(";")
		}
		fmt.Fprintf(&b, "\n  (%s, %s, %s, %s)", coqStr(s.File), coqStr(s.Func), coqStr(s.Expr), coqStr(s.Uses))
	}
	b.WriteString("].\n\n(* package-level variables under reader/ that a function reachable from the translation entry points\n")
	b.WriteString("   (Parse/Plan*/Transpile, every planner Process, every SQL String method; calls through interfaces go to every\n")
	b.WriteString("   method of that name) assigns, takes the address of, or calls a pointer-receiver method on:\n")
	b.WriteString("   (package, variable, type) *)\n")
	b.WriteString("Definition translation_package_state : list (string * string * string) := [")
	for i, sv := range states {
		if i > 0 {
			b.WriteString(";")
		}
		fmt.Fprintf(&b, "\n  (%s, %s, %s)", coqStr(sv.Pkg), coqStr(sv.Name), coqStr(sv.Type))
	}
	b.WriteString("].\n")
	if err := os.WriteFile(os.Args[2], []byte(b.String()), 0o644); err != nil {
		panic(err)
	}
	js, _ := json.MarshalIndent(map[string]interface{}{"set_setting_calls": setCalls, "set_setting_forwarders": forwards, "other_map_ranges_in_sql_packages": others, "sql_map_ranges": ranges,
		"translation_package_state": states, "translation_entry_functions": len(entries), "translation_reachable_functions": len(reachFn), "packages": npk, "functions": nfn, "sql_building_functions": nsqlfn, "packages_not_compiling": unchecked}, "", " ")
	if err := os.WriteFile(os.Args[3], js, 0o644); err != nil {
		panic(err)
	}
}
