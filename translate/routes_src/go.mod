module verif/translate/routes

go 1.21
