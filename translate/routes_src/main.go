// gen_routes: reads the qryn sources with go/ast and writes the ordered assembly of the HTTP router that main()
// builds -- mux.NewRouter / Use / HandleFunc|Handle|Path|PathPrefix ... Methods / Subrouter / http.Serve -- with the
// condition under which each operation runs, following the router value through every function it is passed to.
//
//	gen_routes <repo> <out.v> <out.json>
//
// Anything the walker cannot follow becomes an OUnknown operation (the Coq check assembly_ok then fails), and every
// registration call site of a file importing gorilla/mux that was never visited is reported the same way, so that
// a blind spot of this translator cannot turn into a vacuous proof.
package main

import (
	"bytes"
	"encoding/json"
	"fmt"
	"go/ast"
	"go/build"
	"go/parser"
	"go/printer"
	"go/token"
	"os"
	"path/filepath"
	"sort"
	"strconv"
	"strings"
)

const muxPath = "github.com/gorilla/mux"

// ---------------------------------------------------------------- conditions
type Cond struct {
	K string `json:"k"` // true false atom not and or
	A int    `json:"a"`
	X *Cond  `json:"x,omitempty"`
	Y *Cond  `json:"y,omitempty"`
}

var cTrue = &Cond{K: "true"}
var cFalse = &Cond{K: "false"}

func cNot(c *Cond) *Cond {
	switch c.K {
	case "true":
		return cFalse
	case "false":
		return cTrue
	case "not":
		return c.X
	}
	return &Cond{K: "not", X: c}
}
func cAnd(a, b *Cond) *Cond {
	if a.K == "false" || b.K == "false" {
		return cFalse
	}
	if a.K == "true" {
		return b
	}
	if b.K == "true" {
		return a
	}
	return &Cond{K: "and", X: a, Y: b}
}
func cOr(a, b *Cond) *Cond {
	if a.K == "true" || b.K == "true" {
		return cTrue
	}
	if a.K == "false" {
		return b
	}
	if b.K == "false" {
		return a
	}
	return &Cond{K: "or", X: a, Y: b}
}
func (c *Cond) coq() string {
	switch c.K {
	case "true":
		return "CTrue"
	case "false":
		return "CFalse"
	case "atom":
		return fmt.Sprintf("(CAtom %d)", c.A)
	case "not":
		return "(CNot " + c.X.coq() + ")"
	case "and":
		return "(CAnd " + c.X.coq() + " " + c.Y.coq() + ")"
	}
	return "(COr " + c.X.coq() + " " + c.Y.coq() + ")"
}

type Atom struct {
	ID   int    `json:"id"`
	Kind string `json:"kind"` // login_set pass_set cors_enable mode_eq:<lit> var:<pkg>.<name> unknown
	Src  string `json:"src"`
}

// ---------------------------------------------------------------- operations
type Frame struct {
	Fn   string `json:"fn"`
	Call int    `json:"call"`
}
type Op struct {
	Cond    *Cond    `json:"cond"`
	Op      string   `json:"op"` // newrouter subrouter use route serve serveother unknown
	Router  int      `json:"router"`
	Parent  int      `json:"parent,omitempty"`
	Mw      string   `json:"mw,omitempty"`
	MwArgs  []string `json:"mw_args,omitempty"`
	Opaque  string   `json:"opaque,omitempty"` // why the source of a pass-through wrapper is not accepted as one
	Prefix  bool     `json:"prefix,omitempty"`
	Tpl     string   `json:"tpl"`
	Methods []string `json:"methods,omitempty"`
	Exact   bool     `json:"exact,omitempty"`
	Handler bool     `json:"handler,omitempty"`
	What    string   `json:"what,omitempty"`
	Pos     string   `json:"pos"`
	Stack   []Frame  `json:"stack"`
}

// ---------------------------------------------------------------- packages
type Pkg struct {
	Path  string
	Dir   string
	Files []*ast.File
	Funcs map[string]*ast.FuncDecl // "Name" or "Type.Name"
	Vals  map[string]ast.Expr      // package-level const/var with an initialiser
	fileOf map[*ast.FuncDecl]*ast.File
}

type World struct {
	repo    string
	module  string
	fset    *token.FileSet
	pkgs    map[string]*Pkg
	atoms   []Atom
	atomIdx map[string]int
	ops     []Op
	nrouter int
	ncall   int
	visited map[string]bool // positions of registration call sites that were interpreted
	notes   []string
	served      map[string]bool    // positions of serving calls that were interpreted (a serve / serveother operation exists)
	newSites    map[string]bool    // positions of mux.NewRouter() calls that were interpreted
	dead        []deadRange        // statement ranges the walker skipped because their condition is statically false
	passCache   map[string]string  // middleware function -> "" (pass-through) or the reason it is not
	sites       []CensusSite
	defaultMux  []string           // patterns registered on http.DefaultServeMux (http.Handle*, pprof, expvar)
	defaultMuxServed []string      // positions of calls that serve http.DefaultServeMux
	hookFiles   int                // zz_verif_*.go files under //go:build verif (skipped by the census)
}

type deadRange struct {
	file   string
	a, b   int
}

func (w *World) markDead(a, b token.Pos) {
	pa, pb := w.fset.Position(a), w.fset.Position(b)
	w.dead = append(w.dead, deadRange{pa.Filename, pa.Line, pb.Line})
}

type CensusSite struct {
	Kind    string `json:"kind"`
	Pos     string `json:"pos"`
	Src     string `json:"src,omitempty"`
	Why     string `json:"explained_by,omitempty"` // why the site cannot expose a handler outside the tracked router
	Flagged bool   `json:"flagged"`                // true: an OUnknown / OServeOther operation was emitted for it
}

func (w *World) rel(p token.Pos) string {
	ps := w.fset.Position(p)
	r, err := filepath.Rel(w.repo, ps.Filename)
	if err != nil {
		r = ps.Filename
	}
	return fmt.Sprintf("%s:%d", r, ps.Line)
}

func (w *World) src(n ast.Node) string {
	var b bytes.Buffer
	printer.Fprint(&b, w.fset, n)
	return strings.Join(strings.Fields(b.String()), " ")
}

func (w *World) load(path string) *Pkg {
	if p, ok := w.pkgs[path]; ok {
		return p
	}
	var dir string
	if path == w.module {
		dir = w.repo
	} else if strings.HasPrefix(path, w.module+"/") {
		dir = filepath.Join(w.repo, strings.TrimPrefix(path, w.module+"/"))
	} else {
		w.pkgs[path] = nil
		return nil
	}
	ents, err := os.ReadDir(dir)
	if err != nil {
		w.pkgs[path] = nil
		return nil
	}
	p := &Pkg{Path: path, Dir: dir, Funcs: map[string]*ast.FuncDecl{}, Vals: map[string]ast.Expr{}, fileOf: map[*ast.FuncDecl]*ast.File{}}
	ctx := build.Default
	ctx.GOOS, ctx.GOARCH, ctx.CgoEnabled = "linux", "amd64", false
	ctx.BuildTags = nil
	for _, e := range ents {
		n := e.Name()
		if e.IsDir() || !strings.HasSuffix(n, ".go") || strings.HasSuffix(n, "_test.go") {
			continue
		}
		if ok, _ := ctx.MatchFile(dir, n); !ok {
			continue
		}
		f, err := parser.ParseFile(w.fset, filepath.Join(dir, n), nil, parser.SkipObjectResolution)
		if err != nil {
			fmt.Fprintln(os.Stderr, "parse:", err)
			os.Exit(2)
		}
		p.Files = append(p.Files, f)
		for _, d := range f.Decls {
			switch d := d.(type) {
			case *ast.FuncDecl:
				name := d.Name.Name
				if d.Recv != nil && len(d.Recv.List) == 1 {
					name = typeName(d.Recv.List[0].Type) + "." + name
				}
				p.Funcs[name] = d
				p.fileOf[d] = f
			case *ast.GenDecl:
				for _, s := range d.Specs {
					if vs, ok := s.(*ast.ValueSpec); ok {
						for i, id := range vs.Names {
							if i < len(vs.Values) {
								p.Vals[id.Name] = vs.Values[i]
							}
						}
					}
				}
			}
		}
	}
	w.pkgs[path] = p
	return p
}

func typeName(e ast.Expr) string {
	switch t := e.(type) {
	case *ast.StarExpr:
		return typeName(t.X)
	case *ast.Ident:
		return t.Name
	case *ast.SelectorExpr:
		return t.Sel.Name
	case *ast.IndexExpr:
		return typeName(t.X)
	}
	return "?"
}

func imports(f *ast.File) map[string]string {
	m := map[string]string{}
	for _, im := range f.Imports {
		p, _ := strconv.Unquote(im.Path.Value)
		name := filepath.Base(p)
		if im.Name != nil {
			name = im.Name.Name
		} else if strings.HasPrefix(name, "v") && len(name) <= 3 { // .../v2
			name = filepath.Base(filepath.Dir(p))
		}
		if p == "github.com/metrico/cloki-config" {
			if im.Name == nil {
				name = "clconfig"
			}
		}
		m[name] = p
	}
	return m
}

// ---------------------------------------------------------------- interpretation frames
type val struct {
	kind   string // router str type
	router int
	str    string // kind str: literal value when known
	known  bool
	src    string
	tpkg   string // kind type: package path and type name of a local variable (&pkg.T{})
	tname  string
}

type frame struct {
	pkg      *Pkg
	file     *ast.File
	imps     map[string]string
	vars     map[string]val
	fn       string
	stack    []Frame
	entry    bool
	recvType string
	retRouter int
}

func (w *World) atom(kind, src string, pos token.Pos) *Cond {
	key := kind
	if kind == "unknown" {
		key = "unknown@" + w.rel(pos) + ":" + src
	}
	if i, ok := w.atomIdx[key]; ok {
		return &Cond{K: "atom", A: i}
	}
	i := len(w.atoms)
	w.atoms = append(w.atoms, Atom{ID: i, Kind: kind, Src: src})
	w.atomIdx[key] = i
	return &Cond{K: "atom", A: i}
}

func isEmptyStr(e ast.Expr) bool {
	b, ok := e.(*ast.BasicLit)
	return ok && b.Kind == token.STRING && (b.Value == `""` || b.Value == "``")
}

func (w *World) selPath(e ast.Expr) string {
	switch t := e.(type) {
	case *ast.Ident:
		return t.Name
	case *ast.SelectorExpr:
		return w.selPath(t.X) + "." + t.Sel.Name
	case *ast.ParenExpr:
		return w.selPath(t.X)
	case *ast.StarExpr:
		return w.selPath(t.X)
	}
	return "?"
}

// condition expression -> Cond
func (w *World) cond(fr *frame, e ast.Expr) *Cond {
	switch t := e.(type) {
	case *ast.ParenExpr:
		return w.cond(fr, t.X)
	case *ast.UnaryExpr:
		if t.Op == token.NOT {
			return cNot(w.cond(fr, t.X))
		}
	case *ast.BinaryExpr:
		switch t.Op {
		case token.LAND:
			return cAnd(w.cond(fr, t.X), w.cond(fr, t.Y))
		case token.LOR:
			return cOr(w.cond(fr, t.X), w.cond(fr, t.Y))
		case token.EQL, token.NEQ:
			neg := t.Op == token.NEQ
			x, y := t.X, t.Y
			if _, ok := x.(*ast.BasicLit); ok {
				x, y = y, x
			}
			var c *Cond
			// router == nil
			if id, ok := x.(*ast.Ident); ok {
				if v, ok := fr.vars[id.Name]; ok && v.kind == "router" {
					if yi, ok := y.(*ast.Ident); ok && yi.Name == "nil" {
						c = cFalse
					}
				}
			}
			if c == nil {
				sp := w.selPath(x)
				if isEmptyStr(y) && strings.HasSuffix(sp, "AUTH_SETTINGS.BASIC.Username") {
					c = cNot(w.atom("login_set", sp+` != ""`, e.Pos()))
				} else if isEmptyStr(y) && strings.HasSuffix(sp, "AUTH_SETTINGS.BASIC.Password") {
					c = cNot(w.atom("pass_set", sp+` != ""`, e.Pos()))
				} else if bl, ok := y.(*ast.BasicLit); ok && bl.Kind == token.STRING && strings.HasSuffix(sp, "SYSTEM_SETTINGS.Mode") {
					lit, _ := strconv.Unquote(bl.Value)
					c = w.atom("mode_eq:"+lit, sp+" == "+bl.Value, e.Pos())
				}
			}
			if c != nil {
				if neg {
					return cNot(c)
				}
				return c
			}
		}
	case *ast.SelectorExpr:
		sp := w.selPath(t)
		if strings.HasSuffix(sp, "HTTP_SETTINGS.Cors.Enable") {
			return w.atom("cors_enable", sp, e.Pos())
		}
		if id, ok := t.X.(*ast.Ident); ok {
			if ip, ok := fr.imps[id.Name]; ok && strings.HasPrefix(ip, w.module) {
				return w.atom("var:"+strings.TrimPrefix(ip, w.module+"/")+"."+t.Sel.Name, sp, e.Pos())
			}
		}
	case *ast.Ident:
		if t.Name == "true" {
			return cTrue
		}
		if t.Name == "false" {
			return cFalse
		}
		if _, local := fr.vars[t.Name]; !local && isPkgLevel(fr.pkg, t.Name) {
			// package-level boolean (e.g. ownHttpServer, HaveStatic): one atom per variable
			return w.atom("var:"+strings.TrimPrefix(fr.pkg.Path, w.module+"/")+"."+t.Name, t.Name, e.Pos())
		}
	}
	return w.atom("unknown", w.src(e), e.Pos())
}

func isPkgLevel(p *Pkg, name string) bool {
	for _, f := range p.Files {
		for _, d := range f.Decls {
			if g, ok := d.(*ast.GenDecl); ok {
				for _, s := range g.Specs {
					if vs, ok := s.(*ast.ValueSpec); ok {
						for _, id := range vs.Names {
							if id.Name == name {
								return true
							}
						}
					}
				}
			}
		}
	}
	return false
}

func (w *World) emit(fr *frame, c *Cond, op Op, pos token.Pos) {
	op.Cond = c
	op.Pos = w.rel(pos)
	op.Stack = append([]Frame(nil), fr.stack...)
	if op.Op == "newrouter" {
		w.newSites[op.Pos] = true
	}
	w.ops = append(w.ops, op)
}

// string value of an expression when it can be read from the source
func (w *World) strOf(fr *frame, e ast.Expr, depth int) (string, bool) {
	if depth > 6 {
		return "", false
	}
	switch t := e.(type) {
	case *ast.BasicLit:
		if t.Kind == token.STRING {
			s, err := strconv.Unquote(t.Value)
			return s, err == nil
		}
	case *ast.ParenExpr:
		return w.strOf(fr, t.X, depth+1)
	case *ast.BinaryExpr:
		if t.Op == token.ADD {
			a, ok1 := w.strOf(fr, t.X, depth+1)
			b, ok2 := w.strOf(fr, t.Y, depth+1)
			return a + b, ok1 && ok2
		}
	case *ast.Ident:
		if v, ok := fr.vars[t.Name]; ok {
			if v.kind == "str" && v.known {
				return v.str, true
			}
			return "", false
		}
		if init, ok := fr.pkg.Vals[t.Name]; ok {
			sub := &frame{pkg: fr.pkg, imps: fr.imps, vars: map[string]val{}}
			return w.strOf(sub, init, depth+1)
		}
	case *ast.SelectorExpr:
		if id, ok := t.X.(*ast.Ident); ok {
			if ip, ok := fr.imps[id.Name]; ok {
				if p := w.load(ip); p != nil {
					if init, ok := p.Vals[t.Sel.Name]; ok {
						// the initialiser lives in some file of p; use that file's imports for nested selectors
						for _, f := range p.Files {
							sub := &frame{pkg: p, imps: imports(f), vars: map[string]val{}}
							if s, ok := w.strOf(sub, init, depth+1); ok {
								return s, true
							}
						}
					}
				}
			}
		}
	}
	return "", false
}

func (w *World) routerOf(fr *frame, e ast.Expr) (int, bool) {
	switch t := e.(type) {
	case *ast.Ident:
		if v, ok := fr.vars[t.Name]; ok && v.kind == "router" {
			return v.router, true
		}
	case *ast.ParenExpr:
		return w.routerOf(fr, t.X)
	}
	return 0, false
}

func (w *World) isMuxNewRouter(fr *frame, e ast.Expr) bool {
	c, ok := e.(*ast.CallExpr)
	if !ok {
		return false
	}
	s, ok := c.Fun.(*ast.SelectorExpr)
	if !ok || s.Sel.Name != "NewRouter" {
		return false
	}
	id, ok := s.X.(*ast.Ident)
	return ok && fr.imps[id.Name] == muxPath
}

// a call chain x.A(..).B(..).C(..): returns the base expression and the calls from the innermost outwards
type link struct {
	name string
	args []ast.Expr
	pos  token.Pos
}

func unchain(e ast.Expr) (ast.Expr, []link) {
	var ls []link
	for {
		c, ok := e.(*ast.CallExpr)
		if !ok {
			break
		}
		s, ok := c.Fun.(*ast.SelectorExpr)
		if !ok {
			break
		}
		ls = append([]link{{s.Sel.Name, c.Args, s.Sel.Pos()}}, ls...)
		e = s.X
	}
	return e, ls
}

func (w *World) mwName(fr *frame, e ast.Expr) (string, []string) {
	var args []string
	if c, ok := e.(*ast.CallExpr); ok {
		for _, a := range c.Args {
			args = append(args, w.src(a))
		}
		e = c.Fun
	}
	if s, ok := e.(*ast.SelectorExpr); ok {
		if id, ok := s.X.(*ast.Ident); ok {
			if ip, ok := fr.imps[id.Name]; ok {
				if ip == w.module+"/reader/utils/middleware" {
					switch s.Sel.Name {
					case "BasicAuthMiddleware":
						return "BasicAuth", args
					case "AcceptEncodingMiddleware":
						return "AcceptEncoding", args
					case "CorsMiddleware":
						return "Cors", args
					case "LoggingMiddleware":
						return "Logging", args
					}
				}
				return "other:" + ip + "." + s.Sel.Name, args
			}
		}
	}
	return "other:" + w.src(e), args
}

// interprets a builder chain rooted at router r; returns the id of a sub-router when the chain ends in Subrouter()
func (w *World) routerChain(fr *frame, c *Cond, r int, ls []link, whole ast.Expr) (int, bool) {
	if len(ls) == 0 {
		return 0, false
	}
	pos := ls[0].pos
	w.visited[w.rel(pos)] = true
	switch ls[0].name {
	case "Use":
		for _, a := range ls[0].args {
			name, args := w.mwName(fr, a)
			op := Op{Op: "use", Router: r, Mw: name, MwArgs: args}
			if fn, ok := passThroughFuncs[name]; ok {
				op.Opaque = w.passThrough(fn)
			}
			if name == "BasicAuth" {
				op.Opaque = w.authReadsOnlyHeader()
			}
			w.emit(fr, c, op, pos)
		}
		return 0, false
	case "HandleFunc", "Handle", "Path", "PathPrefix", "NewRoute", "Methods", "Name":
	case "ServeHTTP", "Walk", "Get", "GetRoute":
		return 0, false
	default:
		w.emit(fr, c, Op{Op: "unknown", Router: r, What: "router method " + ls[0].name + ": " + w.src(whole)}, pos)
		return 0, false
	}
	op := Op{Op: "route", Router: r, Exact: true}
	havePath := false
	sub := false
	for i, l := range ls {
		switch l.name {
		case "HandleFunc", "Handle", "Path", "PathPrefix":
			if i != 0 && (l.name == "HandleFunc" || l.name == "Handle") {
				op.Exact = false
			}
			if havePath || len(l.args) < 1 {
				op.Exact = false
				break
			}
			havePath = true
			s, ok := w.strOf(fr, l.args[0], 0)
			if ok {
				op.Tpl = s
			} else {
				op.Tpl = "<" + w.src(l.args[0]) + ">"
				op.Exact = false
			}
			op.Prefix = l.name == "PathPrefix"
			if l.name == "HandleFunc" || l.name == "Handle" {
				op.Handler = true
			}
		case "NewRoute", "Name":
		case "Methods":
			for _, a := range l.args {
				s, ok := w.strOf(fr, a, 0)
				if !ok {
					s = "<" + w.src(a) + ">"
					op.Exact = false
				}
				op.Methods = append(op.Methods, strings.ToUpper(s))
			}
		case "Handler", "HandlerFunc":
			op.Handler = true
			// a router mounted as the handler of a route of another router
			if len(l.args) == 1 {
				if rr, ok := w.routerOf(fr, l.args[0]); ok {
					w.emit(fr, c, Op{Op: "unknown", Router: rr, What: "router mounted as a handler: " + w.src(whole)}, l.pos)
				}
			}
		case "Subrouter":
			sub = true
		default:
			// Queries, Headers, Host, Schemes, MatcherFunc ...: a matcher the dispatch model does not transcribe
			op.Exact = false
			op.What += l.name + " "
		}
	}
	if sub {
		if !op.Prefix || !op.Exact || len(op.Methods) > 0 {
			w.emit(fr, c, Op{Op: "unknown", Router: r, What: "sub-router with matchers other than a literal PathPrefix: " + w.src(whole)}, pos)
		}
		id := w.nrouter
		w.nrouter++
		w.emit(fr, c, Op{Op: "subrouter", Router: id, Parent: r, Tpl: op.Tpl}, pos)
		return id, true
	}
	if !havePath {
		op.Exact = false
	}
	w.emit(fr, c, op, pos)
	return 0, false
}

var serveFuncs = map[string]int{ // net/http function -> index of the handler argument
	"Serve": 1, "ServeTLS": 1, "ListenAndServe": 1, "ListenAndServeTLS": 3,
}

// resolves the callee of a call expression inside the repository
func (w *World) callee(fr *frame, call *ast.CallExpr) (p *Pkg, d *ast.FuncDecl, name string, extern string) {
	switch f := call.Fun.(type) {
	case *ast.Ident:
		if d, ok := fr.pkg.Funcs[f.Name]; ok {
			return fr.pkg, d, f.Name, ""
		}
		return nil, nil, "", f.Name
	case *ast.SelectorExpr:
		if id, ok := f.X.(*ast.Ident); ok {
			if _, isVar := fr.vars[id.Name]; !isVar {
				if ip, ok := fr.imps[id.Name]; ok {
					if p := w.load(ip); p != nil {
						if d, ok := p.Funcs[f.Sel.Name]; ok {
							return p, d, f.Sel.Name, ""
						}
					}
					return nil, nil, "", ip + "." + f.Sel.Name
				}
			}
			// method call on a local of known type, or on the receiver
			if v, ok := fr.vars[id.Name]; ok && v.kind == "type" {
				if p := w.load(v.tpkg); p != nil {
					if d, ok := p.Funcs[v.tname+"."+f.Sel.Name]; ok {
						return p, d, v.tname + "." + f.Sel.Name, ""
					}
				}
			}
		}
		// any method of that name in the repository packages loaded so far / imported here
		var found []*Pkg
		var fd []*ast.FuncDecl
		var fn []string
		cands := []*Pkg{fr.pkg}
		for _, ip := range fr.imps {
			if p := w.load(ip); p != nil {
				cands = append(cands, p)
			}
		}
		for _, p := range cands {
			for n, d := range p.Funcs {
				if d.Recv != nil && strings.HasSuffix(n, "."+f.Sel.Name) {
					found = append(found, p)
					fd = append(fd, d)
					fn = append(fn, n)
				}
			}
		}
		if len(found) == 1 {
			return found[0], fd[0], fn[0], ""
		}
		if len(found) == 0 {
			return nil, nil, "", "method:" + f.Sel.Name
		}
		return nil, nil, "", "ambiguous method:" + f.Sel.Name
	}
	return nil, nil, "", w.src(call.Fun)
}

// does any type of the repository implement a method of this name taking a *mux.Router?
func (w *World) anyImpl(method string) bool {
	found := false
	filepath.Walk(w.repo, func(path string, info os.FileInfo, err error) error {
		if err != nil || found {
			return nil
		}
		if info.IsDir() {
			b := filepath.Base(path)
			if b == "vendor" || b == "node_modules" || (strings.HasPrefix(b, ".") && path != w.repo) {
				return filepath.SkipDir
			}
			return nil
		}
		if !strings.HasSuffix(path, ".go") || strings.HasSuffix(path, "_test.go") {
			return nil
		}
		f, err := parser.ParseFile(token.NewFileSet(), path, nil, parser.SkipObjectResolution)
		if err != nil {
			return nil
		}
		for _, d := range f.Decls {
			if fd, ok := d.(*ast.FuncDecl); ok && fd.Recv != nil && fd.Name.Name == method && fd.Body != nil {
				found = true
			}
		}
		return nil
	})
	return found
}

func (w *World) handleCall(fr *frame, c *Cond, call *ast.CallExpr, depth int) (int, bool) {
	// immediately invoked closure
	if fl, ok := call.Fun.(*ast.FuncLit); ok {
		w.stmts(fr, c, fl.Body.List, depth+1)
		return 0, false
	}
	base, ls := unchain(call)
	if r, ok := w.routerOf(fr, base); ok && len(ls) > 0 {
		return w.routerChain(fr, c, r, ls, call)
	}
	// srv.ListenAndServe() / srv.Serve(l) ... on an http.Server value whose Handler the translator read
	if len(ls) == 1 && (ls[0].name == "ListenAndServe" || ls[0].name == "ListenAndServeTLS" || ls[0].name == "Serve" || ls[0].name == "ServeTLS") {
		var sv *val
		if id, ok := base.(*ast.Ident); ok {
			if v, ok := fr.vars[id.Name]; ok && v.kind == "server" {
				sv = &v
			}
		} else if v, ok := w.serverLit(fr, base); ok {
			sv = &v
		}
		if sv != nil {
			w.served[w.rel(ls[0].pos)] = true
			if sv.router >= 0 {
				w.emit(fr, c, Op{Op: "serve", Router: sv.router, What: "(http.Server)." + ls[0].name}, call.Pos())
			} else {
				w.emit(fr, c, Op{Op: "serveother", What: "(http.Server)." + ls[0].name + " serves " + sv.src}, call.Pos())
			}
			return 0, false
		}
	}
	for _, a := range call.Args {
		if id, ok := a.(*ast.Ident); ok {
			if v, ok := fr.vars[id.Name]; ok && v.kind == "server" {
				w.emit(fr, c, Op{Op: "serveother", What: "http.Server value " + id.Name + " passed to " + w.src(call.Fun)}, call.Pos())
			}
		}
	}
	if w.isMuxNewRouter(fr, base) && len(ls) > 0 {
		// mux.NewRouter().PathPrefix(..)... : a fresh router used inline
		id := w.nrouter
		w.nrouter++
		w.emit(fr, c, Op{Op: "newrouter", Router: id}, call.Pos())
		return w.routerChain(fr, c, id, ls, call)
	}
	// which arguments are routers?
	var rargs []int
	for i, a := range call.Args {
		if _, ok := w.routerOf(fr, a); ok {
			rargs = append(rargs, i)
		}
	}
	// net/http serving functions
	if s, ok := call.Fun.(*ast.SelectorExpr); ok {
		if id, ok := s.X.(*ast.Ident); ok && fr.imps[id.Name] == "net/http" {
			if _, isVar := fr.vars[id.Name]; !isVar {
				if hi, ok := serveFuncs[s.Sel.Name]; ok && hi < len(call.Args) {
					w.visited[w.rel(s.Sel.Pos())] = true
					w.served[w.rel(s.Sel.Pos())] = true
					if r, ok := w.routerOf(fr, call.Args[hi]); ok {
						w.emit(fr, c, Op{Op: "serve", Router: r, What: "http." + s.Sel.Name}, call.Pos())
					} else {
						w.emit(fr, c, Op{Op: "serveother", What: "http." + s.Sel.Name + " serves " + w.src(call.Args[hi])}, call.Pos())
					}
					return 0, false
				}
				if s.Sel.Name == "Handle" || s.Sel.Name == "HandleFunc" {
					// registration on http.DefaultServeMux: reachable only if the default mux is served (serveother)
					return 0, false
				}
			}
		}
	}
	if len(rargs) == 0 {
		// a call without router arguments may still build and return a router: followed only when its result is bound
		return 0, false
	}
	p, d, name, ext := w.callee(fr, call)
	if d == nil || d.Body == nil {
		if strings.HasPrefix(ext, "method:") && !w.anyImpl(strings.TrimPrefix(ext, "method:")) {
			w.notes = append(w.notes, fmt.Sprintf("%s: %s has no implementation in the repository (interface method), nothing is registered through it", w.rel(call.Pos()), w.src(call.Fun)))
			return 0, false
		}
		for _, i := range rargs {
			r, _ := w.routerOf(fr, call.Args[i])
			w.emit(fr, c, Op{Op: "unknown", Router: r, What: "router passed to " + ext + " (" + w.src(call.Fun) + ")"}, call.Pos())
		}
		return 0, false
	}
	return w.enter(fr, c, p, d, name, call, depth)
}

func (w *World) enter(fr *frame, c *Cond, p *Pkg, d *ast.FuncDecl, name string, call *ast.CallExpr, depth int) (int, bool) {
	if depth > 14 {
		w.emit(fr, c, Op{Op: "unknown", What: "call depth exceeded at " + name}, call.Pos())
		return 0, false
	}
	file := p.fileOf[d]
	nf := &frame{pkg: p, file: file, imps: imports(file), vars: map[string]val{}, retRouter: -1}
	rel := strings.TrimPrefix(p.Path, w.module)
	rel = strings.TrimPrefix(rel, "/")
	if rel == "" {
		rel = "main"
	}
	nf.fn = rel + "." + name
	w.ncall++
	nf.stack = append(append([]Frame(nil), fr.stack...), Frame{Fn: nf.fn, Call: w.ncall})
	if d.Recv != nil && len(d.Recv.List) == 1 && len(d.Recv.List[0].Names) == 1 {
		nf.vars[d.Recv.List[0].Names[0].Name] = val{kind: "type", tpkg: p.Path, tname: typeName(d.Recv.List[0].Type)}
	}
	// bind parameters
	i := 0
	for _, f := range d.Type.Params.List {
		names := f.Names
		if len(names) == 0 {
			i++
			continue
		}
		for _, n := range names {
			if call != nil && i < len(call.Args) {
				if r, ok := w.routerOf(fr, call.Args[i]); ok {
					nf.vars[n.Name] = val{kind: "router", router: r}
				} else if s, ok := w.strOf(fr, call.Args[i], 0); ok {
					nf.vars[n.Name] = val{kind: "str", str: s, known: true}
				} else {
					nf.vars[n.Name] = val{kind: "other"}
				}
			}
			i++
		}
	}
	w.stmts(nf, c, d.Body.List, depth+1)
	if nf.retRouter >= 0 {
		return nf.retRouter, true
	}
	return 0, false
}

func terminates(s ast.Stmt) (ret bool, fatal bool) {
	switch t := s.(type) {
	case *ast.ReturnStmt:
		return true, false
	case *ast.ExprStmt:
		if c, ok := t.X.(*ast.CallExpr); ok {
			switch f := c.Fun.(type) {
			case *ast.Ident:
				if f.Name == "panic" {
					return false, true
				}
			case *ast.SelectorExpr:
				if id, ok := f.X.(*ast.Ident); ok {
					if (id.Name == "os" && f.Sel.Name == "Exit") || (id.Name == "log" && strings.HasPrefix(f.Sel.Name, "Fatal")) {
						return false, true
					}
				}
			}
		}
	}
	return false, false
}

func (w *World) bindAssign(fr *frame, c *Cond, lhs []ast.Expr, rhs []ast.Expr, depth int) {
	if len(lhs) != len(rhs) {
		// multi-value call: still interpret the call
		for _, r := range rhs {
			if call, ok := r.(*ast.CallExpr); ok {
				w.handleCall(fr, c, call, depth)
			}
		}
		return
	}
	for i := range lhs {
		name := ""
		if id, ok := lhs[i].(*ast.Ident); ok {
			name = id.Name
		}
		r := rhs[i]
		if w.isMuxNewRouter(fr, r) {
			id := w.nrouter
			w.nrouter++
			w.emit(fr, c, Op{Op: "newrouter", Router: id}, r.Pos())
			if name != "" && name != "_" {
				fr.vars[name] = val{kind: "router", router: id}
			} else if name == "" {
				w.emit(fr, c, Op{Op: "unknown", Router: id, What: "new router stored in " + w.src(lhs[i])}, r.Pos())
			}
			continue
		}
		if rr, ok := w.routerOf(fr, r); ok {
			if name != "" {
				fr.vars[name] = val{kind: "router", router: rr}
			} else {
				w.emit(fr, c, Op{Op: "unknown", Router: rr, What: "router stored in " + w.src(lhs[i])}, r.Pos())
			}
			continue
		}
		if call, ok := r.(*ast.CallExpr); ok {
			if id, ok := w.handleCall(fr, c, call, depth); ok && name != "" {
				fr.vars[name] = val{kind: "router", router: id}
				continue
			}
			// a call without router arguments whose result may be a router: follow functions of the repository
			// that return *mux.Router
			if p, d, fname, _ := w.callee(fr, call); d != nil && d.Body != nil && returnsRouter(d) {
				noRouterArg := true
				for _, a := range call.Args {
					if _, ok := w.routerOf(fr, a); ok {
						noRouterArg = false
					}
				}
				if noRouterArg {
					if id, ok := w.enter(fr, c, p, d, fname, call, depth); ok && name != "" {
						fr.vars[name] = val{kind: "router", router: id}
						continue
					}
				}
			}
		}
		// &http.Server{Handler: router, ...}
		if v, ok := w.serverLit(fr, r); ok {
			if name != "" && name != "_" {
				fr.vars[name] = v
			} else {
				w.emit(fr, c, Op{Op: "serveother", What: "http.Server stored in " + w.src(lhs[i])}, r.Pos())
			}
			continue
		}
		// &pkg.T{} / pkg.T{} / new(pkg.T): remember the type for method resolution
		if name != "" {
			if tp, tn, ok := w.litType(fr, r); ok {
				fr.vars[name] = val{kind: "type", tpkg: tp, tname: tn}
				continue
			}
			if s, ok := w.strOf(fr, r, 0); ok {
				fr.vars[name] = val{kind: "str", str: s, known: true}
				continue
			}
			if v, ok := fr.vars[name]; ok && (v.kind == "router") {
				// a router variable overwritten by something unknown
				w.emit(fr, c, Op{Op: "unknown", Router: v.router, What: "router variable " + name + " reassigned: " + w.src(r)}, r.Pos())
			}
			fr.vars[name] = val{kind: "other", src: w.src(r)}
		}
	}
}

func returnsRouter(d *ast.FuncDecl) bool {
	if d.Type.Results == nil {
		return false
	}
	for _, f := range d.Type.Results.List {
		if st, ok := f.Type.(*ast.StarExpr); ok {
			if s, ok := st.X.(*ast.SelectorExpr); ok && s.Sel.Name == "Router" {
				return true
			}
		}
	}
	return false
}

// &http.Server{... Handler: h ...}: router = the tracked router that is the Handler, or -1 (nil / absent = DefaultServeMux / other)
func (w *World) serverLit(fr *frame, e ast.Expr) (val, bool) {
	if pe, ok := e.(*ast.ParenExpr); ok {
		e = pe.X
	}
	if u, ok := e.(*ast.UnaryExpr); ok && u.Op == token.AND {
		e = u.X
	}
	cl, ok := e.(*ast.CompositeLit)
	if !ok {
		return val{}, false
	}
	s, ok := cl.Type.(*ast.SelectorExpr)
	if !ok || s.Sel.Name != "Server" {
		return val{}, false
	}
	id, ok := s.X.(*ast.Ident)
	if !ok || fr.imps[id.Name] != "net/http" {
		return val{}, false
	}
	v := val{kind: "server", router: -1, src: "http.DefaultServeMux (no Handler field)"}
	for _, el := range cl.Elts {
		kv, ok := el.(*ast.KeyValueExpr)
		if !ok {
			v.src = "an http.Server literal without field names"
			continue
		}
		if k, ok := kv.Key.(*ast.Ident); ok && k.Name == "Handler" {
			if r, ok := w.routerOf(fr, kv.Value); ok {
				v.router = r
			} else {
				v.src = w.src(kv.Value)
			}
		}
	}
	w.served[w.rel(cl.Pos())] = true
	return v, true
}

func (w *World) litType(fr *frame, e ast.Expr) (string, string, bool) {
	if u, ok := e.(*ast.UnaryExpr); ok && u.Op == token.AND {
		e = u.X
	}
	if cl, ok := e.(*ast.CompositeLit); ok {
		switch t := cl.Type.(type) {
		case *ast.SelectorExpr:
			if id, ok := t.X.(*ast.Ident); ok {
				if ip, ok := fr.imps[id.Name]; ok {
					return ip, t.Sel.Name, true
				}
			}
		case *ast.Ident:
			return fr.pkg.Path, t.Name, true
		}
	}
	return "", "", false
}

// mentions reports whether the node refers to a router-bound identifier
func (w *World) mentions(fr *frame, n ast.Node) bool {
	found := false
	ast.Inspect(n, func(x ast.Node) bool {
		if id, ok := x.(*ast.Ident); ok {
			if v, ok := fr.vars[id.Name]; ok && v.kind == "router" {
				found = true
			}
		}
		return !found
	})
	return found
}

// stmts interprets a statement list under condition c; returns the condition under which it returned early
func (w *World) stmts(fr *frame, c *Cond, list []ast.Stmt, depth int) *Cond {
	live := c
	ret := cFalse
	for _, s := range list {
		if live.K == "false" {
			break
		}
		if r, fatal := terminates(s); r || fatal {
			if rs, ok := s.(*ast.ReturnStmt); ok {
				for _, e := range rs.Results {
					if id, ok := w.routerOf(fr, e); ok {
						fr.retRouter = id
					} else if w.isMuxNewRouter(fr, e) {
						id := w.nrouter
						w.nrouter++
						w.emit(fr, live, Op{Op: "newrouter", Router: id}, e.Pos())
						fr.retRouter = id
					} else if call, ok := e.(*ast.CallExpr); ok {
						w.handleCall(fr, live, call, depth)
					}
				}
			}
			if r && !fr.entry {
				ret = cOr(ret, live)
			}
			// in the entry function a return / panic ends the process: nothing is served, nothing to prove
			live = cFalse
			break
		}
		switch t := s.(type) {
		case *ast.ExprStmt:
			if call, ok := t.X.(*ast.CallExpr); ok {
				w.handleCall(fr, live, call, depth)
			}
		case *ast.GoStmt:
			w.handleCall(fr, live, t.Call, depth)
		case *ast.DeferStmt:
			w.handleCall(fr, live, t.Call, depth)
		case *ast.AssignStmt:
			w.bindAssign(fr, live, t.Lhs, t.Rhs, depth)
		case *ast.DeclStmt:
			if g, ok := t.Decl.(*ast.GenDecl); ok {
				for _, sp := range g.Specs {
					if vs, ok := sp.(*ast.ValueSpec); ok && len(vs.Values) == len(vs.Names) {
						var lhs []ast.Expr
						for _, n := range vs.Names {
							lhs = append(lhs, n)
						}
						w.bindAssign(fr, live, lhs, vs.Values, depth)
					}
				}
			}
		case *ast.BlockStmt:
			r := w.stmts(fr, live, t.List, depth)
			ret = cOr(ret, r)
			live = cAnd(live, cNot(r))
		case *ast.IfStmt:
			if t.Init != nil {
				w.stmts(fr, live, []ast.Stmt{t.Init}, depth)
			}
			// a branch that only ends the process (panic / os.Exit, or a return from main) is assumed not taken:
			// nothing is served then, so there is nothing to prove
			if t.Else == nil && (onlyFatal(t.Body) || (fr.entry && endsWithReturn(t.Body))) && !w.mentions(fr, t.Body) {
				break
			}
			cc := w.condLazy(fr, t)
			if cAnd(live, cc).K == "false" {
				w.markDead(t.Body.Pos(), t.Body.End())
			}
			r1 := w.stmts(fr, cAnd(live, cc), t.Body.List, depth)
			r2 := cFalse
			if t.Else != nil {
				if cAnd(live, cNot(cc)).K == "false" {
					w.markDead(t.Else.Pos(), t.Else.End())
				}
				r2 = w.stmts(fr, cAnd(live, cNot(cc)), []ast.Stmt{t.Else}, depth)
			}
			r := cOr(r1, r2)
			ret = cOr(ret, r)
			live = cAnd(live, cNot(r))
		case *ast.ForStmt:
			if w.mentions(fr, t.Body) || containsCalls(t.Body) {
				w.stmts(fr, live, t.Body.List, depth)
			}
		case *ast.RangeStmt:
			w.rangeStmt(fr, live, t, depth)
		case *ast.SwitchStmt:
			for _, cl := range t.Body.List {
				if cc, ok := cl.(*ast.CaseClause); ok && (w.mentionsList(fr, cc.Body)) {
					a := w.atom("unknown", "switch case at "+w.rel(cc.Pos()), cc.Pos())
					w.stmts(fr, cAnd(live, a), cc.Body, depth)
				}
			}
		case *ast.LabeledStmt:
			w.stmts(fr, live, []ast.Stmt{t.Stmt}, depth)
		}
	}
	return ret
}

// the condition of an if statement is translated only when its branches matter (they mention a router or call
// something that receives one); otherwise no atom is created for it
func (w *World) condLazy(fr *frame, t *ast.IfStmt) *Cond {
	matters := w.mentions(fr, t.Body) || endsWithReturn(t.Body)
	if t.Else != nil {
		matters = matters || w.mentions(fr, t.Else)
	}
	if !matters {
		return w.atomLazy()
	}
	return w.cond(fr, t.Cond)
}

// placeholder for a condition that guards nothing of interest
func (w *World) atomLazy() *Cond { return cTrue }

func onlyFatal(b *ast.BlockStmt) bool {
	if len(b.List) == 0 {
		return false
	}
	_, fatal := terminates(b.List[len(b.List)-1])
	return fatal
}
func endsWithReturn(b *ast.BlockStmt) bool {
	if len(b.List) == 0 {
		return false
	}
	r, _ := terminates(b.List[len(b.List)-1])
	return r
}
func containsCalls(n ast.Node) bool { return false }

func (w *World) mentionsList(fr *frame, l []ast.Stmt) bool {
	for _, s := range l {
		if w.mentions(fr, s) {
			return true
		}
	}
	return false
}

func (w *World) rangeStmt(fr *frame, c *Cond, t *ast.RangeStmt, depth int) {
	if !w.mentions(fr, t.Body) {
		return
	}
	vname := ""
	if id, ok := t.Value.(*ast.Ident); ok {
		vname = id.Name
	}
	if cl, ok := t.X.(*ast.CompositeLit); ok && len(cl.Elts) > 0 {
		for _, e := range cl.Elts {
			if vname != "" {
				if s, ok := w.strOf(fr, e, 0); ok {
					fr.vars[vname] = val{kind: "str", str: s, known: true}
				} else {
					fr.vars[vname] = val{kind: "str", known: false, src: w.src(e)}
				}
			}
			w.stmts(fr, c, t.Body.List, depth)
		}
		return
	}
	// unknown number of iterations: the body is interpreted once (zero iterations register nothing, which is safe)
	if vname != "" {
		fr.vars[vname] = val{kind: "other"}
	}
	w.stmts(fr, c, t.Body.List, depth)
}

// ---------------------------------------------------------------- census of registration sites
func (w *World) census() {
	var sites []string
	filepath.Walk(w.repo, func(path string, info os.FileInfo, err error) error {
		if err != nil {
			return nil
		}
		if info.IsDir() {
			b := filepath.Base(path)
			if b == "vendor" || b == "node_modules" || b == "testdata" || (strings.HasPrefix(b, ".") && path != w.repo) {
				return filepath.SkipDir
			}
			return nil
		}
		if !strings.HasSuffix(path, ".go") || strings.HasSuffix(path, "_test.go") {
			return nil
		}
		f, err := parser.ParseFile(w.fset, path, nil, parser.SkipObjectResolution)
		if err != nil {
			return nil
		}
		usesMux := false
		for _, im := range f.Imports {
			if p, _ := strconv.Unquote(im.Path.Value); p == muxPath {
				usesMux = true
			}
		}
		if !usesMux {
			return nil
		}
		ast.Inspect(f, func(n ast.Node) bool {
			c, ok := n.(*ast.CallExpr)
			if !ok {
				return true
			}
			s, ok := c.Fun.(*ast.SelectorExpr)
			if !ok {
				return true
			}
			switch s.Sel.Name {
			case "HandleFunc", "Handle", "PathPrefix", "Path", "NewRoute", "Use", "Subrouter":
				// http.Handle / http.HandleFunc register on the default mux, not on a router
				if id, ok := s.X.(*ast.Ident); ok && id.Name == "http" {
					return true
				}
				// inner links of a chain are covered by the chain's first link
				if _, inner := s.X.(*ast.CallExpr); inner {
					return true
				}
				sites = append(sites, w.rel(s.Sel.Pos()))
			}
			return true
		})
		return nil
	})
	sort.Strings(sites)
	fr := &frame{}
	for _, s := range sites {
		if !w.visited[s] {
			w.ops = append(w.ops, Op{Cond: cTrue, Op: "unknown", What: "registration call site never reached from main(): " + s, Pos: s, Stack: fr.stack})
		}
	}
}

// ---------------------------------------------------------------- output
func coqStr(s string) string {
	var parts []string
	var cur strings.Builder
	flush := func() {
		if cur.Len() > 0 {
			parts = append(parts, `"`+cur.String()+`"`)
			cur.Reset()
		}
	}
	for i := 0; i < len(s); i++ {
		b := s[i]
		if b == '"' {
			cur.WriteString(`""`)
		} else if b >= 32 && b < 127 {
			cur.WriteByte(b)
		} else {
			flush()
			parts = append(parts, fmt.Sprintf("(String (ascii_of_nat %d) EmptyString)", b))
		}
	}
	flush()
	if len(parts) == 0 {
		return `""`
	}
	if len(parts) == 1 {
		return parts[0]
	}
	return "(" + strings.Join(parts, " ++ ") + ")"
}

func coqMw(m string) string {
	switch m {
	case "BasicAuth", "AcceptEncoding", "Cors", "Logging":
		return m
	}
	return "(MwOther " + coqStr(m) + ")"
}

func main() {
	if len(os.Args) != 4 {
		fmt.Fprintln(os.Stderr, "usage: gen_routes <repo> <out.v> <out.json>")
		os.Exit(2)
	}
	repo, _ := filepath.Abs(os.Args[1])
	w := &World{repo: repo, fset: token.NewFileSet(), pkgs: map[string]*Pkg{}, atomIdx: map[string]int{}, visited: map[string]bool{},
		served: map[string]bool{}, newSites: map[string]bool{}, passCache: map[string]string{}}
	gm, err := os.ReadFile(filepath.Join(repo, "go.mod"))
	if err != nil {
		fmt.Fprintln(os.Stderr, err)
		os.Exit(2)
	}
	for _, ln := range strings.Split(string(gm), "\n") {
		if strings.HasPrefix(ln, "module ") {
			w.module = strings.TrimSpace(strings.TrimPrefix(ln, "module "))
		}
	}
	root := w.load(w.module)
	if root == nil || root.Funcs["main"] == nil {
		fmt.Fprintln(os.Stderr, "no func main in", repo)
		os.Exit(2)
	}
	d := root.Funcs["main"]
	fr := &frame{pkg: root, file: root.fileOf[d], imps: imports(root.fileOf[d]), vars: map[string]val{}, fn: "main.main", entry: true, retRouter: -1}
	fr.stack = []Frame{{Fn: "main.main", Call: 0}}
	w.stmts(fr, cTrue, d.Body.List, 0)
	w.census()
	w.serverCensus()

	var must []int
	for _, a := range w.atoms {
		if a.Kind == "login_set" || a.Kind == "pass_set" {
			must = append(must, a.ID)
		}
	}
	var b strings.Builder
	b.WriteString("(* GENERATED by translate/gen_routes from the Go sources -- do not edit. *)\n")
	b.WriteString("From Coq Require Import List String Ascii Bool.\nFrom Qryn Require Import model.Auth model.Router.\nImport ListNotations.\nOpen Scope string_scope.\n\n")
	fmt.Fprintf(&b, "Definition gen_natoms : nat := %d.\n", len(w.atoms))
	b.WriteString("(* the atoms of the conditions: what each one stands for in the source *)\nDefinition gen_atoms : list (nat * string) := [\n")
	for i, a := range w.atoms {
		sep := ";"
		if i == len(w.atoms)-1 {
			sep = ""
		}
		fmt.Fprintf(&b, "  (%d, %s)%s\n", a.ID, coqStr(a.Kind+" -- "+a.Src), sep)
	}
	b.WriteString("].\n")
	// the same, as data: model/AuthEnv.v turns a configuration (as portEnv leaves it) into a valuation of the atoms
	var aks []string
	for _, a := range w.atoms {
		switch {
		case a.Kind == "login_set":
			aks = append(aks, "AKLogin")
		case a.Kind == "pass_set":
			aks = append(aks, "AKPass")
		case a.Kind == "cors_enable":
			aks = append(aks, "AKCors")
		case strings.HasPrefix(a.Kind, "mode_eq:"):
			aks = append(aks, "AKMode "+coqStr(strings.TrimPrefix(a.Kind, "mode_eq:")))
		default:
			aks = append(aks, "AKOther")
		}
	}
	fmt.Fprintf(&b, "Definition gen_atom_kinds : list atom_kind := [%s].\n", strings.Join(aks, "; "))
	b.WriteString("(* credentials configured = these atoms hold (login and password non-empty) *)\n")
	ms := []string{}
	for _, m := range must {
		ms = append(ms, strconv.Itoa(m))
	}
	fmt.Fprintf(&b, "Definition gen_must : list nat := [%s].\n", strings.Join(ms, "; "))
	fmt.Fprintf(&b, "Definition gen_credentials_atoms : bool := %v.  (* both a login and a password condition occur in the assembly *)\n", hasKinds(w.atoms))
	la, pa := -1, -1
	for _, a := range w.atoms {
		if a.Kind == "login_set" {
			la = a.ID
		}
		if a.Kind == "pass_set" {
			pa = a.ID
		}
	}
	fmt.Fprintf(&b, "Definition gen_login_atom : nat := %d.\nDefinition gen_pass_atom : nat := %d.\n", max0(la), max0(pa))
	// the valuation of: login set, password EMPTY, Mode "all", CORS off, every other atom false
	var ow []string
	var owb []bool
	for _, a := range w.atoms {
		v := a.Kind == "login_set" || a.Kind == "mode_eq:all"
		ow = append(ow, fmt.Sprint(v))
		owb = append(owb, v)
	}
	fmt.Fprintf(&b, "(* the configuration: login set, password empty, Mode \"all\", CORS off (every other atom false) *)\nDefinition gen_open_witness : list bool := [%s].\n", strings.Join(ow, "; "))
	openWitness = owb
	b.WriteString("(* census of every site in the repository that can open a listener or attach a handler outside the tracked router:\n   kind, number of sites, number of sites that are NOT explained by the assembly (each of those is an OUnknown / OServeOther below) *)\n")
	b.WriteString("Definition gen_census : list (string * (nat * nat)) := [\n")
	cc := w.censusCounts()
	var kinds []string
	for k := range cc {
		kinds = append(kinds, k)
	}
	sort.Strings(kinds)
	for i, k := range kinds {
		sep := ";"
		if i == len(kinds)-1 {
			sep = ""
		}
		fmt.Fprintf(&b, "  (%s, (%d, %d))%s\n", coqStr(k), cc[k][0], cc[k][1], sep)
	}
	b.WriteString("].\n(* some call serves http.DefaultServeMux (a nil handler): whatever pprof / expvar / http.Handle registered there is exposed *)\n")
	fmt.Fprintf(&b, "Definition gen_default_mux_served : bool := %v.\n\n", len(w.defaultMuxServed) > 0)
	b.WriteString("Definition gen_assembly : list gop := [\n")
	for i, o := range w.ops {
		var s string
		switch o.Op {
		case "newrouter":
			s = fmt.Sprintf("ONewRouter %d", o.Router)
		case "subrouter":
			s = fmt.Sprintf("OSubrouter %d %d %s", o.Router, o.Parent, coqStr(o.Tpl))
		case "use":
			mw := o.Mw
			if o.Opaque != "" {
				// the source of the wrapper is not (recognisably) pass-through: not the middleware the model calls transparent
				if mw == "BasicAuth" {
					mw = "BasicAuth: not the modelled middleware: " + o.Opaque
				} else {
					mw = mw + ": not a pass-through wrapper: " + o.Opaque
				}
			}
			if mw == "BasicAuth" && !(len(o.MwArgs) == 2 && strings.HasSuffix(o.MwArgs[0], "AUTH_SETTINGS.BASIC.Username") &&
				strings.HasSuffix(o.MwArgs[1], "AUTH_SETTINGS.BASIC.Password")) {
				// not the configured (login, password) pair, in that order: not the middleware the model describes
				mw = "BasicAuthMiddleware(" + strings.Join(o.MwArgs, ", ") + ")"
			}
			s = fmt.Sprintf("OUse %d %s", o.Router, coqMw(mw))
		case "route":
			var mm []string
			for _, m := range o.Methods {
				mm = append(mm, coqStr(m))
			}
			s = fmt.Sprintf("ORoute {| rt_router := %d; rt_prefix := %v; rt_tpl := %s; rt_methods := [%s]; rt_exact := %v |}",
				o.Router, o.Prefix, coqStr(o.Tpl), strings.Join(mm, "; "), o.Exact && o.Handler)
		case "serve":
			s = fmt.Sprintf("OServe %d", o.Router)
		case "serveother":
			s = "OServeOther " + coqStr(o.What)
		default:
			s = "OUnknown " + coqStr(o.What)
		}
		sep := ";"
		if i == len(w.ops)-1 {
			sep = ""
		}
		fmt.Fprintf(&b, "  (%s, %s)%s  (* %s *)\n", o.Cond.coq(), s, sep, o.Pos)
	}
	b.WriteString("].\n")
	if err := os.WriteFile(os.Args[2], []byte(b.String()), 0644); err != nil {
		fmt.Fprintln(os.Stderr, err)
		os.Exit(2)
	}
	if w.defaultMux == nil {
		w.defaultMux = []string{}
	}
	if w.defaultMuxServed == nil {
		w.defaultMuxServed = []string{}
	}
	counts := map[string]map[string]int{}
	for k, v := range w.censusCounts() {
		counts[k] = map[string]int{"sites": v[0], "flagged": v[1]}
	}
	out := map[string]interface{}{"repo": repo, "module": w.module, "atoms": w.atoms, "must": must, "ops": w.ops, "notes": w.notes, "nrouter": w.nrouter,
		"census": w.sites, "census_counts": counts, "default_mux_patterns": w.defaultMux, "default_mux_served": w.defaultMuxServed,
		"pass_through_source": w.passCache, "open_witness": openWitness, "hook_files_skipped": w.hookFiles}
	js, _ := json.MarshalIndent(out, "", " ")
	if err := os.WriteFile(os.Args[3], js, 0644); err != nil {
		fmt.Fprintln(os.Stderr, err)
		os.Exit(2)
	}
}

var openWitness []bool

func max0(i int) int {
	if i < 0 {
		return 0
	}
	return i
}

func hasKinds(as []Atom) bool {
	l, p := false, false
	for _, a := range as {
		l = l || a.Kind == "login_set"
		p = p || a.Kind == "pass_set"
	}
	return l && p
}
