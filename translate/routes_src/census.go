// Census of every place in the repository that can open a listener or attach a handler outside the tracked router,
// and the source-level check that the wrappers standing before BasicAuth are pass-through.
//
// Every non-test .go file of the repository is read (all build tags, every package).  A site is either explained by
// the assembly (it IS an interpreted operation, it is statically dead, it only registers on http.DefaultServeMux and
// nothing serves the default mux, it is a handler and not a server ...) or it becomes an OUnknown / OServeOther
// operation, which makes assembly_ok false, so that the theorem auth_first_everywhere cannot be proved past it.
package main

import (
	"fmt"
	"go/ast"
	"go/parser"
	"go/token"
	"os"
	"path/filepath"
	"sort"
	"strconv"
	"strings"
)

// ---------------------------------------------------------------- pass-through wrappers
// middleware name of the model -> function of reader/utils/middleware
var passThroughFuncs = map[string]string{
	"AcceptEncoding": "AcceptEncodingMiddleware",
	"Cors":           "CorsMiddleware",
	"Logging":        "LoggingMiddleware",
}

// passThrough returns "" when every path through the handler the middleware builds calls next.ServeHTTP exactly once
// and never answers on its own (no return before it, no WriteHeader / Write / http.Error on the ResponseWriter);
// otherwise the reason.  model/Router.v treats these three as `transparent`; a wrapper that can answer a request
// itself (say, a CORS layer answering pre-flights) is translated as an unknown middleware instead, so that standing
// before BasicAuth it fails `guarded`.
func (w *World) passThrough(fn string) string {
	if r, ok := w.passCache[fn]; ok {
		return r
	}
	r := w.passThroughUncached(fn)
	w.passCache[fn] = r
	return r
}

func (w *World) passThroughUncached(fn string) string {
	p := w.load(w.module + "/reader/utils/middleware")
	if p == nil || p.Funcs[fn] == nil || p.Funcs[fn].Body == nil {
		return "source of " + fn + " not found"
	}
	d := p.Funcs[fn]
	// the handler: the innermost func(w http.ResponseWriter, r *http.Request) literal; next: the http.Handler parameter
	// of the nearest function around it
	var handler *ast.FuncLit
	nextName := ""
	var visit func(n ast.Node, next string)
	handlers := 0
	visit = func(n ast.Node, next string) {
		ast.Inspect(n, func(x ast.Node) bool {
			fl, ok := x.(*ast.FuncLit)
			if !ok {
				return true
			}
			if isHandlerSig(fl.Type) {
				handlers++
				handler, nextName = fl, next
				return false
			}
			nn := next
			if h := handlerParam(fl.Type); h != "" {
				nn = h
			}
			visit(fl.Body, nn)
			return false
		})
	}
	visit(d.Body, handlerParam(d.Type))
	if handler == nil || handlers != 1 {
		return fmt.Sprintf("%s builds %d handler literals (expected one)", fn, handlers)
	}
	if nextName == "" {
		return fn + ": no http.Handler parameter to call"
	}
	wName, rName := "", ""
	if ps := handler.Type.Params.List; len(ps) == 2 && len(ps[0].Names) == 1 && len(ps[1].Names) == 1 {
		wName, rName = ps[0].Names[0].Name, ps[1].Names[0].Name
	}
	_ = rName
	a := &ptAnalysis{w: w, next: nextName, rw: wName}
	fall := a.block(handler.Body.List, map[int]bool{0: true})
	for c := range fall {
		a.finals[c] = true
	}
	if a.bad != "" {
		return fn + ": " + a.bad
	}
	for c := range a.finals {
		if c != 1 {
			return fmt.Sprintf("%s: a path through the handler calls %s.ServeHTTP %d times%s", fn, nextName, c, a.where)
		}
	}
	if len(a.finals) == 0 {
		return fn + ": the handler never returns"
	}
	return ""
}

func isHandlerSig(t *ast.FuncType) bool {
	if t.Params == nil || len(t.Params.List) != 2 || t.Results != nil && len(t.Results.List) > 0 {
		return false
	}
	a, ok1 := t.Params.List[0].Type.(*ast.SelectorExpr)
	st, ok2 := t.Params.List[1].Type.(*ast.StarExpr)
	if !ok1 || !ok2 || a.Sel.Name != "ResponseWriter" {
		return false
	}
	b, ok := st.X.(*ast.SelectorExpr)
	return ok && b.Sel.Name == "Request"
}

func handlerParam(t *ast.FuncType) string {
	if t.Params == nil {
		return ""
	}
	for _, f := range t.Params.List {
		if s, ok := f.Type.(*ast.SelectorExpr); ok && s.Sel.Name == "Handler" && len(f.Names) == 1 {
			return f.Names[0].Name
		}
	}
	return ""
}

type ptAnalysis struct {
	w      *World
	next   string
	rw     string
	finals map[int]bool
	bad    string
	where  string
}

func (a *ptAnalysis) mentionsNext(n ast.Node) bool {
	found := false
	ast.Inspect(n, func(x ast.Node) bool {
		if id, ok := x.(*ast.Ident); ok && id.Name == a.next {
			found = true
		}
		return !found
	})
	return found
}

// does the node answer the request on the handler's own ResponseWriter (w.WriteHeader, w.Write, http.Error(w, ...),
// fmt.Fprint(w, ...), io.WriteString(w, ...), http.Redirect / NotFound / ServeContent ...)?
func (a *ptAnalysis) answers(n ast.Node) bool {
	found := false
	ast.Inspect(n, func(x ast.Node) bool {
		c, ok := x.(*ast.CallExpr)
		if !ok {
			return !found
		}
		if s, ok := c.Fun.(*ast.SelectorExpr); ok {
			if id, ok := s.X.(*ast.Ident); ok && id.Name == a.rw && (s.Sel.Name == "WriteHeader" || s.Sel.Name == "Write") {
				found = true
			}
			if id, ok := s.X.(*ast.Ident); ok && (id.Name == "http" || id.Name == "fmt" || id.Name == "io") {
				switch s.Sel.Name {
				case "Error", "Redirect", "NotFound", "ServeContent", "ServeFile", "Fprint", "Fprintf", "Fprintln", "WriteString", "Copy":
					for _, arg := range c.Args {
						if ai, ok := arg.(*ast.Ident); ok && ai.Name == a.rw {
							found = true
						}
					}
				}
			}
		}
		return !found
	})
	return found
}

func containsReturn(n ast.Node) bool {
	found := false
	ast.Inspect(n, func(x ast.Node) bool {
		switch t := x.(type) {
		case *ast.FuncLit:
			return false
		case *ast.ReturnStmt:
			found = true
		case *ast.CallExpr:
			if id, ok := t.Fun.(*ast.Ident); ok && id.Name == "panic" {
				found = true
			}
		}
		return !found
	})
	return found
}

func (a *ptAnalysis) fail(msg string, pos token.Pos) {
	if a.bad == "" {
		a.bad = msg + " (" + a.w.rel(pos) + ")"
	}
}

func bump(in map[int]bool) map[int]bool {
	out := map[int]bool{}
	for c := range in {
		if c >= 2 {
			out[2] = true
		} else {
			out[c+1] = true
		}
	}
	return out
}

func union(x, y map[int]bool) map[int]bool {
	out := map[int]bool{}
	for c := range x {
		out[c] = true
	}
	for c := range y {
		out[c] = true
	}
	return out
}

// possible numbers of next.ServeHTTP calls made so far on the paths that fall through the statement list
func (a *ptAnalysis) block(list []ast.Stmt, in map[int]bool) map[int]bool {
	if a.finals == nil {
		a.finals = map[int]bool{}
	}
	cur := in
	for _, s := range list {
		if len(cur) == 0 {
			break
		}
		switch t := s.(type) {
		case *ast.ExprStmt:
			if c, ok := t.X.(*ast.CallExpr); ok {
				if sel, ok := c.Fun.(*ast.SelectorExpr); ok && sel.Sel.Name == "ServeHTTP" {
					if id, ok := sel.X.(*ast.Ident); ok && id.Name == a.next {
						cur = bump(cur)
						continue
					}
				}
				if id, ok := c.Fun.(*ast.Ident); ok && id.Name == "panic" {
					a.fail("the handler can panic instead of calling next", t.Pos())
					return nil
				}
			}
			if a.mentionsNext(t) {
				a.fail("next is used other than by a direct next.ServeHTTP call", t.Pos())
			}
			if a.answers(t) {
				a.fail("the wrapper writes an answer itself", t.Pos())
			}
		case *ast.ReturnStmt:
			for c := range cur {
				a.finals[c] = true
				if c != 1 && a.where == "" {
					a.where = " (return at " + a.w.rel(t.Pos()) + ")"
				}
			}
			cur = map[int]bool{}
		case *ast.IfStmt:
			if t.Init != nil && (a.mentionsNext(t.Init) || a.answers(t.Init)) || a.mentionsNext(t.Cond) {
				a.fail("next used in a condition", t.Pos())
			}
			th := a.block(t.Body.List, cur)
			el := cur
			if t.Else != nil {
				el = a.block([]ast.Stmt{t.Else}, cur)
			}
			cur = union(th, el)
		case *ast.BlockStmt:
			cur = a.block(t.List, cur)
		case *ast.DeferStmt, *ast.AssignStmt, *ast.DeclStmt, *ast.IncDecStmt, *ast.EmptyStmt:
			if a.mentionsNext(t) {
				a.fail("next is used other than by a direct next.ServeHTTP call", t.Pos())
			}
			if a.answers(t) {
				a.fail("the wrapper writes an answer itself", t.Pos())
			}
		default:
			// loops, switch, select, go, labels ...: accepted only when they neither touch next nor leave the handler
			if a.mentionsNext(t) || containsReturn(t) || a.answers(t) {
				a.fail("control flow around next that the translator does not follow", t.Pos())
			}
		}
	}
	return cur
}

// ---------------------------------------------------------------- BasicAuth reads the Authorization header only
// model/Auth.v decides on the value of Header.Get("Authorization") alone.  The handler BasicAuthMiddleware builds may
// use its request parameter only as r.Header.Get("Authorization") and by handing r on to next.ServeHTTP; any other use
// (r.Method, r.URL, r.RemoteAddr, another header, a cookie, a form value ...) means the decision can depend on something
// the model does not see (an exemption by path, method, address, a second way to present credentials): the middleware
// is then translated as an unknown one and auth_first_everywhere cannot be proved.
func (w *World) authReadsOnlyHeader() string {
	if r, ok := w.passCache["BasicAuthMiddleware"]; ok {
		return r
	}
	r := w.authReadsOnlyHeaderUncached()
	w.passCache["BasicAuthMiddleware"] = r
	return r
}

func (w *World) authReadsOnlyHeaderUncached() string {
	const fn = "BasicAuthMiddleware"
	p := w.load(w.module + "/reader/utils/middleware")
	if p == nil || p.Funcs[fn] == nil || p.Funcs[fn].Body == nil {
		return "source of " + fn + " not found"
	}
	var handler *ast.FuncLit
	n := 0
	ast.Inspect(p.Funcs[fn].Body, func(x ast.Node) bool {
		if fl, ok := x.(*ast.FuncLit); ok && isHandlerSig(fl.Type) {
			handler = fl
			n++
			return false
		}
		return true
	})
	if handler == nil || n != 1 {
		return fmt.Sprintf("%s builds %d handler literals (expected one)", fn, n)
	}
	ps := handler.Type.Params.List
	if len(ps[1].Names) != 1 {
		return fn + ": unnamed request parameter"
	}
	rName := ps[1].Names[0].Name
	// every occurrence of the request identifier must be inside r.Header.Get("Authorization") or be an argument of X.ServeHTTP
	allowed := map[*ast.Ident]bool{}
	ast.Inspect(handler.Body, func(x ast.Node) bool {
		c, ok := x.(*ast.CallExpr)
		if !ok {
			return true
		}
		s, ok := c.Fun.(*ast.SelectorExpr)
		if !ok {
			return true
		}
		if s.Sel.Name == "ServeHTTP" && len(c.Args) == 2 {
			if id, ok := c.Args[1].(*ast.Ident); ok && id.Name == rName {
				allowed[id] = true
			}
		}
		if s.Sel.Name == "Get" && len(c.Args) == 1 {
			if hs, ok := s.X.(*ast.SelectorExpr); ok && hs.Sel.Name == "Header" {
				if id, ok := hs.X.(*ast.Ident); ok && id.Name == rName {
					if bl, ok := c.Args[0].(*ast.BasicLit); ok {
						if v, _ := strconv.Unquote(bl.Value); strings.EqualFold(v, "Authorization") {
							allowed[id] = true
						}
					}
				}
			}
		}
		return true
	})
	bad := ""
	ast.Inspect(handler.Body, func(x ast.Node) bool {
		if bad != "" {
			return false
		}
		switch t := x.(type) {
		case *ast.SelectorExpr:
			if id, ok := t.X.(*ast.Ident); ok && id.Name == rName && !allowed[id] {
				bad = fmt.Sprintf("%s: the decision reads %s.%s (%s), not only the Authorization header", fn, rName, t.Sel.Name, w.rel(t.Pos()))
			}
		case *ast.Ident:
			if t.Name == rName && !allowed[t] {
				// reached only for a bare occurrence (selectors are handled above and not descended into)
				bad = fmt.Sprintf("%s: the request is handed to something other than next.ServeHTTP (%s)", fn, w.rel(t.Pos()))
			}
		}
		if se, ok := x.(*ast.SelectorExpr); ok {
			if id, ok := se.X.(*ast.Ident); ok && id.Name == rName {
				return false
			}
		}
		return true
	})
	return bad
}

// ---------------------------------------------------------------- census
func (w *World) inDead(p token.Pos) bool {
	ps := w.fset.Position(p)
	for _, r := range w.dead {
		if r.file == ps.Filename && r.a <= ps.Line && ps.Line <= r.b {
			return true
		}
	}
	return false
}

var serveMethodNames = map[string]bool{"ListenAndServe": true, "ListenAndServeTLS": true, "ServeTLS": true, "Serve": true}

func isNilOrDefaultMux(e ast.Expr) bool {
	switch t := e.(type) {
	case *ast.Ident:
		return t.Name == "nil"
	case *ast.SelectorExpr:
		return t.Sel.Name == "DefaultServeMux"
	case *ast.ParenExpr:
		return isNilOrDefaultMux(t.X)
	}
	return false
}

func (w *World) serverCensus() {
	flag := func(op, what, pos string) {
		w.ops = append(w.ops, Op{Cond: cTrue, Op: op, What: what, Pos: pos})
	}
	add := func(kind string, pos token.Pos, src, why string, flagged bool) {
		w.sites = append(w.sites, CensusSite{Kind: kind, Pos: w.rel(pos), Src: src, Why: why, Flagged: flagged})
	}
	var files []string
	filepath.Walk(w.repo, func(path string, info os.FileInfo, err error) error {
		if err != nil {
			return nil
		}
		if info.IsDir() {
			b := filepath.Base(path)
			if b == "vendor" || b == "node_modules" || b == "testdata" || (strings.HasPrefix(b, ".") && path != w.repo) {
				return filepath.SkipDir
			}
			return nil
		}
		if strings.HasSuffix(path, ".go") && !strings.HasSuffix(path, "_test.go") {
			files = append(files, path)
		}
		return nil
	})
	sort.Strings(files)
	type lateServe struct {
		pos  token.Pos
		what string
	}
	for _, path := range files {
		// verification hooks (add-only files `//go:build verif`, exporting aliases for the harnesses) are not part of the product
		if raw, err := os.ReadFile(path); err == nil && strings.HasPrefix(filepath.Base(path), "zz_verif_") &&
			strings.HasPrefix(strings.TrimSpace(string(raw)), "//go:build verif\n") {
			w.hookFiles++
			continue
		}
		f, err := parser.ParseFile(w.fset, path, nil, parser.SkipObjectResolution)
		if err != nil {
			add("unparsable file", token.NoPos, path, "", true)
			flag("unknown", "source file the census cannot parse: "+path, path)
			continue
		}
		imps := imports(f)
		pathOf := func(e ast.Expr) string {
			if id, ok := e.(*ast.Ident); ok {
				return imps[id.Name]
			}
			return ""
		}
		for _, im := range f.Imports {
			ip, _ := strconv.Unquote(im.Path.Value)
			switch ip {
			case "net/http/pprof":
				add("import net/http/pprof", im.Pos(), "", "registers /debug/pprof/* on http.DefaultServeMux only; the default mux is not served", false)
				w.defaultMux = append(w.defaultMux, "/debug/pprof/")
			case "expvar":
				add("import expvar", im.Pos(), "", "registers /debug/vars on http.DefaultServeMux only; the default mux is not served", false)
				w.defaultMux = append(w.defaultMux, "/debug/vars")
			}
		}
		// listeners of each function: identifier bound by net.Listen -> handed to an interpreted http.Serve?
		ast.Inspect(f, func(n ast.Node) bool {
			fd, ok := n.(*ast.FuncDecl)
			if !ok || fd.Body == nil {
				return true
			}
			w.censusFunc(fd, imps, add, flag)
			return true
		})
		ast.Inspect(f, func(n ast.Node) bool {
			switch t := n.(type) {
			case *ast.FuncDecl:
				if t.Recv != nil && t.Name.Name == "ServeHTTP" {
					add("ServeHTTP method (a handler type, not a server)", t.Pos(), typeName(t.Recv.List[0].Type), "a handler is reachable only through something that serves it", false)
				}
			case *ast.CompositeLit:
				if s, ok := t.Type.(*ast.SelectorExpr); ok {
					if pathOf(s.X) == "net/http" && s.Sel.Name == "Server" {
						if w.served[w.rel(t.Pos())] {
							add("http.Server literal", t.Pos(), "", "interpreted: its Handler is the tracked router", false)
						} else {
							add("http.Server literal", t.Pos(), w.src(t), "", true)
							flag("serveother", "an http.Server the translator did not follow is constructed at "+w.rel(t.Pos()), w.rel(t.Pos()))
						}
					}
					if strings.HasSuffix(pathOf(s.X), "/websocket") && s.Sel.Name == "Upgrader" {
						add("websocket upgrader (used inside a handler)", t.Pos(), "", "upgrades a request that a served router already dispatched", false)
					}
				}
			case *ast.CallExpr:
				s, ok := t.Fun.(*ast.SelectorExpr)
				if !ok {
					return true
				}
				pos := s.Sel.Pos()
				rel := w.rel(pos)
				ip := pathOf(s.X)
				switch {
				case ip == "net/http" && serveFuncs[s.Sel.Name] > 0:
					hi := serveFuncs[s.Sel.Name]
					arg := "?"
					if hi < len(t.Args) {
						arg = w.src(t.Args[hi])
					}
					dflt := hi < len(t.Args) && isNilOrDefaultMux(t.Args[hi])
					if dflt {
						w.defaultMuxServed = append(w.defaultMuxServed, rel)
					}
					switch {
					case w.served[rel]:
						add("http."+s.Sel.Name, pos, w.src(t), "interpreted (serve operation of the assembly)", false)
						if dflt {
							w.sites[len(w.sites)-1].Flagged = true
							w.sites[len(w.sites)-1].Why = "interpreted: serves http.DefaultServeMux (OServeOther)"
						}
					case w.inDead(pos):
						add("http."+s.Sel.Name, pos, w.src(t), "statically dead under the translator's reading of the conditions", false)
					default:
						add("http."+s.Sel.Name, pos, w.src(t), "", true)
						what := "http." + s.Sel.Name + " at " + rel + " never reached from main(): serves " + arg
						if dflt {
							what = "http." + s.Sel.Name + " at " + rel + " serves http.DefaultServeMux (" + arg + ")"
						}
						flag("serveother", what, rel)
					}
				case ip == "net/http" && (s.Sel.Name == "Handle" || s.Sel.Name == "HandleFunc"):
					pat := "?"
					if len(t.Args) > 0 {
						if bl, ok := t.Args[0].(*ast.BasicLit); ok {
							pat, _ = strconv.Unquote(bl.Value)
						}
					}
					w.defaultMux = append(w.defaultMux, pat)
					add("http."+s.Sel.Name+" (http.DefaultServeMux)", pos, w.src(t), "registers on http.DefaultServeMux only; the default mux is not served", false)
				case ip == "net/http" && s.Sel.Name == "NewServeMux":
					add("http.NewServeMux", pos, w.src(t), "", true)
					flag("unknown", "http.NewServeMux at "+rel+": a mux the translator does not follow", rel)
				case ip == muxPath && s.Sel.Name == "NewRouter":
					switch {
					case w.newSites[w.rel(t.Pos())]:
						add("mux.NewRouter", pos, "", "interpreted (router of the assembly)", false)
					case w.inDead(pos):
						add("mux.NewRouter", pos, "", "statically dead under the translator's reading of the conditions (router == nil is false)", false)
					default:
						add("mux.NewRouter", pos, "", "", true)
						flag("unknown", "mux.NewRouter at "+rel+" never reached from main()", rel)
					}
				case (ip == "github.com/valyala/fasthttp" && (strings.HasPrefix(s.Sel.Name, "ListenAndServe") || strings.HasPrefix(s.Sel.Name, "Serve"))) ||
					(strings.HasPrefix(ip, "github.com/gofiber/fiber") && s.Sel.Name == "New") ||
					(ip == "google.golang.org/grpc" && s.Sel.Name == "NewServer") ||
					(ip == "net/rpc" && (s.Sel.Name == "HandleHTTP" || s.Sel.Name == "Accept" || s.Sel.Name == "ServeConn")) ||
					(ip == "net/http/httptest" && strings.HasPrefix(s.Sel.Name, "New") && strings.Contains(s.Sel.Name, "Server")) ||
					(ip == "net/http/cgi" || ip == "net/http/fcgi") && s.Sel.Name == "Serve":
					add(ip+"."+s.Sel.Name, pos, w.src(t), "", true)
					flag("serveother", ip+"."+s.Sel.Name+" at "+rel+": a server outside the tracked router", rel)
				case strings.HasSuffix(ip, "/promhttp") && (s.Sel.Name == "Handler" || s.Sel.Name == "HandlerFor" || s.Sel.Name == "InstrumentMetricHandler"):
					add("promhttp."+s.Sel.Name+" (a handler, not a server)", pos, "", "a handler is reachable only through something that serves it", false)
				case ip == "" && (s.Sel.Name == "ListenAndServe" || s.Sel.Name == "ListenAndServeTLS" || s.Sel.Name == "ServeTLS" ||
					(s.Sel.Name == "Serve" && len(t.Args) == 1)):
					// a method of a server value: (*http.Server).ListenAndServe|Serve, grpc / fasthttp / fiber servers ...
					if w.served[rel] {
						add("(server)."+s.Sel.Name, pos, w.src(t), "interpreted (serve operation of the assembly)", false)
					} else if w.inDead(pos) {
						add("(server)."+s.Sel.Name, pos, w.src(t), "statically dead under the translator's reading of the conditions", false)
					} else {
						add("(server)."+s.Sel.Name, pos, w.src(t), "", true)
						flag("serveother", "("+w.src(s.X)+")."+s.Sel.Name+" at "+rel+": a server the translator did not follow", rel)
					}
				case ip == "" && (s.Sel.Name == "Listen" || s.Sel.Name == "ListenTLS") && len(t.Args) >= 1:
					// fiber / fasthttp app.Listen(addr), net.ListenConfig.Listen
					if _, isSel := s.X.(*ast.Ident); isSel || true {
						add("(value).Listen", pos, w.src(t), "", true)
						flag("unknown", "("+w.src(s.X)+")."+s.Sel.Name+" at "+rel+": a listener the translator does not follow", rel)
					}
				}
			}
			return true
		})
	}
	// the default mux is reachable only if something serves it; every such call was flagged above
	if len(w.defaultMuxServed) > 0 {
		for i := range w.sites {
			if strings.Contains(w.sites[i].Why, "the default mux is not served") {
				w.sites[i].Why = "registers on http.DefaultServeMux, which IS served at " + strings.Join(w.defaultMuxServed, ", ")
				w.sites[i].Flagged = true
			}
		}
	}
}

// net.Listen / tls.Listen inside one function: explained when the listener goes into an interpreted http.Serve
func (w *World) censusFunc(fd *ast.FuncDecl, imps map[string]string, add func(string, token.Pos, string, string, bool), flag func(string, string, string)) {
	listeners := map[string]token.Pos{} // identifier -> position of the Listen call
	var anon []token.Pos
	isListen := func(e ast.Expr) (token.Pos, bool) {
		c, ok := e.(*ast.CallExpr)
		if !ok {
			return 0, false
		}
		s, ok := c.Fun.(*ast.SelectorExpr)
		if !ok {
			return 0, false
		}
		id, ok := s.X.(*ast.Ident)
		if !ok {
			return 0, false
		}
		ip := imps[id.Name]
		if (ip == "net" && (s.Sel.Name == "Listen" || s.Sel.Name == "ListenTCP" || s.Sel.Name == "ListenUnix" || s.Sel.Name == "FileListener")) ||
			(ip == "crypto/tls" && s.Sel.Name == "Listen") {
			return s.Sel.Pos(), true
		}
		return 0, false
	}
	bound := map[token.Pos]bool{}
	ast.Inspect(fd.Body, func(n ast.Node) bool {
		if as, ok := n.(*ast.AssignStmt); ok {
			for _, r := range as.Rhs {
				if p, ok := isListen(r); ok && len(as.Lhs) >= 1 {
					if id, ok := as.Lhs[0].(*ast.Ident); ok && id.Name != "_" {
						listeners[id.Name] = p
						bound[p] = true
					}
				}
			}
		}
		return true
	})
	ast.Inspect(fd.Body, func(n ast.Node) bool {
		if c, ok := n.(*ast.CallExpr); ok {
			if p, ok := isListen(c); ok && !bound[p] {
				anon = append(anon, p)
			}
		}
		return true
	})
	// uses of each listener identifier
	usedBy := map[string][]string{} // identifier -> positions of interpreted serve calls taking it as first argument
	other := map[string]int{}
	ast.Inspect(fd.Body, func(n ast.Node) bool {
		c, ok := n.(*ast.CallExpr)
		if !ok {
			return true
		}
		for i, a := range c.Args {
			id, ok := a.(*ast.Ident)
			if !ok {
				continue
			}
			if _, isL := listeners[id.Name]; !isL {
				continue
			}
			if s, ok := c.Fun.(*ast.SelectorExpr); ok && i == 0 && w.served[w.rel(s.Sel.Pos())] {
				usedBy[id.Name] = append(usedBy[id.Name], w.rel(s.Sel.Pos()))
			} else {
				other[id.Name]++
			}
		}
		return true
	})
	names := []string{}
	for n := range listeners {
		names = append(names, n)
	}
	sort.Strings(names)
	for _, n := range names {
		p := listeners[n]
		switch {
		case len(usedBy[n]) > 0 && other[n] == 0:
			add("net.Listen", p, "", "the listener is handed only to the interpreted serving call at "+strings.Join(usedBy[n], ", "), false)
		case w.inDead(p):
			add("net.Listen", p, "", "statically dead under the translator's reading of the conditions", false)
		case !w.reachedFunc(fd):
			// the enclosing function was never entered from main(): its serving calls are flagged on their own
			if w.hasFlaggableServe(fd) {
				add("net.Listen", p, "", "in a function never reached from main(); its serving call is flagged", false)
			} else {
				add("net.Listen", p, "", "", true)
				flag("unknown", "listener opened at "+w.rel(p)+" is not handed to a tracked serving call", w.rel(p))
			}
		default:
			add("net.Listen", p, "", "", true)
			flag("unknown", "listener opened at "+w.rel(p)+" is not handed (only) to a tracked serving call", w.rel(p))
		}
	}
	for _, p := range anon {
		add("net.Listen", p, "", "", true)
		flag("unknown", "listener opened at "+w.rel(p)+" is not bound to a variable the translator follows", w.rel(p))
	}
}

// was any serving call of the function interpreted?
func (w *World) reachedFunc(fd *ast.FuncDecl) bool {
	found := false
	ast.Inspect(fd.Body, func(n ast.Node) bool {
		if c, ok := n.(*ast.CallExpr); ok {
			if s, ok := c.Fun.(*ast.SelectorExpr); ok && w.served[w.rel(s.Sel.Pos())] {
				found = true
			}
		}
		return !found
	})
	return found
}

func (w *World) hasFlaggableServe(fd *ast.FuncDecl) bool {
	found := false
	ast.Inspect(fd.Body, func(n ast.Node) bool {
		if c, ok := n.(*ast.CallExpr); ok {
			if s, ok := c.Fun.(*ast.SelectorExpr); ok && serveMethodNames[s.Sel.Name] {
				found = true
			}
		}
		return !found
	})
	return found
}

func (w *World) censusCounts() map[string][2]int {
	m := map[string][2]int{}
	for _, c := range w.sites {
		k := c.Kind
		if i := strings.Index(k, " ("); i > 0 {
			k = k[:i]
		}
		v := m[k]
		v[0]++
		if c.Flagged {
			v[1]++
		}
		m[k] = v
	}
	return m
}
