// C02: regenerates coq/gen/GenC02Columns.v from $VERIF_REPO/writer/service/impl/*.go: for every insert service
// (the function that builds an InsertServiceV2Multimodal) its ServiceType, the columns of its acquirer in the order of
// serialize()/toIFace(), and for each column the field of the request struct the ProcessRequest closure appends to it;
// which of those appends add the whole field as ONE element (Append(req.F) outside any range over req.F); the column the
// closure measures `inserted` on; statements of the closure that append to a column in a way the translator does not
// understand are counted.  Standard library only.
package main

import (
	"bytes"
	"fmt"
	"go/ast"
	"go/parser"
	"go/printer"
	"go/token"
	"os"
	"path/filepath"
	"sort"
	"strings"
)

var fset = token.NewFileSet()

func text(n ast.Node) string {
	var b bytes.Buffer
	printer.Fprint(&b, fset, n)
	return strings.Join(strings.Fields(b.String()), " ")
}
func q(s string) string { return "\"" + strings.ReplaceAll(s, "\"", "'") + "\"" }

type svc struct {
	fn, stype, acqType, reqType, keyCol string
	order                              []string          // acquirer fields in serialize order
	from                               map[string]string // acquirer field -> request field
	single                             []string          // request fields appended as one element
	dup                                []string          // acquirer fields appended more than once
	unknown                            int
	loops                              []loop // every range over a request field whose body appends to a column
	guarded                            int    // appends under an if / switch / for / range over something else, exits between the first and the last append
}

// a range loop of the closure that appends: the request field it ranges over, the columns its body appends to, and how many
// statements of the body can make an iteration append to fewer columns than another one (continue / break / goto / return / if /
// switch / nested loop / panic): with ctl = 0 every iteration appends once to every column of the loop
type loop struct {
	field string
	cols  []string
	ctl   int
}

// x.<sel>...: the selector directly applied to identifier `v`
func selOn(e ast.Expr, v string) string {
	res := ""
	ast.Inspect(e, func(n ast.Node) bool {
		if s, ok := n.(*ast.SelectorExpr); ok {
			if id, ok := s.X.(*ast.Ident); ok && id.Name == v && res == "" {
				res = s.Sel.Name
			}
		}
		return true
	})
	return res
}

func main() {
	repo := os.Getenv("VERIF_REPO")
	if repo == "" {
		repo = "/repo"
	}
	dir := filepath.Join(repo, "writer/service/impl")
	files, _ := filepath.Glob(filepath.Join(dir, "*.go"))
	sort.Strings(files)
	var parsed []*ast.File
	for _, fn := range files {
		if strings.HasSuffix(fn, "_test.go") {
			continue
		}
		f, err := parser.ParseFile(fset, fn, nil, 0)
		if err != nil {
			fmt.Fprintln(os.Stderr, err)
			os.Exit(1)
		}
		parsed = append(parsed, f)
	}
	// serialize()/toIFace() order per acquirer type
	orders := map[string][]string{}
	for _, f := range parsed {
		for _, d := range f.Decls {
			fd, ok := d.(*ast.FuncDecl)
			if !ok || fd.Recv == nil || fd.Body == nil || (fd.Name.Name != "serialize" && fd.Name.Name != "toIFace") {
				continue
			}
			tn := strings.TrimPrefix(text(fd.Recv.List[0].Type), "*")
			rv := ""
			if len(fd.Recv.List[0].Names) == 1 {
				rv = fd.Recv.List[0].Names[0].Name
			}
			for _, st := range fd.Body.List {
				rs, ok := st.(*ast.ReturnStmt)
				if !ok || len(rs.Results) != 1 {
					continue
				}
				cl, ok := rs.Results[0].(*ast.CompositeLit)
				if !ok {
					continue
				}
				var o []string
				for _, el := range cl.Elts {
					if s, ok := el.(*ast.SelectorExpr); ok {
						if id, ok := s.X.(*ast.Ident); ok && id.Name == rv {
							o = append(o, s.Sel.Name)
							continue
						}
					}
					o = append(o, "?"+text(el))
				}
				orders[tn] = o
			}
		}
	}
	var svcs []*svc
	for _, f := range parsed {
		for _, d := range f.Decls {
			fd, ok := d.(*ast.FuncDecl)
			if !ok || fd.Recv != nil || fd.Body == nil {
				continue
			}
			ast.Inspect(fd.Body, func(n ast.Node) bool {
				cl, ok := n.(*ast.CompositeLit)
				if !ok || !strings.HasSuffix(text(cl.Type), "InsertServiceV2Multimodal") {
					return true
				}
				s := &svc{fn: fd.Name.Name, from: map[string]string{}}
				for _, el := range cl.Elts {
					kv, ok := el.(*ast.KeyValueExpr)
					if !ok {
						continue
					}
					switch text(kv.Key) {
					case "ServiceType":
						s.stype = strings.Trim(text(kv.Value), "\"")
					case "ProcessRequest":
						if fl, ok := kv.Value.(*ast.FuncLit); ok {
							processRequest(s, fl)
						}
					}
				}
				s.order = orders[s.acqType]
				svcs = append(svcs, s)
				return false
			})
		}
	}
	sort.Slice(svcs, func(i, j int) bool { return svcs[i].stype < svcs[j].stype })
	out := "coq/gen/GenC02Columns.v"
	if len(os.Args) > 1 {
		out = os.Args[1]
	}
	var b strings.Builder
	b.WriteString("(* GENERATED by translate/gen_c02_columns from $VERIF_REPO/writer/service/impl -- do not edit, not committed *)\n")
	b.WriteString("From Coq Require Import List String ZArith.\nImport ListNotations.\nOpen Scope string_scope.\n\n")
	b.WriteString("(* (ServiceType, [(acquirer column in serialize()/toIFace() order, request field ProcessRequest appends to it)]) *)\n")
	b.WriteString("Definition gen_c02_columns : list (string * list (string * string)) := [\n")
	for i, s := range svcs {
		var cs []string
		for _, c := range s.order {
			cs = append(cs, "("+q(c)+", "+q(s.from[c])+")")
		}
		sep := ";"
		if i == len(svcs)-1 {
			sep = ""
		}
		fmt.Fprintf(&b, "  (%s, [%s])%s\n", q(s.stype), strings.Join(cs, "; "), sep)
	}
	b.WriteString("].\n(* (ServiceType, request struct, request fields appended as ONE element, the column `inserted` is measured on,\n   columns appended more than once, append statements not understood) *)\n")
	b.WriteString("Definition gen_c02_details : list (string * string * list string * string * list string * Z) := [\n")
	for i, s := range svcs {
		var ss, ds []string
		for _, x := range s.single {
			ss = append(ss, q(x))
		}
		for _, x := range s.dup {
			ds = append(ds, q(x))
		}
		sep := ";"
		if i == len(svcs)-1 {
			sep = ""
		}
		fmt.Fprintf(&b, "  (%s, %s, [%s], %s, [%s], %d%%Z)%s\n", q(s.stype), q(s.reqType), strings.Join(ss, "; "), q(s.keyCol), strings.Join(ds, "; "), s.unknown, sep)
	}
	b.WriteString("].\n(* (ServiceType, [(request field a range loop of the closure runs over, columns its body appends to, statements of the body that can\n   make one iteration append to fewer columns than another: continue / break / return / if / switch / nested loop / panic)],\n   appends guarded by an if / switch / loop that is no range over a request field + exits between the first and the last append) *)\n")
	b.WriteString("Definition gen_c02_loops : list (string * list (string * list string * Z) * Z) := [\n")
	for i, s := range svcs {
		var ls []string
		for _, l := range s.loops {
			var cs []string
			for _, c := range l.cols {
				cs = append(cs, q(c))
			}
			ls = append(ls, fmt.Sprintf("(%s, [%s], %d%%Z)", q(l.field), strings.Join(cs, "; "), l.ctl))
		}
		sep := ";"
		if i == len(svcs)-1 {
			sep = ""
		}
		fmt.Fprintf(&b, "  (%s, [%s], %d%%Z)%s\n", q(s.stype), strings.Join(ls, "; "), s.guarded, sep)
	}
	b.WriteString("].\n")
	// every place under writer/ that assigns to a trace-id / span-id slice of a request struct: (file, function, field)
	var prods [][3]string
	filepath.Walk(filepath.Join(repo, "writer"), func(path string, info os.FileInfo, err error) error {
		if err != nil || info.IsDir() || !strings.HasSuffix(path, ".go") || strings.HasSuffix(path, "_test.go") || strings.HasPrefix(info.Name(), "zz_verif") {
			return nil
		}
		f, perr := parser.ParseFile(fset, path, nil, 0)
		if perr != nil {
			return nil
		}
		rel, _ := filepath.Rel(filepath.Join(repo, "writer"), path)
		for _, d := range f.Decls {
			fd, ok := d.(*ast.FuncDecl)
			if !ok || fd.Body == nil {
				continue
			}
			name := fd.Name.Name
			if fd.Recv != nil && len(fd.Recv.List) == 1 {
				name = strings.TrimPrefix(text(fd.Recv.List[0].Type), "*") + "." + name
			}
			ast.Inspect(fd.Body, func(n ast.Node) bool {
				as, ok := n.(*ast.AssignStmt)
				if !ok {
					return true
				}
				for _, l := range as.Lhs {
					se, ok := l.(*ast.SelectorExpr)
					if !ok || (se.Sel.Name != "MTraceId" && se.Sel.Name != "MSpanId") {
						continue
					}
					owner := text(se.X)
					if i := strings.LastIndex(owner, "."); i >= 0 {
						owner = owner[i+1:]
					}
					prods = append(prods, [3]string{filepath.ToSlash(rel), name, owner + "." + se.Sel.Name})
				}
				return true
			})
		}
		return nil
	})
	sort.Slice(prods, func(i, j int) bool {
		for k := 0; k < 3; k++ {
			if prods[i][k] != prods[j][k] {
				return prods[i][k] < prods[j][k]
			}
		}
		return false
	})
	b.WriteString("(* every assignment to a trace-id / span-id slice of a request struct under writer/: (file, function, field) *)\n")
	b.WriteString("Definition gen_c02_id_producers : list (string * string * string) := [")
	for i, p := range prods {
		if i > 0 {
			b.WriteString("; ")
		}
		fmt.Fprintf(&b, "(%s, %s, %s)", q(p[0]), q(p[1]), q(p[2]))
	}
	b.WriteString("].\n")
	if err := os.WriteFile(out, []byte(b.String()), 0o644); err != nil {
		fmt.Fprintln(os.Stderr, err)
		os.Exit(1)
	}
}

func processRequest(s *svc, fl *ast.FuncLit) {
	reqVar, acqVar, resVar := "", "", ""
	if len(fl.Type.Params.List) == 2 && len(fl.Type.Params.List[1].Names) == 1 {
		resVar = fl.Type.Params.List[1].Names[0].Name
	}
	// ranges: value identifier -> request field ranged over
	type rng struct {
		val, field string
		body       *ast.BlockStmt
	}
	var ranges []rng
	ast.Inspect(fl.Body, func(n ast.Node) bool {
		switch x := n.(type) {
		case *ast.AssignStmt:
			if len(x.Rhs) == 1 {
				if ta, ok := x.Rhs[0].(*ast.TypeAssertExpr); ok && reqVar == "" && len(x.Lhs) >= 1 {
					reqVar = text(x.Lhs[0])
					s.reqType = strings.TrimPrefix(text(ta.Type), "*")
				}
				if ce, ok := x.Rhs[0].(*ast.CallExpr); ok && acqVar == "" && len(x.Lhs) == 1 {
					if se, ok := ce.Fun.(*ast.SelectorExpr); ok && (se.Sel.Name == "deserialize" || se.Sel.Name == "fromIFace") {
						acqVar = text(x.Lhs[0])
						t := text(se.X) // (&SamplesAcquirer{})
						t = strings.TrimSuffix(strings.TrimPrefix(t, "(&"), "{})")
						s.acqType = t
					}
				}
				// _len := len(samples.Fingerprint.Data)  /  s1 := res[0].Size()
				if ce, ok := x.Rhs[0].(*ast.CallExpr); ok && s.keyCol == "" && len(x.Lhs) == 1 && acqVar != "" {
					if id, ok := ce.Fun.(*ast.Ident); ok && id.Name == "len" && len(ce.Args) == 1 {
						if c := selOn(ce.Args[0], acqVar); c != "" {
							s.keyCol = c
						}
					}
					if se, ok := ce.Fun.(*ast.SelectorExpr); ok && se.Sel.Name == "Size" {
						if ix, ok := se.X.(*ast.IndexExpr); ok && text(ix.X) == resVar {
							s.keyCol = "#" + text(ix.Index)
						}
					}
				}
			}
		case *ast.RangeStmt:
			if reqVar != "" && x.Value != nil {
				if f := selOn(x.X, reqVar); f != "" {
					ranges = append(ranges, rng{text(x.Value), f, x.Body})
				}
			}
		}
		return true
	})
	inRange := func(pos token.Pos, field string) (string, bool) {
		for _, r := range ranges {
			if r.body.Pos() <= pos && pos <= r.body.End() {
				if field == "" || r.field == field {
					return r.field, true
				}
			}
		}
		return "", false
	}
	seen := map[string]int{}
	ast.Inspect(fl.Body, func(n ast.Node) bool {
		ce, ok := n.(*ast.CallExpr)
		if !ok {
			return true
		}
		se, ok := ce.Fun.(*ast.SelectorExpr)
		if !ok || (se.Sel.Name != "Append" && se.Sel.Name != "AppendArr" && se.Sel.Name != "AppendBytes") || len(ce.Args) != 1 {
			return true
		}
		col := selOn(se.X, acqVar)
		if col == "" {
			return true
		}
		field := ""
		one := false
		switch a := ce.Args[0].(type) {
		case *ast.Ident: // the value variable of an enclosing range over req.F
			for _, r := range ranges {
				if r.val == a.Name && r.body.Pos() <= ce.Pos() && ce.Pos() <= r.body.End() {
					field = r.field
				}
			}
		case *ast.IndexExpr: // req.F[i] inside a range over some field of the request
			if _, ok := inRange(ce.Pos(), ""); ok {
				field = selOn(a.X, reqVar)
			}
		case *ast.SelectorExpr: // AppendArr(req.F) / Append(req.F)
			field = selOn(a, reqVar)
			if se.Sel.Name == "Append" {
				if _, ok := inRange(ce.Pos(), ""); !ok {
					one = true
				} else {
					field = ""
				}
			}
		}
		if field == "" {
			s.unknown++
			return true
		}
		seen[col]++
		if seen[col] == 2 {
			s.dup = append(s.dup, col)
		}
		s.from[col] = field
		if one {
			s.single = append(s.single, field)
		}
		return true
	})
	sort.Strings(s.single)
	loopShapes(s, fl, reqVar, acqVar)
}

// isAppend: acq.<col>....Append / AppendArr / AppendBytes (one argument); returns the column
func isAppend(n ast.Node, acqVar string) string {
	ce, ok := n.(*ast.CallExpr)
	if !ok {
		return ""
	}
	se, ok := ce.Fun.(*ast.SelectorExpr)
	if !ok || (se.Sel.Name != "Append" && se.Sel.Name != "AppendArr" && se.Sel.Name != "AppendBytes") {
		return ""
	}
	return selOn(se.X, acqVar)
}

func isExit(n ast.Node) bool {
	switch x := n.(type) {
	case *ast.BranchStmt, *ast.ReturnStmt:
		return true
	case *ast.CallExpr:
		if id, ok := x.Fun.(*ast.Ident); ok && id.Name == "panic" {
			return true
		}
	}
	return false
}

// loopShapes: the control structure around the appends of a ProcessRequest closure.  The model (Ingest.v eff / zip_app) appends to
// every column one value per element of the field the column's loop ranges over; that is only what the code does when each loop body is
// straight-line (no continue / break / return / if inside: every iteration appends to every column of the loop) and no append is
// guarded by anything but such a loop, and nothing leaves the closure between its first and its last append.
func loopShapes(s *svc, fl *ast.FuncLit, reqVar, acqVar string) {
	var stack []ast.Node
	first, last := token.NoPos, token.NoPos
	ast.Inspect(fl.Body, func(n ast.Node) bool {
		if n != nil && isAppend(n, acqVar) != "" {
			if first == token.NoPos {
				first = n.Pos()
			}
			last = n.End()
		}
		return true
	})
	ast.Inspect(fl.Body, func(n ast.Node) bool {
		if n == nil {
			stack = stack[:len(stack)-1]
			return true
		}
		stack = append(stack, n)
		if isAppend(n, acqVar) != "" {
			nloops := 0
			for _, a := range stack[:len(stack)-1] {
				switch x := a.(type) {
				case *ast.RangeStmt:
					nloops++
					if reqVar == "" || selOn(x.X, reqVar) == "" || nloops > 1 {
						s.guarded++
					}
				case *ast.IfStmt, *ast.SwitchStmt, *ast.TypeSwitchStmt, *ast.ForStmt, *ast.SelectStmt, *ast.FuncLit, *ast.GoStmt, *ast.DeferStmt, *ast.CaseClause:
					s.guarded++
				}
			}
		}
		if first != token.NoPos && isExit(n) && n.Pos() > first && n.End() < last {
			// inside a loop it is counted by the loop's ctl as well; at the top level it cuts the closure short between two columns
			inLoop := false
			for _, a := range stack {
				if _, ok := a.(*ast.RangeStmt); ok {
					inLoop = true
				}
			}
			if !inLoop {
				s.guarded++
			}
		}
		if rs, ok := n.(*ast.RangeStmt); ok {
			var cols []string
			ctl := 0
			ast.Inspect(rs.Body, func(m ast.Node) bool {
				if m == nil {
					return true
				}
				if c := isAppend(m, acqVar); c != "" {
					cols = append(cols, c)
				}
				switch m.(type) {
				case *ast.IfStmt, *ast.SwitchStmt, *ast.TypeSwitchStmt, *ast.ForStmt, *ast.RangeStmt, *ast.SelectStmt, *ast.GoStmt, *ast.DeferStmt, *ast.LabeledStmt:
					ctl++
				}
				if isExit(m) {
					ctl++
				}
				return true
			})
			if len(cols) > 0 {
				f := "?" + text(rs.X)
				if reqVar != "" && selOn(rs.X, reqVar) != "" {
					f = selOn(rs.X, reqVar)
				}
				s.loops = append(s.loops, loop{f, cols, ctl})
			}
		}
		return true
	})
}
