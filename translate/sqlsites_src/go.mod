module sqlsites

go 1.23
