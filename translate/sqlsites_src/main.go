// sqlsites: static census of every place under <repo>/reader that builds SQL text from something
// that is not a constant, with the provenance class of every formatted argument (property C10).
// Syntactic provenance rules (go/parser + go/ast); the numeric rules (%d %f %e %g, numeric Sprintf,
// arithmetic) additionally require go/types to prove the argument a basic integer / float (types.go).
// Everything that the rules below do not recognise is UNCLASSIFIED, which fails the Coq obligation
// all_sql_sites_classified.
//
// usage: sqlsites <repo root>   -> JSON on stdout
package main

import (
	"encoding/hex"
	"encoding/json"
	"fmt"
	"go/ast"
	"go/parser"
	"go/token"
	"math"
	"os"
	"path/filepath"
	"sort"
	"strconv"
	"strings"
)

// provenance classes
const (
	KEscBody = "KEscBody"  // the escape loop of StringVal.String itself (model/Quote.v esc_seq)
	KConst   = "KConst"    // compile-time constant text
	KChoice  = "KChoice"   // one of several constants
	KConfig  = "KConfig"   // configuration (table / database names)
	KInt     = "KInt"      // %d of an expression whose static type is a basic integer (go/types), strconv of an integer
	KFloat   = "KFloat"    // %f
	KDate    = "KDate"     // time.Format("2006-01-02")
	KIdent   = "KIdent"    // identifier accepted by a query lexer rule [a-zA-Z_][a-zA-Z0-9_]*
	KQuoted  = "KQuoted"   // output of StringVal.String
	KRender  = "KRendered" // output of some SQLObject.String(ctx, ...)
	KBuilt   = "KBuilt"    // text built by another listed site
	KAlias   = "KAlias"    // generated alias / checked constructor argument
	KDbHex   = "KDbHex"    // hex text read back from the database
	KDead    = "KDead"     // parameter of a function nobody calls
	KUnclass = "KUnclassified"
)

var rank = map[string]int{KConst: 0, KChoice: 1, KInt: 2, KFloat: 3, KDate: 4, KDbHex: 5, KIdent: 6, KAlias: 7, KDead: 7,
	KConfig: 8, KEscBody: 60, KQuoted: 50, KRender: 50, KBuilt: 50, KUnclass: 100}

func join(a, b string) string {
	if a == "" {
		return b
	}
	if b == "" {
		return a
	}
	if a == b {
		return a
	}
	if a == KUnclass || b == KUnclass {
		return KUnclass
	}
	if rank[a] >= 50 || rank[b] >= 50 {
		return KRender
	}
	if a == KConst && b == KConst {
		return KConst
	}
	if rank[a] <= 1 && rank[b] <= 1 {
		return KChoice
	}
	if rank[a] > rank[b] {
		return a
	}
	return b
}

// ---- reviewed provenance table for selector expressions (matched on the printed expression)
type selRule struct{ suffix, class, why string }

var selRules = []selRule{
	{".Label.Name", KIdent, "logql_parser.LabelName.Name: lexer rule Label_name/Macros_function"},
	{".LabelVal.Name", KIdent, "logql_parser.LabelName.Name"},
	{"hints.Grouping", KIdent, "storage.SelectHints.Grouping: PromQL grouping labels are identifiers (unused code path)"},
	{"db.Config.Name", KConfig, "database name from the configuration"},
	{"conn.Config.Name", KConfig, "database name from the configuration"},
	{"s.Database", KConfig, "tempo.SQLIndexQuery.Database = conn.Config.Name"},
	{"ctx.RandomFilter.Max", KInt, "int"},
	{"ctx.CachedTraceIds", KDbHex, "trace ids read back from ClickHouse rows (lower(hex(trace_id)))"},
}

// PlannerContext table-name fields
func isCtxTable(s string) bool {
	if !strings.HasPrefix(s, "ctx.") {
		return false
	}
	f := s[4:]
	return strings.HasSuffix(f, "TableName") || strings.HasSuffix(f, "Table")
}

// constructor arguments that become SQL text (checked where they are passed)
var sinkCalls = map[string][]int{ // function name -> argument positions that are SQL text
	"NewRawObject": {0}, "NewSimpleCol": {0, 1}, "NewCol": {1}, "NewWith": {1}, "NewJoin": {0},
	"NewCtxParamOrDef": {1}, "FmtRawObject": {0}, "SetSetting": {0, 1},
}

// struct fields of sql_select that hold such constructor arguments
var sinkFields = map[string]bool{"val": true, "alias": true, "tp": true, "def": true, "settings": true}

var corePkgs = []string{
	"reader/utils/sql_select", "reader/logql/logql_transpiler_v2/clickhouse_planner",
	"reader/traceql/transpiler/clickhouse_transpiler", "reader/promql/transpiler", "reader/prof/transpiler",
	"reader/tempo", "reader/utils/tables", "reader/utils/dbVersion",
}

type Piece struct {
	T    string `json:"t"` // text | arg
	S    string `json:"s,omitempty"`
	K    string `json:"k,omitempty"`
	What string `json:"what,omitempty"`
}
type Site struct {
	File   string  `json:"file"`
	Line   int     `json:"line"`
	Kind   string  `json:"kind"`
	Func   string  `json:"func"`
	Pieces []Piece `json:"pieces"`
}

type fnCtx struct {
	pkg     *pkgInfo
	file    string
	name    string         // function name, or field/var the literal is bound to
	params  map[string]int // parameter name -> position
	body    ast.Node
	node    ast.Node
	defs    map[string][]ast.Expr // local variable -> defining expressions
	elems   map[string][]ast.Expr // slice variable -> element expressions
	rangeOf map[string]ast.Expr   // range value variable -> ranged expression
	parent  *fnCtx
	recv    string
}

type pkgInfo struct {
	dir       string
	files     map[string]*ast.File
	consts    map[string]bool
	structs   map[string][]string   // struct name -> field names in order
	fields    map[string][]fieldDef // field name -> defining expressions (composite literals, assignments)
	calls     map[string][]callSite // callee name -> call sites
	mapFields map[string]bool       // struct fields of map type
	funcs     []*fnCtx
}
type fieldDef struct {
	e  ast.Expr
	fn *fnCtx
}
type callSite struct {
	call *ast.CallExpr
	fn   *fnCtx
}

var (
	fset  = token.NewFileSet()
	root  string
	sites []Site
	seen  = map[token.Pos]bool{}
)

func exprStr(e ast.Expr) string {
	switch x := e.(type) {
	case *ast.Ident:
		return x.Name
	case *ast.SelectorExpr:
		return exprStr(x.X) + "." + x.Sel.Name
	case *ast.CallExpr:
		a := make([]string, len(x.Args))
		for i, y := range x.Args {
			a[i] = exprStr(y)
		}
		return exprStr(x.Fun) + "(" + strings.Join(a, ",") + ")"
	case *ast.IndexExpr:
		return exprStr(x.X) + "[" + exprStr(x.Index) + "]"
	case *ast.BasicLit:
		return x.Value
	case *ast.StarExpr:
		return "*" + exprStr(x.X)
	case *ast.ParenExpr:
		return "(" + exprStr(x.X) + ")"
	case *ast.BinaryExpr:
		return exprStr(x.X) + x.Op.String() + exprStr(x.Y)
	case *ast.UnaryExpr:
		return x.Op.String() + exprStr(x.X)
	case *ast.TypeAssertExpr:
		return exprStr(x.X) + ".(T)"
	case *ast.SliceExpr:
		return exprStr(x.X) + "[:]"
	case *ast.FuncLit:
		return "func{}"
	case *ast.CompositeLit:
		return "T{}"
	}
	return fmt.Sprintf("%T", e)
}

func calleeName(c *ast.CallExpr) string {
	switch f := c.Fun.(type) {
	case *ast.Ident:
		return f.Name
	case *ast.SelectorExpr:
		return f.Sel.Name
	case *ast.IndexExpr: // generic instantiation
		if s, ok := f.X.(*ast.SelectorExpr); ok {
			return s.Sel.Name
		}
	}
	return ""
}

func isPkgCall(c *ast.CallExpr, pkg, name string) bool {
	s, ok := c.Fun.(*ast.SelectorExpr)
	if !ok || s.Sel.Name != name {
		return false
	}
	id, ok := s.X.(*ast.Ident)
	return ok && id.Name == pkg
}

func strLit(e ast.Expr) (string, bool) {
	switch x := e.(type) {
	case *ast.BasicLit:
		if x.Kind == token.STRING {
			s, err := strconv.Unquote(x.Value)
			return s, err == nil
		}
	case *ast.ParenExpr:
		return strLit(x.X)
	case *ast.BinaryExpr:
		if x.Op == token.ADD {
			a, ok1 := strLit(x.X)
			b, ok2 := strLit(x.Y)
			return a + b, ok1 && ok2
		}
	}
	return "", false
}

// ---------------------------------------------------------------- package scan

func scanPkg(dir string) *pkgInfo {
	p := &pkgInfo{dir: dir, files: map[string]*ast.File{}, consts: map[string]bool{}, structs: map[string][]string{},
		fields: map[string][]fieldDef{}, calls: map[string][]callSite{}, mapFields: map[string]bool{}}
	ents, _ := os.ReadDir(filepath.Join(root, dir))
	for _, e := range ents {
		n := e.Name()
		if e.IsDir() || !strings.HasSuffix(n, ".go") || strings.HasSuffix(n, "_test.go") || strings.HasPrefix(n, "zz_verif") {
			continue
		}
		f, err := parser.ParseFile(fset, filepath.Join(root, dir, n), nil, 0)
		if err != nil {
			fmt.Fprintln(os.Stderr, "parse error", err)
			os.Exit(1)
		}
		p.files[filepath.Join(dir, n)] = f
	}
	var names []string
	for fn := range p.files {
		names = append(names, fn)
	}
	sort.Strings(names)
	// pass 1: constants and struct layouts of the whole package
	for _, fn := range names {
		for _, d := range p.files[fn].Decls {
			x, ok := d.(*ast.GenDecl)
			if !ok {
				continue
			}
			for _, sp := range x.Specs {
				switch s := sp.(type) {
				case *ast.ValueSpec:
					if x.Tok == token.CONST {
						for _, n := range s.Names {
							p.consts[n.Name] = true
						}
					}
				case *ast.TypeSpec:
					if st, ok := s.Type.(*ast.StructType); ok {
						var fl []string
						for _, fd := range st.Fields.List {
							if len(fd.Names) == 0 {
								fl = append(fl, exprStr(fd.Type))
							}
							for _, n := range fd.Names {
								fl = append(fl, n.Name)
								if _, isMap := fd.Type.(*ast.MapType); isMap {
									p.mapFields[n.Name] = true
								}
							}
						}
						p.structs[s.Name.Name] = fl
					}
				}
			}
		}
	}
	// pass 2: functions
	for _, fn := range names {
		for _, d := range p.files[fn].Decls {
			if x, ok := d.(*ast.FuncDecl); ok && x.Body != nil {
				fc := p.addFunc(fn, x.Name.Name, x.Type, x.Body, x, nil)
				if x.Recv != nil && len(x.Recv.List) == 1 {
					fc.recv = strings.TrimPrefix(exprStr(x.Recv.List[0].Type), "*")
				}
			}
			// round 5: function literals in the initialiser of a package-level variable (tempo.opRegistry: the closures that print
			// match(val, %s)) were in no function context and their Sprintf sites in no census: the initialiser is scanned as the
			// body of a function without parameters
			if g, ok := d.(*ast.GenDecl); ok && g.Tok == token.VAR {
				for _, sp := range g.Specs {
					vs, ok := sp.(*ast.ValueSpec)
					if !ok || len(vs.Values) == 0 {
						continue
					}
					body := &ast.BlockStmt{}
					for _, v := range vs.Values {
						body.List = append(body.List, &ast.ExprStmt{X: v})
					}
					nm := "var"
					if len(vs.Names) > 0 {
						nm = "var " + vs.Names[0].Name
					}
					p.addFunc(fn, nm, &ast.FuncType{Params: &ast.FieldList{}}, body, vs, nil)
				}
			}
		}
	}
	return p
}

func (p *pkgInfo) addFunc(file, name string, ft *ast.FuncType, body *ast.BlockStmt, node ast.Node, parent *fnCtx) *fnCtx {
	c := &fnCtx{pkg: p, file: file, name: name, params: map[string]int{}, body: body, node: node,
		defs: map[string][]ast.Expr{}, elems: map[string][]ast.Expr{}, rangeOf: map[string]ast.Expr{}, parent: parent}
	i := 0
	for _, f := range ft.Params.List {
		if len(f.Names) == 0 {
			i++
		}
		for _, n := range f.Names {
			c.params[n.Name] = i
			i++
		}
	}
	p.funcs = append(p.funcs, c)
	c.walk(body)
	return c
}

func (c *fnCtx) def(name string, e ast.Expr) { c.defs[name] = append(c.defs[name], e) }

// walk collects definitions, call sites, field initialisations; nested function literals get their own context
func (c *fnCtx) walk(n ast.Node) {
	ast.Inspect(n, func(x ast.Node) bool {
		switch s := x.(type) {
		case *ast.FuncLit:
			c.pkg.addFunc(c.file, c.litName(s), s.Type, s.Body, s, c)
			return false
		case *ast.AssignStmt:
			if len(s.Rhs) == 1 && len(s.Lhs) > 1 {
				// tuple assignment from one call: the first value carries the text
				c.assign(s.Lhs[0], s.Rhs[0], s.Tok)
			} else {
				for i := range s.Lhs {
					if i < len(s.Rhs) {
						c.assign(s.Lhs[i], s.Rhs[i], s.Tok)
					}
				}
			}
		case *ast.ValueSpec:
			for i, nm := range s.Names {
				if i < len(s.Values) {
					c.def(nm.Name, s.Values[i])
				}
			}
		case *ast.RangeStmt:
			if id, ok := s.Value.(*ast.Ident); ok && id.Name != "_" {
				c.rangeOf[id.Name] = s.X
			}
			if id, ok := s.Key.(*ast.Ident); ok && id.Name != "_" {
				if _, isMap := c.pkg.mapFields[baseSel(s.X)]; isMap {
					c.rangeOf[id.Name] = s.X
				}
			}
		case *ast.CallExpr:
			if nm := calleeName(s); nm != "" {
				c.pkg.calls[nm] = append(c.pkg.calls[nm], callSite{s, c})
			}
		case *ast.CompositeLit:
			tn := ""
			switch t := s.Type.(type) {
			case *ast.Ident:
				tn = t.Name
			case *ast.SelectorExpr:
				tn = t.Sel.Name
			}
			for i, el := range s.Elts {
				if kv, ok := el.(*ast.KeyValueExpr); ok {
					if k, ok := kv.Key.(*ast.Ident); ok {
						c.pkg.fields[k.Name] = append(c.pkg.fields[k.Name], fieldDef{kv.Value, c})
					}
				} else if fl, ok := c.pkg.structs[tn]; ok && i < len(fl) {
					c.pkg.fields[fl[i]] = append(c.pkg.fields[fl[i]], fieldDef{el, c})
				}
			}
		}
		return true
	})
}

// name under which a function literal can be called: the struct field or variable it is bound to
func (c *fnCtx) litName(l *ast.FuncLit) string {
	name := ""
	ast.Inspect(c.body, func(x ast.Node) bool {
		switch s := x.(type) {
		case *ast.KeyValueExpr:
			if s.Value == l {
				if k, ok := s.Key.(*ast.Ident); ok {
					name = k.Name
				}
			}
		case *ast.AssignStmt:
			for i, r := range s.Rhs {
				if r == l && i < len(s.Lhs) {
					name = exprStr(s.Lhs[i])
				}
			}
		}
		return name == ""
	})
	return name
}

func (c *fnCtx) assign(lhs, rhs ast.Expr, tok token.Token) {
	switch l := lhs.(type) {
	case *ast.Ident:
		if l.Name == "_" {
			return
		}
		// xs = append(xs, e...)
		if call, ok := rhs.(*ast.CallExpr); ok {
			if id, ok := call.Fun.(*ast.Ident); ok && id.Name == "append" && len(call.Args) >= 1 {
				c.elems[l.Name] = append(c.elems[l.Name], call.Args[1:]...)
				return
			}
		}
		c.def(l.Name, rhs)
	case *ast.IndexExpr:
		c.elems[baseName(l.X)] = append(c.elems[baseName(l.X)], rhs)
	case *ast.SelectorExpr:
		c.pkg.fields[l.Sel.Name] = append(c.pkg.fields[l.Sel.Name], fieldDef{rhs, c})
	}
}

// ---------------------------------------------------------------- classification

type visit struct {
	depth int
	busy  map[string]bool
}

func (c *fnCtx) lookupDefs(name string) ([]ast.Expr, *fnCtx) {
	for f := c; f != nil; f = f.parent {
		if d, ok := f.defs[name]; ok {
			return d, f
		}
		if _, ok := f.params[name]; ok {
			return nil, f
		}
		if _, ok := f.rangeOf[name]; ok {
			return nil, f
		}
	}
	return nil, nil
}

func (c *fnCtx) classify(e ast.Expr, v *visit) string {
	if v.depth > 8 {
		return KUnclass
	}
	v.depth++
	defer func() { v.depth-- }()
	if _, ok := strLit(e); ok {
		return KConst
	}
	switch x := e.(type) {
	case *ast.BasicLit:
		if x.Kind == token.INT {
			return KInt
		}
		if x.Kind == token.FLOAT {
			return KFloat
		}
		return KConst
	case *ast.ParenExpr:
		return c.classify(x.X, v)
	case *ast.Ident:
		return c.classifyIdent(x.Name, v)
	case *ast.SelectorExpr:
		return c.classifySel(x, v)
	case *ast.IndexExpr:
		return c.classifyElems(x.X, v)
	case *ast.SliceExpr:
		return c.classify(x.X, v)
	case *ast.StarExpr:
		return c.classify(x.X, v)
	case *ast.BinaryExpr:
		if x.Op == token.ADD {
			c.addConcatSite(x)
			return KBuilt
		}
		// arithmetic / comparison: numeric or boolean by Go's typing, confirmed with go/types
		switch kind, _ := c.pkg.numKind(x); kind {
		case "int":
			return KInt
		case "float":
			return KFloat
		case "bool":
			return KChoice
		}
		return KUnclass
	case *ast.CallExpr:
		return c.classifyCall(x, v)
	case *ast.CompositeLit:
		r := ""
		for _, el := range x.Elts {
			if kv, ok := el.(*ast.KeyValueExpr); ok {
				el = kv.Value
			}
			r = join(r, c.classify(el, v))
		}
		if r == "" {
			return KConst
		}
		return r
	}
	return KUnclass
}

func (c *fnCtx) classifyIdent(name string, v *visit) string {
	if name == "true" || name == "false" {
		return KConst
	}
	if c.recv == "StringVal" && c.name == "String" && c.pkg.dir == "reader/utils/sql_select" && name == "res" {
		return KEscBody
	}
	key := fmt.Sprintf("%p/%s", c, name)
	if v.busy[key] {
		return "" // cycle (x = x + ...): contributes nothing
	}
	v.busy[key] = true
	defer delete(v.busy, key)
	for f := c; f != nil; f = f.parent {
		if d, ok := f.defs[name]; ok {
			r := ""
			for _, e := range d {
				r = join(r, f.classify(e, v))
			}
			if _, isParam := f.params[name]; isParam {
				r = join(r, f.classifyParam(name, v))
			}
			return r
		}
		if _, ok := f.params[name]; ok {
			return f.classifyParam(name, v)
		}
		if rx, ok := f.rangeOf[name]; ok {
			return f.classifyElems(rx, v)
		}
	}
	if c.pkg.consts[name] {
		return KConst
	}
	return KUnclass
}

// class of a string parameter: join over the arguments at every call site of the function in its package
func (c *fnCtx) classifyParam(name string, v *visit) string {
	pos := c.params[name]
	if c.name == "" {
		return KUnclass
	}
	nm := c.name
	if i := strings.LastIndex(nm, "."); i >= 0 {
		nm = nm[i+1:]
	}
	// constructor arguments of sql_select are checked where they are passed (sink positions)
	if ps, ok := sinkCalls[nm]; ok {
		if nm == "FmtRawObject" {
			return KAlias // format and arguments are checked at every call (treated like fmt.Sprintf there)
		}
		for _, p := range ps {
			if p == pos {
				return KAlias
			}
		}
	}
	cs := c.pkg.calls[nm]
	if len(cs) == 0 {
		return KDead
	}
	r := ""
	for _, s := range cs {
		if pos < len(s.call.Args) {
			r = join(r, s.fn.classify(s.call.Args[pos], v))
		} else {
			r = join(r, KUnclass)
		}
	}
	return r
}

func baseSel(e ast.Expr) string {
	if s, ok := e.(*ast.SelectorExpr); ok {
		return s.Sel.Name
	}
	return ""
}

// xs, xs[i], xs[0][j] -> xs
func baseName(e ast.Expr) string {
	for {
		switch x := e.(type) {
		case *ast.IndexExpr:
			e = x.X
			continue
		case *ast.ParenExpr:
			e = x.X
			continue
		}
		return exprStr(e)
	}
}

func (c *fnCtx) classifyElems(e ast.Expr, v *visit) string {
	name := baseName(e)
	for f := c; f != nil; f = f.parent {
		if el, ok := f.elems[name]; ok {
			r := ""
			for _, x := range el {
				r = join(r, f.classify(x, v))
			}
			return r
		}
	}
	// a slice-valued expression: its own class stands for its elements
	switch x := e.(type) {
	case *ast.SelectorExpr:
		return c.classifySel(x, v)
	case *ast.Ident:
		return c.classifyIdent(x.Name, v)
	case *ast.CompositeLit:
		r := ""
		for _, el := range x.Elts {
			r = join(r, c.classify(el, v))
		}
		return r
	}
	return KUnclass
}

func (c *fnCtx) classifySel(x *ast.SelectorExpr, v *visit) string {
	s := exprStr(x)
	for _, r := range selRules {
		if strings.HasSuffix(s, r.suffix) {
			return r.class
		}
	}
	if isCtxTable(s) {
		return KConfig
	}
	if c.pkg.dir == "reader/utils/sql_select" && sinkFields[x.Sel.Name] {
		return KAlias
	}
	// a package-level constant of another package (sql.ORDER_..., shared.SAMPLES_TYPE_...)
	if id, ok := x.X.(*ast.Ident); ok && strings.ToUpper(x.Sel.Name) == x.Sel.Name && id.Obj == nil {
		return KConst
	}
	// field of a struct of this package: join over every initialisation / assignment of a field of that name
	key := "field/" + c.pkg.dir + "/" + x.Sel.Name
	if v.busy[key] {
		return ""
	}
	v.busy[key] = true
	defer delete(v.busy, key)
	fd := c.pkg.fields[x.Sel.Name]
	if len(fd) == 0 {
		return KUnclass
	}
	r := ""
	for _, d := range fd {
		r = join(r, d.fn.classify(d.e, v))
	}
	return r
}

func (c *fnCtx) classifyCall(x *ast.CallExpr, v *visit) string {
	nm := calleeName(x)
	switch {
	case isPkgCall(x, "fmt", "Sprintf"):
		c.addSprintfSite(x)
		if c.numericFormat(x) {
			// only %d / %f / %e / %g verbs between bytes of model/SqlSites.v numeric_alphabet: the text is numeric
			return KFloat
		}
		return KBuilt
	case (isPkgCall(x, "strings", "TrimRight") || isPkgCall(x, "strings", "TrimLeft") || isPkgCall(x, "strings", "Trim") ||
		isPkgCall(x, "strings", "TrimSuffix") || isPkgCall(x, "strings", "TrimPrefix")) && len(x.Args) == 2:
		// a substring of the first argument: the classes that only bound the alphabet of the text survive
		switch k := c.classify(x.Args[0], v); k {
		case KInt, KFloat, KDate, KDbHex, KIdent:
			return k
		}
		return KUnclass
	case isPkgCall(x, "strings", "Join") && len(x.Args) == 2:
		return c.classifyElems(x.Args[0], v)
	case isPkgCall(x, "strings", "ToLower"), isPkgCall(x, "strings", "ToUpper"), isPkgCall(x, "strings", "TrimSpace"):
		return c.classify(x.Args[0], v)
	case isPkgCall(x, "strconv", "Itoa"), isPkgCall(x, "strconv", "FormatInt"), isPkgCall(x, "strconv", "FormatUint"):
		return KInt
	case isPkgCall(x, "strconv", "FormatFloat") && len(x.Args) == 4:
		// the first argument is a float64 by Go's typing; whatever the format byte, the text consists of
		// digits, sign, '.', exponent letters, or is one of NaN, +Inf, -Inf (model/SqlSites.v numeric_alphabet)
		return KFloat
	case nm == "String" && len(x.Args) == 0 && c.isBuilder(x):
		return KBuilt
	case nm == "String" && len(x.Args) >= 1:
		// SQLObject.String(ctx, opts...)
		if s, ok := x.Fun.(*ast.SelectorExpr); ok {
			inner := s.X
			if p, ok := inner.(*ast.ParenExpr); ok {
				inner = p.X
			}
			if ic, ok := inner.(*ast.CallExpr); ok && calleeName(ic) == "NewStringVal" {
				return KQuoted
			}
		}
		return KRender
	case nm == "Format" && len(x.Args) == 1:
		if s, ok := strLit(x.Args[0]); ok && s == "2006-01-02" {
			return KDate
		}
	case nm == "FormatFromDate":
		return KDate
	case nm == "GetAlias" && len(x.Args) == 0, nm == "getPrefix" && len(x.Args) == 0:
		return KAlias
	case nm == "GetTableName" && len(x.Args) == 1:
		return KConfig
	case nm == "string" && len(x.Args) == 1:
		return KUnclass
	}
	// a function or method of this package: what its return statements give back first
	key := "ret/" + c.pkg.dir + "/" + nm
	if nm != "" && !v.busy[key] {
		v.busy[key] = true
		defer delete(v.busy, key)
		r := ""
		found := false
		for _, f := range c.pkg.funcs {
			fd, ok := f.node.(*ast.FuncDecl)
			if !ok || fd.Name.Name != nm || fd.Type.Results == nil || len(fd.Type.Results.List) == 0 ||
				exprStr(fd.Type.Results.List[0].Type) != "string" {
				continue
			}
			found = true
			ast.Inspect(fd.Body, func(n ast.Node) bool {
				if _, ok := n.(*ast.FuncLit); ok {
					return false
				}
				if rs, ok := n.(*ast.ReturnStmt); ok && len(rs.Results) >= 1 {
					if call, ok := rs.Results[0].(*ast.CallExpr); ok && len(rs.Results) == 1 && nm != "String" {
						// return f(...) forwarding a (string, error) pair
						r = join(r, f.classify(call, v))
					} else if s, ok := strLit(rs.Results[0]); ok && s == "" {
						// error path
					} else {
						r = join(r, f.classify(rs.Results[0], v))
					}
				}
				return true
			})
		}
		if found {
			if r == "" {
				return KConst
			}
			return r
		}
	}
	return KUnclass
}

// x.String() where x is a local strings.Builder whose pieces are WriteString sinks of this function
func (c *fnCtx) isBuilder(x *ast.CallExpr) bool {
	s, ok := x.Fun.(*ast.SelectorExpr)
	if !ok {
		return false
	}
	id, ok := s.X.(*ast.Ident)
	if !ok {
		return false
	}
	for _, d := range c.defs[id.Name] {
		if cl, ok := d.(*ast.CompositeLit); ok && exprStr2(cl.Type) == "strings.Builder" {
			return true
		}
	}
	return false
}

// ---------------------------------------------------------------- sites

func (c *fnCtx) pos(n ast.Node) (string, int) {
	p := fset.Position(n.Pos())
	return c.file, p.Line
}

func newVisit() *visit { return &visit{busy: map[string]bool{}} }

func (c *fnCtx) argPiece(e ast.Expr) Piece {
	if s, ok := strLit(e); ok {
		return Piece{T: "text", S: s}
	}
	k := c.classify(e, newVisit())
	if k == "" {
		k = KUnclass
	}
	return Piece{T: "arg", K: k, What: exprStr(e)}
}

func (c *fnCtx) addSprintfSite(x *ast.CallExpr) {
	if seen[x.Pos()] {
		return
	}
	seen[x.Pos()] = true
	f, l := c.pos(x)
	st := Site{File: f, Line: l, Kind: "sprintf", Func: c.name}
	format, ok := strLit(x.Args[0])
	if !ok {
		// round 5 (seeded C10-e: fmt.Sprintf(" %s JOIN "+str, lj.tp) with str the RENDERED joined select): a format that is not a
		// constant is interpreted by fmt whatever it is made of - a `%` inside rendered text (an escaped request string) becomes a
		// verb, `%\'` loses the backslash that protects the quote.  Such a format is of unknown provenance whatever the class of its
		// parts; the one exception is the pass-through parameter of FmtRawObject itself, whose every call is judged as a Sprintf site.
		k := KUnclass
		if id, isId := x.Args[0].(*ast.Ident); isId && c.name == "FmtRawObject" {
			if _, isParam := c.params[id.Name]; isParam {
				k = KAlias
			}
		}
		st.Pieces = append(st.Pieces, Piece{T: "arg", K: k, What: "non-constant format " + exprStr(x.Args[0])})
		for _, a := range x.Args[1:] {
			st.Pieces = append(st.Pieces, c.argPiece(a))
		}
		sites = append(sites, st)
		return
	}
	args := x.Args[1:]
	next := 0
	var text strings.Builder
	// round 5: the decomposition below (text / argument / text ...) is this analyser's reading of the format; it is compared with what
	// package fmt itself prints for the format over sentinel operands (expect = the concatenation the pieces stand for)
	var expect strings.Builder
	sentinels := make([]any, len(args))
	// round 8: the same reading over SHORT operands of the kinds the site has (strings with a quote and a backslash; positive, negative
	// and extreme integers): the check evaluates model/GoFmtInt.v on (format, operands) and compares with what package fmt prints here
	var expect2 strings.Builder
	shorts := make([]any, len(args))
	checkable := true
	flush := func() {
		if text.Len() > 0 {
			st.Pieces = append(st.Pieces, Piece{T: "text", S: text.String()})
			expect.WriteString(text.String())
			expect2.WriteString(text.String())
			text.Reset()
		}
	}
	for i := 0; i < len(format); i++ {
		ch := format[i]
		if ch != '%' {
			text.WriteByte(ch)
			continue
		}
		i++
		if i >= len(format) {
			break
		}
		if format[i] == '%' {
			text.WriteByte('%')
			continue
		}
		// flags, explicit index, width, precision
		idx := -1
		spec := ""
		for i < len(format) && strings.IndexByte("+-# 0123456789.", format[i]) >= 0 {
			spec += string(format[i])
			i++
		}
		if i < len(format) && format[i] == '[' {
			j := strings.IndexByte(format[i:], ']')
			n, _ := strconv.Atoi(format[i+1 : i+j])
			idx = n - 1
			i += j + 1
		}
		for i < len(format) && strings.IndexByte("+-# 0123456789.", format[i]) >= 0 {
			spec += string(format[i])
			i++
		}
		verb := byte('?')
		if i < len(format) {
			verb = format[i]
		}
		if idx < 0 {
			idx = next
		}
		next = idx + 1
		flush()
		if idx >= len(args) {
			st.Pieces = append(st.Pieces, Piece{T: "arg", K: KUnclass, What: "missing argument"})
			continue
		}
		switch verb {
		case 'd', 'f', 'g', 'e':
			// numeric only if the static type of the argument is (types.go); otherwise fmt would print
			// %!d(string=...) with the argument's bytes
			st.Pieces = append(st.Pieces, c.verbArg(verb, args[idx]))
			if verb == 'd' && (sentinels[idx] == nil || sentinels[idx] == 7000+idx) {
				sentinels[idx] = 7000 + idx
				// flags and width of an integer verb add sign, zeros or spaces only: the single verb is printed by fmt itself
				expect.WriteString(fmt.Sprintf("%"+spec+"d", 7000+idx))
				shorts[idx] = shortInt(idx)
				expect2.WriteString(fmt.Sprintf("%"+spec+"d", shorts[idx]))
			} else {
				checkable = false // float verbs print a precision-dependent text; an operand used under two kinds of verb
			}
		case 's', 'v':
			st.Pieces = append(st.Pieces, c.argPiece(args[idx]))
			// long enough for a precision (%.40s truncates) or a width (%40s pads) to show
			sv := "\x01arg" + strconv.Itoa(idx) + strings.Repeat("~", 5000) + "\x02"
			if sentinels[idx] == nil || sentinels[idx] == sv {
				sentinels[idx] = sv
				expect.WriteString(sv)
				shorts[idx] = fmt.Sprintf("\x01a%d'\\", idx)
				expect2.WriteString(shorts[idx].(string))
			} else {
				checkable = false
			}
		default:
			st.Pieces = append(st.Pieces, Piece{T: "arg", K: KUnclass, What: "verb %" + string(verb) + " " + exprStr(args[idx])})
			checkable = false
		}
	}
	flush()
	fmtChecks.Sites++
	if checkable {
		for i := range sentinels {
			if sentinels[i] == nil {
				checkable = false // an operand no verb consumes: fmt appends %!(EXTRA ...)
				st.Pieces = append(st.Pieces, Piece{T: "arg", K: KUnclass, What: "operand without verb " + exprStr(args[i])})
			}
		}
	}
	if checkable {
		fmtChecks.Compared++
		if got := fmt.Sprintf(format, sentinels...); got != expect.String() {
			fmtChecks.Differ++
			st.Pieces = append(st.Pieces, Piece{T: "arg", K: KUnclass,
				What: "package fmt prints this format differently from the analyser's decomposition (flags, width, precision, index)"})
		}
		rec := fmtModelRec{File: st.File, Line: st.Line, Format: hex.EncodeToString([]byte(format)),
			Out: hex.EncodeToString([]byte(fmt.Sprintf(format, shorts...))), Expect: hex.EncodeToString([]byte(expect2.String()))}
		for _, o := range shorts {
			switch v := o.(type) {
			case string:
				rec.Ops = append(rec.Ops, fmtModelOp{K: "s", V: hex.EncodeToString([]byte(v))})
			case int:
				rec.Ops = append(rec.Ops, fmtModelOp{K: "d", Ty: "int", V: strconv.Itoa(v)})
			case int64:
				rec.Ops = append(rec.Ops, fmtModelOp{K: "d", Ty: "int64", V: strconv.FormatInt(v, 10)})
			}
		}
		fmtModel = append(fmtModel, rec)
	}
	sites = append(sites, st)
}

// round 8: every compared constant format with short operands of its kinds, package fmt's output and the decomposition's text
type fmtModelOp struct {
	K  string `json:"k"`
	Ty string `json:"ty,omitempty"`
	V  string `json:"v"`
}
type fmtModelRec struct {
	File   string       `json:"file"`
	Line   int          `json:"line"`
	Format string       `json:"format"`
	Ops    []fmtModelOp `json:"ops"`
	Out    string       `json:"out"`
	Expect string       `json:"expect"`
}

var fmtModel []fmtModelRec

func shortInt(idx int) any {
	switch idx % 3 {
	case 0:
		return 7000 + idx
	case 1:
		return -(7000 + idx)
	}
	return int64(math.MinInt64)
}

// how many constant formats were decomposed / compared with package fmt's own output over sentinel operands / differed
var fmtChecks struct{ Sites, Compared, Differ int }

// numericFormat: a Sprintf whose constant format has only numeric verbs and bytes of numeric_alphabet around them
func (c *fnCtx) numericFormat(x *ast.CallExpr) bool {
	format, ok := strLit(x.Args[0])
	if !ok {
		return false
	}
	const numericAlphabet = "0123456789+-.eEpPxXabcdefABCDEFNIn"
	verbs := 0
	for i := 0; i < len(format); i++ {
		ch := format[i]
		if ch != '%' {
			if strings.IndexByte(numericAlphabet, ch) < 0 {
				return false
			}
			continue
		}
		i++
		for i < len(format) && strings.IndexByte("+-0123456789.", format[i]) >= 0 {
			i++
		}
		if i >= len(format) || strings.IndexByte("dfeg", format[i]) < 0 {
			return false
		}
		if verbs+1 >= len(x.Args) {
			return false
		}
		// the argument must be statically numeric of the verb's kind
		kind, _ := c.pkg.numKind(x.Args[verbs+1])
		if !(format[i] == 'd' && kind == "int") && !(format[i] != 'd' && kind == "float") {
			return false
		}
		verbs++
	}
	return verbs > 0 && verbs == len(x.Args)-1
}

func flattenConcat(e ast.Expr, out *[]ast.Expr) {
	if p, ok := e.(*ast.ParenExpr); ok {
		flattenConcat(p.X, out)
		return
	}
	if b, ok := e.(*ast.BinaryExpr); ok && b.Op == token.ADD {
		flattenConcat(b.X, out)
		flattenConcat(b.Y, out)
		return
	}
	*out = append(*out, e)
}

func (c *fnCtx) addConcatSite(x *ast.BinaryExpr) {
	if seen[x.Pos()] {
		return
	}
	seen[x.Pos()] = true
	if _, ok := strLit(x); ok {
		return
	}
	var parts []ast.Expr
	flattenConcat(x, &parts)
	markNested(x)
	f, l := c.pos(x)
	st := Site{File: f, Line: l, Kind: "concat", Func: c.name}
	for _, p := range parts {
		st.Pieces = append(st.Pieces, c.argPiece(p))
	}
	sites = append(sites, st)
}

// a value placed directly in a sink position (NewRawObject(x), return x from a String method, QueryCtx(ctx, x))
func (c *fnCtx) addSinkSite(e ast.Expr, kind string) {
	if _, ok := strLit(e); ok {
		return
	}
	switch x := e.(type) {
	case *ast.CallExpr:
		if isPkgCall(x, "fmt", "Sprintf") {
			c.addSprintfSite(x)
			return
		}
	case *ast.BinaryExpr:
		if x.Op == token.ADD {
			c.addConcatSite(x)
			return
		}
	}
	if seen[e.Pos()] {
		return
	}
	seen[e.Pos()] = true
	f, l := c.pos(e)
	sites = append(sites, Site{File: f, Line: l, Kind: kind, Func: c.name, Pieces: []Piece{c.argPiece(e)}})
}

func isErrorCtx(stack []ast.Node) bool {
	for i := len(stack) - 1; i >= 0; i-- {
		switch n := stack[i].(type) {
		case *ast.CallExpr:
			nm := calleeName(n)
			if isPkgCall(n, "fmt", "Errorf") || isPkgCall(n, "errors", "New") || nm == "panic" ||
				strings.HasPrefix(nm, "Print") || isPkgCall(n, "template", "New") {
				return true
			}
			// text that only becomes a compiled regular expression (a *regexp.Regexp is not text; its String() would be a call
			// of unknown provenance at its own site): acceptsAbsent of reader/prof/transpiler compiles "^(?:" + val + ")$"
			if isPkgCall(n, "regexp", "Compile") || isPkgCall(n, "regexp", "MustCompile") || isPkgCall(n, "regexp", "MatchString") {
				return true
			}
			if s, ok := n.Fun.(*ast.SelectorExpr); ok {
				if id, ok := s.X.(*ast.Ident); ok && (id.Name == "logger" || id.Name == "log") {
					return true
				}
			}
		case *ast.CompositeLit:
			if strings.HasSuffix(exprStr2(n.Type), "Error") {
				return true
			}
		case *ast.FuncLit, *ast.FuncDecl:
			return false
		}
	}
	return false
}

func exprStr2(e ast.Expr) string {
	if e == nil {
		return ""
	}
	return exprStr(e)
}

// is this function a SQL renderer: method String(ctx *sql.Ctx, ...) or func(ctx *sql.Ctx, options ...int) (string, error)
func isRenderer(ft *ast.FuncType) bool {
	if ft.Params == nil || len(ft.Params.List) == 0 || ft.Results == nil || len(ft.Results.List) != 2 {
		return false
	}
	t := exprStr(ft.Params.List[0].Type)
	return (t == "*sql.Ctx" || t == "*Ctx") && exprStr(ft.Results.List[0].Type) == "string"
}

// is the argument at position pos of a call to nm only ever handed to NewStringVal inside nm
func (p *pkgInfo) paramOnlyQuoted(nm string, pos int) bool {
	if nm == "NewStringVal" {
		return pos == 0
	}
	ok := false
	for _, f := range p.funcs {
		fd, isDecl := f.node.(*ast.FuncDecl)
		if !isDecl || fd.Name.Name != nm {
			continue
		}
		pname := ""
		for n, i := range f.params {
			if i == pos {
				pname = n
			}
		}
		if pname == "" {
			return false
		}
		uses, quoted := 0, 0
		ast.Inspect(fd.Body, func(n ast.Node) bool {
			switch x := n.(type) {
			case *ast.CallExpr:
				if calleeName(x) == "NewStringVal" && len(x.Args) == 1 {
					if id, isId := x.Args[0].(*ast.Ident); isId && id.Name == pname {
						quoted++
					}
				}
			case *ast.Ident:
				if x.Name == pname {
					uses++
				}
			}
			return true
		})
		if uses == 0 || uses != quoted {
			return false
		}
		ok = true
	}
	return ok
}

// every use of local variable name is NewStringVal(name), apart from its own (re)definitions
// (x := ..., x = f(x)): the text only ever reaches SQL through the escaper
func (c *fnCtx) varOnlyQuoted(name string) bool {
	skip := map[*ast.Ident]bool{}
	ast.Inspect(c.body, func(n ast.Node) bool {
		as, ok := n.(*ast.AssignStmt)
		if !ok {
			return true
		}
		defines := false
		for _, l := range as.Lhs {
			if id, ok := l.(*ast.Ident); ok && id.Name == name {
				skip[id] = true
				defines = true
			}
		}
		if defines {
			for _, r := range as.Rhs {
				ast.Inspect(r, func(m ast.Node) bool {
					if id, ok := m.(*ast.Ident); ok && id.Name == name {
						skip[id] = true
					}
					return true
				})
			}
		}
		return true
	})
	uses, quoted := 0, 0
	ast.Inspect(c.body, func(n ast.Node) bool {
		switch x := n.(type) {
		case *ast.CallExpr:
			if calleeName(x) == "NewStringVal" && len(x.Args) == 1 {
				if id, ok := x.Args[0].(*ast.Ident); ok && id.Name == name {
					quoted++
				}
			}
		case *ast.Ident:
			if x.Name == name && !skip[x] {
				uses++
			}
		}
		return true
	})
	return quoted > 0 && uses == quoted
}

func (c *fnCtx) quotedLater(stack []ast.Node, e ast.Expr) bool {
	if len(stack) == 0 {
		return false
	}
	if as, ok := stack[len(stack)-1].(*ast.AssignStmt); ok && len(as.Lhs) == 1 && len(as.Rhs) == 1 && as.Rhs[0] == e {
		if id, ok := as.Lhs[0].(*ast.Ident); ok {
			return c.varOnlyQuoted(id.Name)
		}
	}
	call, ok := stack[len(stack)-1].(*ast.CallExpr)
	if !ok {
		return false
	}
	for i, a := range call.Args {
		if a == e {
			return c.pkg.paramOnlyQuoted(calleeName(call), i)
		}
	}
	return false
}

func (c *fnCtx) scanSites(core bool) {
	if c.excluded() {
		return
	}
	var ft *ast.FuncType
	switch n := c.node.(type) {
	case *ast.FuncDecl:
		ft = n.Type
		// Stringer implementations of the query ASTs (String() with no parameter) print request text, not SQL
		if n.Name.Name == "String" && len(n.Type.Params.List) == 0 {
			return
		}
	case *ast.FuncLit:
		ft = n.Type
	}
	renderer := ft != nil && isRenderer(ft)
	var stack []ast.Node
	ast.Inspect(c.body, func(x ast.Node) bool {
		if x == nil {
			stack = stack[:len(stack)-1]
			return true
		}
		if _, ok := x.(*ast.FuncLit); ok {
			return false // has its own context
		}
		stack = append(stack, x)
		switch s := x.(type) {
		case *ast.CallExpr:
			nm := calleeName(s)
			if nm == "FmtRawObject" && len(s.Args) >= 1 {
				c.addSprintfSite(s)
			} else if ps, ok := sinkCalls[nm]; ok {
				for _, p := range ps {
					if p < len(s.Args) {
						c.addSinkSite(s.Args[p], "sink "+nm)
					}
				}
			}
			if renderer && (nm == "WriteString" || nm == "WriteRune" || nm == "WriteByte") && len(s.Args) == 1 {
				if _, isLit := s.Args[0].(*ast.BasicLit); !isLit {
					c.addSinkSite(s.Args[0], "sink "+nm+" in a String method")
				}
			}
			// round 6: every statement handed to a session (database/sql, sqlx and the repository's ISqlxDB names), and its bind arguments
			if sp, ok := sessionCall(s); ok && len(s.Args) > sp && !c.excluded() {
				// a wrapper method delegating to the method of the same name (StableSqlxDBWrapper.Query -> DB.Query) passes its own
				// parameter on: the statement is judged at the calls of the wrapper, which are session calls by the same name
				if id, isId := s.Args[sp].(*ast.Ident); !(isId && c.delegates(nm, id.Name)) {
					c.addSinkSite(s.Args[sp], "sink "+nm)
				}
				c.addBindSite(s, nm, sp)
			}
			if core && isPkgCall(s, "fmt", "Sprintf") && !isErrorCtx(stack[:len(stack)-1]) && !c.quotedLater(stack[:len(stack)-1], s) && !c.excluded() {
				c.addSprintfSite(s)
			}
			// round 5: the other formatting entry points of package fmt (none on main): Fprintf / Appendf are Sprintf behind a first
			// argument; the Sprint / Fprint families print their operands with %v (and add spaces): every operand is judged
			if core && !isErrorCtx(stack[:len(stack)-1]) && !c.excluded() {
				switch {
				case (isPkgCall(s, "fmt", "Fprintf") || isPkgCall(s, "fmt", "Appendf")) && len(s.Args) >= 2:
					y := *s
					y.Args = s.Args[1:]
					c.addSprintfSite(&y)
				case isPkgCall(s, "fmt", "Sprint") || isPkgCall(s, "fmt", "Sprintln") || isPkgCall(s, "fmt", "Fprint") || isPkgCall(s, "fmt", "Fprintln") ||
					isPkgCall(s, "fmt", "Append") || isPkgCall(s, "fmt", "Appendln"):
					if !seen[s.Pos()] {
						seen[s.Pos()] = true
						f, l := c.pos(s)
						st := Site{File: f, Line: l, Kind: "fmt print", Func: c.name}
						args := s.Args
						if !isPkgCall(s, "fmt", "Sprint") && !isPkgCall(s, "fmt", "Sprintln") && len(args) > 0 {
							args = args[1:]
						}
						for _, a := range args {
							st.Pieces = append(st.Pieces, c.argPiece(a))
						}
						sites = append(sites, st)
					}
				}
			}
		case *ast.BinaryExpr:
			if s.Op == token.ADD && !seen[s.Pos()] {
				skip := !core || isErrorCtx(stack[:len(stack)-1]) || !c.stringy(s) || c.quotedLater(stack[:len(stack)-1], s) || c.excluded()
				if skip {
					markNested(s)
				} else {
					c.addConcatSite(s)
				}
			}
		case *ast.ReturnStmt:
			if renderer && len(s.Results) == 2 {
				c.addSinkSite(s.Results[0], "return of a String method")
			}
		}
		return true
	})
}

func (c *fnCtx) delegates(callee, arg string) bool {
	// the parameter may belong to an enclosing function (the wrapper runs its call inside a function literal)
	for k := c; k != nil; k = k.parent {
		if _, isParam := k.params[arg]; isParam {
			nm := k.name
			if i := strings.LastIndex(nm, "."); i >= 0 {
				nm = nm[i+1:]
			}
			return nm == callee
		}
	}
	return false
}

func markNested(b *ast.BinaryExpr) {
	seen[b.Pos()] = true
	for _, e := range []ast.Expr{b.X, b.Y} {
		if p, ok := e.(*ast.ParenExpr); ok {
			e = p.X
		}
		if n, ok := e.(*ast.BinaryExpr); ok && n.Op == token.ADD {
			markNested(n)
		}
	}
}

// reviewed exclusions: functions that build request-language text (re-parsed and quoted later), not SQL
var excludedFuncs = map[string]string{
	"reader/prof/transpiler/transpiler.go:populateTypeId": "builds back-ticked selector literals that Str.Unquote strips again; the values reach SQL through NewStringVal in StreamSelectorPlanner.getMatchers",
	"reader/utils/sql_select/condition.go:CNot.String":    "dead code: sql.Not has no caller under reader/ (checked by translate/gen_sqlsites); it renders `!(...)`, a single '!' is an error token of the ClickHouse lexer",
}

func (c *fnCtx) excluded() bool {
	key := c.file + ":" + c.name
	if c.recv != "" {
		key = c.file + ":" + c.recv + "." + c.name
	}
	_, ok := excludedFuncs[key]
	return ok
}

// does the + expression involve a string literal somewhere (otherwise it is arithmetic)
func (c *fnCtx) stringy(b *ast.BinaryExpr) bool {
	var parts []ast.Expr
	flattenConcat(b, &parts)
	for _, p := range parts {
		if l, ok := p.(*ast.BasicLit); ok && l.Kind == token.STRING {
			return true
		}
	}
	return false
}

func main() {
	root = os.Args[1]
	var dirs []string
	filepath.Walk(filepath.Join(root, "reader"), func(p string, info os.FileInfo, err error) error {
		if err == nil && info.IsDir() {
			rel, _ := filepath.Rel(root, p)
			dirs = append(dirs, rel)
		}
		return nil
	})
	sort.Strings(dirs)
	scanBindCalls(dirs)
	for _, d := range dirs {
		p := scanPkg(d)
		if len(p.files) == 0 {
			continue
		}
		core := false
		for _, c := range corePkgs {
			core = core || c == d
		}
		fs := append([]*fnCtx(nil), p.funcs...)
		sort.SliceStable(fs, func(i, j int) bool {
			if fs[i].file != fs[j].file {
				return fs[i].file < fs[j].file
			}
			return fs[i].node.Pos() < fs[j].node.Pos()
		})
		for _, f := range fs {
			f.scanSites(core)
		}
	}
	sort.SliceStable(sites, func(i, j int) bool {
		if sites[i].File != sites[j].File {
			return sites[i].File < sites[j].File
		}
		return sites[i].Line < sites[j].Line
	})
	enc := json.NewEncoder(os.Stdout)
	enc.SetIndent("", " ")
	enc.Encode(map[string]any{"sites": sites, "excluded": excludedFuncs, "types": typeStats, "fmt_checks": fmtChecks, "bind": bindStats, "fmt_model": fmtModel})
}
