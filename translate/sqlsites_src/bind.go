package main

// Round 6 (seeded C10-f): bind arguments.
//
// A statement handed to a database session TOGETHER WITH bind arguments is rewritten by clickhouse-go's client-side bind
// (bind.go: every `$<digits>`, or every `?` not behind a backslash, or every `@name` of the statement TEXT is replaced by the
// driver-quoted argument) - also inside the string literals the planners rendered for request values.  So the provenance of the
// statement's parts is not enough at such a call: the text is interpreted once more, by the driver (the same class of defect as a
// rendered statement used as a fmt format, round 5).  Rule: at a session call with bind arguments the statement must be a string
// literal; otherwise the site carries an unclassified part.  A forwarded variadic parameter (`QueryCtx(ctx, query, args...)` inside
// GenericLabelReq / StableSqlxDBWrapper) supplies arguments iff some call of the forwarding function - by name, anywhere under reader/ -
// supplies one (transitively).  Over-approximations (sound): callees are matched by name; a constant statement that reaches the sink
// through a parameter is not recognised as constant.

import (
	"go/ast"
	"go/parser"
	"os"
	"path/filepath"
	"regexp"
	"sort"
	"strings"
)

// session entry points: method name -> position of the statement text
var sessionCtxCalls = map[string]int{"QueryCtx": 1, "ExecCtx": 1, "QueryContext": 1, "ExecContext": 1, "QueryRowContext": 1,
	"QueryxContext": 1, "QueryRowxContext": 1, "MustExecContext": 1, "NamedQueryContext": 1, "NamedExecContext": 1, "PrepareContext": 1,
	"SelectContext": 2, "GetContext": 2}
var sessionPlainCalls = map[string]int{"Query": 0, "Exec": 0, "QueryRow": 0, "Queryx": 0, "QueryRowx": 0, "MustExec": 0, "NamedQuery": 0,
	"NamedExec": 0, "Prepare": 0, "Preparex": 0}

// receivers on which the context-free names are taken for session calls (no type information here: `t.Query(ctx, ...)` of a
// service is not one)
var sessionRecv = regexp.MustCompile(`(?i)(^|\.)(db|session|conn|tx|sqlx|sess)$`)

// sessionCall: is the call a statement handed to a session?  -> position of the statement
func sessionCall(s *ast.CallExpr) (int, bool) {
	nm := calleeName(s)
	if p, ok := sessionCtxCalls[nm]; ok {
		return p, true
	}
	if p, ok := sessionPlainCalls[nm]; ok {
		if sel, ok := s.Fun.(*ast.SelectorExpr); ok && sessionRecv.MatchString(exprStr(sel.X)) {
			return p, true
		}
	}
	return 0, false
}

type bindFn struct {
	nfixed   int
	variadic string // name of the variadic parameter ("" if none)
}
type bindCall struct {
	nargs    int
	ellipsis bool
	last     ast.Expr
	encl     []bindFn // enclosing functions, innermost first (a closure may forward the variadic parameter of its parent)
	enclName []string
	where    string
	recv     string // printed receiver expression of a method call
}

var (
	bindFuncs = map[string][]bindFn{}   // function / method name -> declarations under reader/
	bindCalls = map[string][]bindCall{} // callee name -> calls under reader/
	bindStats struct{ SessionCalls, WithArguments, Forwarding, Flagged int }
)

func fnShape(ft *ast.FuncType) bindFn {
	b := bindFn{}
	for _, f := range ft.Params.List {
		n := len(f.Names)
		if n == 0 {
			n = 1
		}
		if _, ok := f.Type.(*ast.Ellipsis); ok {
			if len(f.Names) == 1 {
				b.variadic = f.Names[0].Name
			} else {
				b.variadic = "_"
			}
			continue
		}
		b.nfixed += n
	}
	return b
}

// scanBindCalls: one syntactic pass over every non-test file under reader/
func scanBindCalls(dirs []string) {
	for _, d := range dirs {
		ents, _ := os.ReadDir(filepath.Join(root, d))
		var names []string
		for _, e := range ents {
			n := e.Name()
			if e.IsDir() || !strings.HasSuffix(n, ".go") || strings.HasSuffix(n, "_test.go") || strings.HasPrefix(n, "zz_verif") {
				continue
			}
			names = append(names, n)
		}
		sort.Strings(names)
		for _, n := range names {
			f, err := parser.ParseFile(fset, filepath.Join(root, d, n), nil, 0)
			if err != nil {
				continue // reported by scanPkg
			}
			var encl []bindFn
			var enclName []string
			var stack []ast.Node
			ast.Inspect(f, func(x ast.Node) bool {
				if x == nil {
					top := stack[len(stack)-1]
					stack = stack[:len(stack)-1]
					switch top.(type) {
					case *ast.FuncDecl, *ast.FuncLit:
						encl = encl[1:]
						enclName = enclName[1:]
					}
					return true
				}
				stack = append(stack, x)
				switch s := x.(type) {
				case *ast.FuncDecl:
					sh := fnShape(s.Type)
					bindFuncs[s.Name.Name] = append(bindFuncs[s.Name.Name], sh)
					encl = append([]bindFn{sh}, encl...)
					enclName = append([]string{s.Name.Name}, enclName...)
				case *ast.FuncLit:
					encl = append([]bindFn{fnShape(s.Type)}, encl...)
					enclName = append([]string{""}, enclName...)
				case *ast.CallExpr:
					nm := calleeName(s)
					if nm == "" {
						return true
					}
					bc := bindCall{nargs: len(s.Args), ellipsis: s.Ellipsis.IsValid(), encl: append([]bindFn(nil), encl...),
						enclName: append([]string(nil), enclName...)}
					if len(s.Args) > 0 {
						bc.last = s.Args[len(s.Args)-1]
					}
					if sel, ok := s.Fun.(*ast.SelectorExpr); ok {
						bc.recv = exprStr(sel.X)
					}
					p := fset.Position(s.Pos())
					rel, _ := filepath.Rel(root, p.Filename)
					bc.where = rel + ":" + itoa(p.Line)
					bindCalls[nm] = append(bindCalls[nm], bc)
				}
				return true
			})
		}
	}
}

func itoa(n int) string {
	if n == 0 {
		return "0"
	}
	s := ""
	for n > 0 {
		s = string(rune('0'+n%10)) + s
		n /= 10
	}
	return s
}

// forwards: the call passes, behind nfixed arguments, exactly `p...` where p is the variadic parameter of an enclosing function
// -> the name of that function ("" for a function literal: its callers are unknown)
func (bc bindCall) forwards(nfixed int) (string, bool) {
	if !bc.ellipsis || bc.nargs != nfixed+1 {
		return "", false
	}
	id, ok := bc.last.(*ast.Ident)
	if !ok {
		return "", false
	}
	for i, f := range bc.encl {
		if f.variadic == id.Name {
			return bc.enclName[i], true
		}
	}
	return "", false
}

// suppliers: the calls of function `name` (by name, under reader/) that hand it something for its variadic parameter, followed
// through forwarding functions; "?" when a forwarding chain ends in a function literal
func suppliers(name string, busy map[string]bool) []string {
	if busy[name] {
		return nil
	}
	busy[name] = true
	var out []string
	decls := bindFuncs[name]
	if len(decls) == 0 {
		return nil
	}
	for _, d := range decls {
		if d.variadic == "" {
			continue
		}
		for _, bc := range bindCalls[name] {
			if bc.nargs <= d.nfixed && !bc.ellipsis {
				continue
			}
			// the context-free names (Query, Exec, ...) are session calls only on a receiver that is named like one: the Tempo
			// service has a method Query(ctx, start, end, id, ...) of its own
			if _, plain := sessionPlainCalls[name]; plain && !sessionRecv.MatchString(bc.recv) {
				continue
			}
			if fn, ok := bc.forwards(d.nfixed); ok {
				if fn == "" {
					out = append(out, bc.where+" (forwarded by a function literal)")
				} else {
					out = append(out, suppliers(fn, busy)...)
				}
				continue
			}
			out = append(out, bc.where)
		}
	}
	return out
}

// addBindSite: the bind arguments of a session call (pos = position of the statement text)
func (c *fnCtx) addBindSite(s *ast.CallExpr, nm string, pos int) {
	bindStats.SessionCalls++
	if len(s.Args) <= pos+1 {
		return
	}
	bindStats.WithArguments++
	if _, ok := strLit(s.Args[pos]); ok {
		return // constant text: a parameterised statement (the driver quotes the arguments)
	}
	extra := s.Args[pos+1:]
	what := ""
	if s.Ellipsis.IsValid() && len(extra) == 1 {
		if id, ok := extra[0].(*ast.Ident); ok {
			bc := bindCall{nargs: len(s.Args), ellipsis: true, last: id}
			// the enclosing functions of this call: the context chain of the analyser
			for k := c; k != nil; k = k.parent {
				switch n := k.node.(type) {
				case *ast.FuncDecl:
					bc.encl = append(bc.encl, fnShape(n.Type))
					bc.enclName = append(bc.enclName, n.Name.Name)
				case *ast.FuncLit:
					bc.encl = append(bc.encl, fnShape(n.Type))
					bc.enclName = append(bc.enclName, "")
				}
			}
			if fn, ok := bc.forwards(pos + 1); ok && fn != "" {
				bindStats.Forwarding++
				sup := suppliers(fn, map[string]bool{})
				if len(sup) == 0 {
					return // nobody hands the forwarding function a bind argument
				}
				sort.Strings(sup)
				what = "bind arguments " + id.Name + "... of " + nm + " supplied at " + strings.Join(sup, ", ")
			}
		}
	}
	if what == "" {
		var parts []string
		for _, e := range extra {
			parts = append(parts, exprStr(e))
		}
		what = "bind arguments (" + strings.Join(parts, ", ") + ") of " + nm
	}
	bindStats.Flagged++
	f, l := c.pos(s)
	sites = append(sites, Site{File: f, Line: l, Kind: "bind arguments beside a rendered statement", Func: c.name,
		Pieces: []Piece{{T: "arg", K: KUnclass, What: what + ": the driver's client-side bind rewrites $n / ? / @name of the statement text, inside rendered literals too (statement: " + exprStr(s.Args[pos]) + ")"}}})
}
