// Static types for the numeric rules of the census (property C10).
//
// "%d of anything" is not numeric: fmt prints `%!d(string=<the bytes>)` for a string argument, the
// elements of a slice, the fields of a struct ... — user bytes outside every literal.  A numeric verb is
// accepted only when go/types proves the argument's static type to be a basic integer (for %d) or a basic
// float (for %f %e %g), possibly named (time.Duration), and the type has no Format method (a fmt.Formatter
// takes over every verb).  Interfaces, pointers, slices, structs, strings: KUnclassified.
//
// Packages are type-checked lazily (only those that use a numeric verb) from the files the census has
// already parsed; imports are resolved from source by go/importer "source" (go list in the repository
// root: works offline with GOFLAGS=-mod=mod GOPROXY=off and the vendored module cache).  A package whose
// type check reports errors still yields types for every expression the checker could type; an expression
// without a recorded type is "unknown" and therefore not numeric.
package main

import (
	"fmt"
	"go/ast"
	"go/importer"
	"go/types"
	"os"
	"sort"
	"strings"
)

var (
	typeImp   types.Importer
	typeInfos = map[*pkgInfo]*types.Info{}
	typeStats = map[string]any{"packages_type_checked": []string{}, "type_errors": 0, "numeric_args_checked": 0, "numeric_args_rejected": 0}
	modPath   string
)

func modulePath() string {
	if modPath != "" {
		return modPath
	}
	b, _ := os.ReadFile(root + "/go.mod")
	for _, l := range strings.Split(string(b), "\n") {
		if strings.HasPrefix(l, "module ") {
			modPath = strings.TrimSpace(strings.TrimPrefix(l, "module "))
		}
	}
	if modPath == "" {
		modPath = "github.com/metrico/qryn"
	}
	return modPath
}

func (p *pkgInfo) typeInfo() *types.Info {
	if ti, ok := typeInfos[p]; ok {
		return ti
	}
	if typeImp == nil {
		if err := os.Chdir(root); err != nil {
			fmt.Fprintln(os.Stderr, "chdir", err)
			os.Exit(1)
		}
		typeImp = importer.ForCompiler(fset, "source", nil)
	}
	var names []string
	for fn := range p.files {
		names = append(names, fn)
	}
	sort.Strings(names)
	var files []*ast.File
	for _, fn := range names {
		files = append(files, p.files[fn])
	}
	info := &types.Info{Types: map[ast.Expr]types.TypeAndValue{}}
	nerr := 0
	conf := types.Config{Importer: typeImp, Error: func(err error) {
		nerr++
		if nerr <= 3 {
			fmt.Fprintln(os.Stderr, "sqlsites: type check of", p.dir+":", err)
		}
	}}
	conf.Check(modulePath()+"/"+p.dir, fset, files, info)
	typeInfos[p] = info
	typeStats["packages_type_checked"] = append(typeStats["packages_type_checked"].([]string), p.dir)
	typeStats["type_errors"] = typeStats["type_errors"].(int) + nerr
	return info
}

// numKind: "int" | "float" | "" and a printable name of the static type
func (p *pkgInfo) numKind(e ast.Expr) (string, string) {
	tv, ok := p.typeInfo().Types[e]
	if !ok || tv.Type == nil {
		return "", "unknown type"
	}
	t := tv.Type
	name := types.TypeString(t, func(q *types.Package) string { return q.Name() })
	if ms := types.NewMethodSet(t); ms.Lookup(nil, "Format") != nil {
		return "", name + " (has a Format method)"
	}
	b, ok := t.Underlying().(*types.Basic)
	if !ok {
		return "", name
	}
	switch {
	case b.Info()&types.IsInteger != 0:
		return "int", name
	case b.Info()&types.IsFloat != 0:
		return "float", name
	case b.Info()&types.IsBoolean != 0:
		return "bool", name
	}
	return "", name
}

// verbArg: the class of an argument printed with a numeric verb
func (c *fnCtx) verbArg(verb byte, e ast.Expr) Piece {
	kind, tname := c.pkg.numKind(e)
	typeStats["numeric_args_checked"] = typeStats["numeric_args_checked"].(int) + 1
	switch {
	case verb == 'd' && kind == "int":
		return Piece{T: "arg", K: KInt, What: exprStr(e)}
	case (verb == 'f' || verb == 'g' || verb == 'e') && kind == "float":
		return Piece{T: "arg", K: KFloat, What: exprStr(e)}
	}
	typeStats["numeric_args_rejected"] = typeStats["numeric_args_rejected"].(int) + 1
	return Piece{T: "arg", K: KUnclass, What: "verb %" + string(verb) + " of " + tname + ": " + exprStr(e)}
}
