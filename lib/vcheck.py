"""Shared machinery for the per-property checks (see DESIGN.md section 1.3).

A check is a python module checks/cXX.py with a function run(ck) that uses the helpers of
class Check below:

  ck.regen(...)            run translators (coq/gen/*.v)
  ck.coq_make([...])       build .vo targets of the single Coq project under a lock
  ck.coq_props()           re-compile props/Cxx.v, collect Print Assumptions per theorem
  ck.go_build(cmd)         build harness/cmd/<cmd> against /repo's working tree, -tags verif
  ck.go_run(cmd, args)     run it
  ck.coq_eval(name, text)  compile a generated cases file (vm_compute inside Coq), return stdout
  ck.obligation(name, ok, detail)
  ck.known(fid) / ck.report_known(fid, what)
  ck.violation(replay_obj, no_input=False)
  ck.finish()              write evidence, print verdict, return exit code
"""
import fcntl
import glob
import hashlib
import json
import os
import re
import subprocess
import sys
import time

VERIF = os.path.dirname(os.path.dirname(os.path.abspath(__file__)))
REPO = os.environ.get("VERIF_REPO", "/repo")
COQ = os.path.join(VERIF, "coq")
BUILD = os.path.join(VERIF, ".build")
HARNESS = os.path.join(VERIF, "harness")

FORBIDDEN = re.compile(
    r"\b(Admitted|admit|Axiom|Axioms|Parameter|Parameters|Conjecture|Conjectures|Abort All|"
    r"Unset\s+Guard|Unset\s+Positivity|Unset\s+Universe|bypass_check|Admit\s+Obligations|"
    r"type-in-type|impredicative-set|native_compute)\b")

# axioms of the standard library that a theorem may depend on (named in the trusted base
# when they occur). Nothing else is accepted under a Print Assumptions.
ALLOWED_AXIOMS = {
    "functional_extensionality_dep", "FunctionalExtensionality.functional_extensionality_dep",
    "Eqdep.Eq_rect_eq.eq_rect_eq", "JMeq.JMeq_eq", "Classical_Prop.classic",
    "ProofIrrelevance.proof_irrelevance", "propositional_extensionality",
}

GLOBAL_TRUSTED = [
    "Coq 8.16.1 kernel incl. vm_compute (no native_compute); coqchk re-check in the thorough tier",
    "no Axiom/Parameter/Admitted in the development (scanned every run); Print Assumptions collected under every property theorem",
    "correspondence harness (Go, /verif/harness) and its generators/canonicalisers; Go 1.24.2; Python 3 driver",
]


def go_env():
    e = dict(os.environ)
    e["GOFLAGS"] = "-mod=mod"
    e["GOPROXY"] = "off"
    e.pop("GOSUMDB", None)
    # /usr/bin/go is the 1.24.2 toolchain in this image; leave GOTOOLCHAIN alone unless it is "local"+too old
    if e.get("GOTOOLCHAIN") == "local":
        e.pop("GOTOOLCHAIN")
    e.setdefault("GOCACHE", os.path.join(BUILD, "gocache"))
    return e


def sh(cmd, cwd=None, env=None, timeout=None, input=None):
    """run, return (rc, stdout+stderr)"""
    try:
        p = subprocess.run(cmd, cwd=cwd, env=env, timeout=timeout, input=input,
                           stdout=subprocess.PIPE, stderr=subprocess.STDOUT, text=True,
                           errors="replace")
        return p.returncode, p.stdout
    except subprocess.TimeoutExpired as ex:
        out = ex.stdout.decode("utf8", "replace") if isinstance(ex.stdout, bytes) else (ex.stdout or "")
        return 124, out + "\n[timeout after %ss]" % timeout


class Lock:
    def __init__(self, name):
        os.makedirs(BUILD, exist_ok=True)
        self.path = os.path.join(BUILD, name + ".lock")

    def __enter__(self):
        self.f = open(self.path, "w")
        fcntl.flock(self.f, fcntl.LOCK_EX)
        return self

    def __exit__(self, *a):
        fcntl.flock(self.f, fcntl.LOCK_UN)
        self.f.close()


def coq_sources():
    out = []
    for d in ("lib", "model", "gen", "proofs", "props"):
        out += sorted(glob.glob(os.path.join(COQ, d, "*.v")))
    return [os.path.relpath(p, COQ) for p in out]


def ensure_coq_project_file():
    """_CoqProject is derived from the directory listing (for editors and coqchk users; the build does not need it)."""
    srcs = coq_sources()
    proj = "-R . Qryn\n" + "\n".join(srcs) + "\n"
    open(os.path.join(COQ, "_CoqProject"), "w").write(proj)


COQ_WARN = "-notation-overridden,-deprecated-hint-without-locality,-deprecated-instance-without-locality,-ambiguous-paths"


def _coq_deps():
    """{file.v: [dep.v ...]} for every source of the project, from coqdep (reads sources only)."""
    srcs = coq_sources()
    rc, out = sh(["coqdep", "-R", ".", "Qryn"] + srcs, cwd=COQ, timeout=300)
    deps = {}
    for ln in out.splitlines():
        if ":" not in ln or ln.startswith("***"):
            continue
        lhs, rhs = ln.split(":", 1)
        tg = [x for x in lhs.split() if x.endswith(".vo")]
        if not tg:
            continue
        v = tg[0][:-1]
        deps[v] = [x[:-1] for x in rhs.split() if x.endswith(".vo")]
    for s in srcs:
        deps.setdefault(s, [])
    return deps


def _compile_one(v, deps, timeout):
    """compile v (if stale) under a per-file lock; returns (rc, output)"""
    vo = os.path.join(COQ, v + "o")
    src = os.path.join(COQ, v)

    def stale():
        if not os.path.exists(vo):
            return True
        m = os.path.getmtime(vo)
        if os.path.getmtime(src) > m:
            return True
        for d in deps.get(v, []):
            dvo = os.path.join(COQ, d + "o")
            if os.path.exists(dvo) and os.path.getmtime(dvo) > m:
                return True
        return False
    if not stale():
        return 0, ""
    with Lock("coqfile_" + v.replace("/", "_")):
        if not stale():
            return 0, ""
        rc, out = sh(["coqc", "-R", ".", "Qryn", "-w", COQ_WARN, v], cwd=COQ, timeout=timeout)
        return rc, "COQC %s\n%s" % (v, out)


def coq_make(targets=None, jobs=16, timeout=1500):
    """Builds the given .vo targets (default: every source) with their dependency cones. Each file is
    compiled under its own lock, so concurrent builders only wait for each other on shared files.
    A full .vo build (never -vos/-vok)."""
    from concurrent.futures import ThreadPoolExecutor, wait, FIRST_COMPLETED
    deps = _coq_deps()
    if targets:
        want = []
        for tg in targets:
            v = tg[:-1] if tg.endswith(".vo") else tg
            if v not in deps:
                return 2, "no such Coq source: %s" % v
            want.append(v)
    else:
        want = list(deps)
    cone = set()
    stack = list(want)
    while stack:
        v = stack.pop()
        if v in cone:
            continue
        cone.add(v)
        stack += [d for d in deps.get(v, []) if d in deps]
    done, failed, log = set(), set(), []
    pending = set(cone)
    running = {}
    with ThreadPoolExecutor(max_workers=jobs) as ex:
        while pending or running:
            for v in sorted(pending):
                ds = [d for d in deps.get(v, []) if d in cone]
                if any(d in failed for d in ds):
                    failed.add(v); pending.discard(v)
                    log.append("SKIP %s (a dependency failed)" % v)
                elif all(d in done for d in ds):
                    pending.discard(v)
                    running[ex.submit(_compile_one, v, deps, timeout)] = v
            if not running:
                if pending:   # dependency cycle or all blocked
                    for v in pending:
                        failed.add(v)
                    pending = set()
                continue
            fin, _ = wait(list(running), return_when=FIRST_COMPLETED)
            for f in fin:
                v = running.pop(f)
                rc, out = f.result()
                if out:
                    log.append(out.rstrip())
                (done if rc == 0 else failed).add(v)
    return (1 if failed else 0), "\n".join(log)


def scan_forbidden(files=None):
    bad = []
    for rel in (files or coq_sources()):
        p = os.path.join(COQ, rel)
        if not os.path.exists(p):
            continue
        txt = open(p, errors="replace").read()
        # strip comments (non-nested good enough: nested handled by loop)
        prev = None
        while prev != txt:
            prev = txt
            txt = re.sub(r"\(\*[^*(]*(?:\*(?!\))[^*(]*|\((?!\*)[^*(]*)*\*\)", " ", txt)
        for m in FORBIDDEN.finditer(txt):
            bad.append("%s: %s" % (rel, m.group(0)))
    return bad


def parse_assumptions(stdout):
    """Split coqc stdout of a props file into one verdict per Print Assumptions."""
    res = []
    lines = stdout.splitlines()
    i = 0
    while i < len(lines):
        ln = lines[i]
        if ln.startswith("Closed under the global context"):
            res.append(("closed", []))
        elif ln.startswith("Axioms:"):
            ax = []
            i += 1
            while i < len(lines) and lines[i] and not lines[i].startswith(("Closed under", "Axioms:")):
                m = re.match(r"^([A-Za-z_][\w.']*)\s*:", lines[i])
                if m:
                    ax.append(m.group(1))
                i += 1
            res.append(("axioms", ax))
            continue
        i += 1
    return res


class Check:
    def __init__(self, pid, argv=None):
        self.pid = pid
        self.t0 = time.time()
        argv = argv or []
        self.tier = os.environ.get("VERIF_TIER", "quick")
        self.replay = None
        i = 0
        while i < len(argv):
            if argv[i] == "--tier":
                self.tier = argv[i + 1]; i += 1
            elif argv[i] == "--replay":
                self.replay = argv[i + 1]; i += 1
            i += 1
        if self.tier not in ("quick", "thorough"):
            self.tier = "quick"
        try:
            self.seed = int(os.environ.get("VERIF_SEED", "20260930"))
        except ValueError:
            self.seed = 20260930
        self.obligations = []          # (name, ok, detail)
        self.violations = []           # (replay_path, no_input)
        self.known_hits = []
        self.coverage = {"evaluations": 0, "distinct_nontrivial": 0, "rule": "", "samples": []}
        self.trusted = list(GLOBAL_TRUSTED)
        self.assumptions = []
        self.checker_cmds = []
        self.extra = {}
        self.theorems = []
        os.makedirs(BUILD, exist_ok=True)
        self.work = os.path.join(BUILD, "work", repo_tag(), pid)
        os.makedirs(self.work, exist_ok=True)

    # ---------------------------------------------------------------- logging
    def log(self, *a):
        print("[%s %5.1fs]" % (self.pid, time.time() - self.t0), *a, flush=True)

    def quick(self):
        return self.tier == "quick"

    def n(self, quick, thorough):
        return quick if self.tier == "quick" else thorough

    # ---------------------------------------------------------------- obligations
    def obligation(self, name, ok, detail=""):
        self.obligations.append((name, bool(ok), detail))
        if not ok:
            self.log("OBLIGATION FAILED:", name, "--", detail[:2000])
        return ok

    # ---------------------------------------------------------------- Coq
    def coq_make(self, targets):
        t = time.time()
        rc, out = coq_make(targets)
        self.checker_cmds.append("make -C coq " + " ".join(targets))
        self.log("coq make %s rc=%d (%.1fs)" % (" ".join(targets), rc, time.time() - t))
        if rc != 0:
            tail = "\n".join(out.splitlines()[-40:])
            self.log(tail)
        return rc == 0, out

    def coq_props(self, extra_files=()):
        """Build props/<pid>.vo's dependencies, then compile the props file itself afresh to
        read the Print Assumptions output. One obligation per theorem of the props file."""
        rel = "props/%s.v" % self.pid
        src = open(os.path.join(COQ, rel)).read()
        thms = re.findall(r"^\s*(?:Theorem|Corollary)\s+([A-Za-z_][\w']*)", src, re.M)
        self.theorems = thms
        bad = scan_forbidden()
        self.obligation("no Admitted/Axiom/Parameter/guard-off anywhere in coq/", not bad, "; ".join(bad))
        ok, out = self.coq_make(["props/%s.vo" % self.pid])
        if not ok:
            failing = re.findall(r'File "\./([^"]+)", line (\d+)[^\n]*\n(?:[^\n]*\n)?Error', out)
            for t in thms:
                self.obligation("theorem " + t, False, "build failed: %s" % (failing[-3:],))
            self.build_log = out
            return False
        with Lock("coqfile_" + rel.replace("/", "_")):
            rc, pout = sh(["coqc", "-R", ".", "Qryn", "-w", COQ_WARN, rel], cwd=COQ, timeout=900)
        self.checker_cmds.append("coqc -R . Qryn " + rel + "  (Print Assumptions under every theorem)")
        verdicts = parse_assumptions(pout)
        if rc != 0 or len(verdicts) < len(thms):
            for t in thms:
                self.obligation("theorem " + t, False, "props file did not compile or lacks Print Assumptions (%d/%d): %s" % (len(verdicts), len(thms), pout[-500:]))
            return False
        allok = True
        for t, (kind, ax) in zip(thms, verdicts):
            extra_ax = [a for a in ax if a not in ALLOWED_AXIOMS and a.split(".")[-1] not in ALLOWED_AXIOMS]
            ok1 = not extra_ax
            allok &= ok1
            self.obligation("theorem " + t, ok1, "closed under the global context" if kind == "closed" else "axioms: " + ", ".join(ax))
            if ax:
                self.assumptions.append("%s depends on: %s" % (t, ", ".join(ax)))
        return allok

    def coqchk(self, mods):
        """thorough tier: independent re-check of compiled files."""
        rc, out = sh(["coqchk", "-silent", "-o", "-R", ".", "Qryn"] + mods, cwd=COQ, timeout=3000)
        self.checker_cmds.append("coqchk -silent -o -R . Qryn " + " ".join(mods))
        self.extra["coqchk_tail"] = out.splitlines()[-25:]
        self.obligation("coqchk " + " ".join(mods), rc == 0, out[-800:])
        return rc == 0

    def coq_eval(self, name, text, timeout=900):
        d = os.path.join(COQ, "cases")
        os.makedirs(d, exist_ok=True)
        # one file per run: concurrent runs (other seeds, VERIF_REPO worktrees) must not share a path
        name = "%s_%s_%d" % (re.sub(r"[^A-Za-z0-9_]", "_", name), repo_tag(), os.getpid())
        p = os.path.join(d, name + ".v")
        open(p, "w").write(text)
        t = time.time()
        rc, out = sh(["coqc", "-R", ".", "Qryn", "-w", "-notation-overridden", "cases/%s.v" % name], cwd=COQ, timeout=timeout)
        self.log("coq eval %s rc=%d (%.1fs)" % (name, rc, time.time() - t))
        for ext in (".vo", ".vok", ".vos", ".glob", ".v") if rc == 0 else (".vo", ".vok", ".vos", ".glob"):
            try:
                os.remove(os.path.join(d, name + ext))
            except OSError:
                pass
        try:
            os.remove(os.path.join(d, "." + name + ".aux"))
        except OSError:
            pass
        return rc, out

    # ---------------------------------------------------------------- OCaml extraction (volume runs)
    def ocaml_eval(self, name, extract_v, module, cases_ml, driver, timeout=1200):
        """Extract coq/extract/<extract_v> (ExtrOcamlBasic+ExtrOcamlString only) to <module>.ml in a scratch
        directory, compile it with the generated cases (OCaml text; prelude + `let cases = [...]`) and
        ocaml/<driver>, run, return (rc, stdout). The extraction is re-run on every call so that it always
        reflects the current models (their .vo must have been built: call coq_make first)."""
        # one scratch directory per run: concurrent checks (and seeds) must not share extracted/compiled files
        d = os.path.join(BUILD, "ocaml", repo_tag(), "%s_%s_%d" % (name, self.pid, os.getpid()))
        os.makedirs(d, exist_ok=True)
        t = time.time()
        rc, out = sh(["coqc", "-R", COQ, "Qryn", "-w", "-extraction", "-o", os.path.join(d, extract_v[:-2] + ".vo"),
                      os.path.join(COQ, "extract", extract_v)], cwd=d, timeout=600)
        if rc != 0:
            return rc, "extraction failed: " + out[-2000:]
        prelude = open(os.path.join(VERIF, "ocaml", "prelude.ml")).read()
        open(os.path.join(d, "cases.ml"), "w").write("open %s\n%s\n%s\n" % (module.capitalize(), prelude, cases_ml))
        import shutil
        shutil.copy(os.path.join(VERIF, "ocaml", driver), os.path.join(d, "driver.ml"))
        rc, out = sh(["sh", "-c", "ulimit -s unlimited 2>/dev/null; exec ocamlfind ocamlopt -w -a -inline 0 -o run %s.mli %s.ml cases.ml driver.ml" % (module, module)],
                     cwd=d, timeout=timeout)
        if rc != 0:
            return rc, "ocaml build failed: " + out[-3000:]
        tb = time.time() - t
        rc, out = sh([os.path.join(d, "run")], cwd=d, timeout=timeout)
        import shutil as _sh
        _sh.rmtree(d, ignore_errors=True)
        self.log("ocaml eval %s rc=%d (extract+build %.1fs, total %.1fs)" % (name, rc, tb, time.time() - t))
        self.checker_cmds.append("coqc extract/%s -> ocamlopt -> run (model side of the correspondence)" % extract_v)
        return rc, out

    # ---------------------------------------------------------------- Go harness
    def go_build(self, cmd):
        t = time.time()
        with Lock("gomod"):
            ensure_harness_module()
        out_bin = bin_path(cmd)
        rc, out = sh(["go", "build", "-modfile=" + modfile(), "-tags", "verif", "-o", out_bin, "./cmd/" + cmd], cwd=HARNESS, env=go_env(), timeout=1200)
        self.log("go build %s rc=%d (%.1fs)" % (cmd, rc, time.time() - t))
        if rc != 0:
            self.log(out[-3000:])
        self.build_out = out
        return rc == 0

    def go_run(self, cmd, args, timeout=900, input=None, env_extra=None):
        e = go_env()
        if env_extra:
            e.update(env_extra)
        t = time.time()
        rc, out = sh([bin_path(cmd)] + [str(a) for a in args], cwd=self.work, env=e, timeout=timeout, input=input)
        self.log("run %s %s rc=%d (%.1fs)" % (cmd, " ".join(str(a) for a in args)[:120], rc, time.time() - t))
        return rc, out

    # ---------------------------------------------------------------- findings
    def known_findings(self):
        out = {}
        lines = []
        for p in sorted(glob.glob(os.path.join(VERIF, "findings.d", "*.txt"))):
            lines += open(p).read().splitlines()
        for ln in lines:
            ln = ln.strip()
            if not ln.startswith("finding:"):
                continue
            m = re.search(r"property=(\S+)\s+id=(\S+)\s+(.*)$", ln)
            if m and m.group(1) == self.pid:
                out[m.group(2)] = m.group(3)
        return out

    def report_known(self, fid, what):
        if fid not in self.known_hits:
            self.known_hits.append(fid)
            print("KNOWN-FINDING: property=%s %s: %s" % (self.pid, fid, what), flush=True)

    def violation(self, replay_obj, no_input=False):
        d = os.path.join(VERIF, "replays", self.pid) if REPO == "/repo" else os.path.join(BUILD, "replays", repo_tag(), self.pid)
        os.makedirs(d, exist_ok=True)
        blob = json.dumps(replay_obj, indent=1, sort_keys=True, default=str)
        h = hashlib.sha1(blob.encode()).hexdigest()[:12]
        p = os.path.join(d, h + ".json")
        open(p, "w").write(blob)
        self.violations.append((p, no_input))
        print("VIOLATION property=%s replay=%s%s" % (self.pid, p, " no-failing-input-found" if no_input else ""), flush=True)
        return p

    # ---------------------------------------------------------------- evidence
    def add_samples(self, xs, limit=5):
        for x in xs:
            if len(self.coverage["samples"]) < limit:
                self.coverage["samples"].append(x)

    def finish(self):
        nobl = len(self.obligations)
        ndis = sum(1 for o in self.obligations if o[1])
        failed = [o for o in self.obligations if not o[1]]
        if failed and not self.violations:
            # a proof obligation / correspondence no longer checks and no concrete failing input was produced
            self.violation({"property": self.pid, "kind": "obligation-no-longer-checks",
                            "failed": [{"name": n, "detail": d[:4000]} for n, _, d in failed]}, no_input=True)
        cov = dict(self.coverage)
        cov.update({
            "obligations": max(nobl, 1), "discharged": ndis,
            "obligation_list": [{"name": n, "ok": ok, "detail": d[:300]} for n, ok, d in self.obligations],
            "checker_cmd": " && ".join(dict.fromkeys(self.checker_cmds)) or "none",
            "trusted_base": self.trusted,
            "theorems": self.theorems,
            "known_findings_reproduced": self.known_hits,
        })
        cov.update(self.extra)
        ev = {
            "property_id": self.pid, "tier": self.tier, "seed": self.seed, "level": "proof",
            "coverage": cov, "assumptions": self.assumptions + self.trusted,
            "wall_s": round(time.time() - self.t0, 2), "violations": len(self.violations),
        }
        evdir = os.path.join(VERIF, "evidence") if REPO == "/repo" else os.path.join(BUILD, "evidence", repo_tag())
        os.makedirs(evdir, exist_ok=True)
        with open(os.path.join(evdir, self.pid + ".json"), "w") as f:
            json.dump(ev, f, indent=1, sort_keys=True, default=str)
            f.write("\n")
        if self.violations:
            self.log("FAILED: %d violation(s); obligations %d/%d" % (len(self.violations), ndis, nobl))
            return 1
        self.log("OK: obligations %d/%d, evaluations %d, known findings %d" % (ndis, nobl, cov["evaluations"], len(self.known_hits)))
        return 0


# ---------------------------------------------------------------------- harness module
def repo_tag():
    return "main" if REPO == "/repo" else hashlib.sha1(REPO.encode()).hexdigest()[:8]


def modfile():
    """the real go.mod lives outside the harness directory (go build -modfile=...), one per /repo location,
    so that VERIF_REPO=<scratch worktree> runs do not disturb runs against /repo itself"""
    return os.path.join(BUILD, "mod", repo_tag(), "go.mod")


def bin_path(cmd):
    d = os.path.join(BUILD, "bin", repo_tag())
    os.makedirs(d, exist_ok=True)
    return os.path.join(d, cmd)


def ensure_harness_module():
    """harness/go.mod is derived from /repo/go.mod (replace block + go.sum) so that it builds offline."""
    gm = open(os.path.join(REPO, "go.mod")).read()
    m = re.search(r"^replace \((.*?)^\)", gm, re.S | re.M)
    repl = m.group(1) if m else ""
    gover = re.search(r"^go (\S+)", gm, re.M).group(1)
    tc = re.search(r"^toolchain (\S+)", gm, re.M)
    # keep the require block of /repo so that -mod=mod resolves the same versions without network
    reqs = "\n".join(re.findall(r"^require \(.*?^\)", gm, re.S | re.M))
    txt = "module verif/harness\n\ngo %s\n\n%s\nrequire github.com/metrico/qryn v0.0.0\n\n%s\n\nreplace github.com/metrico/qryn => %s\n\nreplace (%s)\n" % (
        gover, ("toolchain " + tc.group(1)) if tc else "", reqs, REPO, repl)
    p = modfile()
    os.makedirs(os.path.dirname(p), exist_ok=True)
    if not os.path.exists(p) or open(p).read() != txt:
        open(p, "w").write(txt)
    src = open(os.path.join(REPO, "go.sum")).read()
    q = p[:-4] + ".sum"
    if not os.path.exists(q) or open(q).read() != src:
        open(q, "w").write(src)


# ---------------------------------------------------------------------- Coq literal printers
def coq_string(b):
    """bytes -> Coq string literal (escapes via explicit ascii codes for non-printables)."""
    if isinstance(b, str):
        b = b.encode("utf8", "surrogateescape")
    if all(32 <= c < 127 and c != 34 for c in b):
        return '"' + b.decode("ascii") + '"'
    parts = []
    cur = []
    for c in b:
        if 32 <= c < 127 and c != 34:
            cur.append(chr(c))
        else:
            if cur:
                parts.append('"' + "".join(cur) + '"'); cur = []
            parts.append('(String (ascii_of_nat %d) EmptyString)' % c)
    if cur:
        parts.append('"' + "".join(cur) + '"')
    return "(" + " ++ ".join(parts) + ")%string" if len(parts) > 1 else parts[0] if parts else '""'


def coq_list(xs):
    return "[" + "; ".join(xs) + "]"


def coq_Z(n):
    """numeral for a file that has Z_scope open"""
    return "%d" % n if n >= 0 else "(%d)" % n


def coq_N(n):
    return "%d%%N" % n
