"""C04 - series identity depends only on the label set; every sample's series is indexed.

Three parts, each with a Coq model, theorems (props/C04.v) and a correspondence run of the real code:
  labels : fingerprintLabels / sanitizeLabels / encodeLabels + the exported parsers on generated label sets
           (model/Fingerprint.v, Labels.v, GoQuote.v, LabelJson.v)
  hist   : request histories through the in-process writer router, one shared (day, fingerprint) cache,
           scripted insert outcomes (model/SeriesIndex.v)
  dates  : the same router under time.Local = FixedZone(offset) (model/Dates.v)
Inside Coq (vm_compute) the model is compared with the observations (mismatches) and the property's boolean
oracles are run on the observations (spec violations).
"""
import binascii
import json
import os
import re

from vcheck import coq_list, coq_string, coq_Z

HERE = os.path.dirname(os.path.dirname(os.path.abspath(__file__)))
CORPUS = os.path.join(HERE, "corpus", "C04")


def unhex(h):
    return binascii.unhexlify(h)


def coq_bytes(b):
    """byte string -> Labels.bstr [len; words of 7 bytes, little endian] (primitive integers elaborate ~50x faster than literals)"""
    ws = [str(len(b))] + [str(int.from_bytes(b[i:i + 7], "little")) for i in range(0, len(b), 7)]
    return "(bstr [%s]%%uint63)" % "; ".join(ws)


def coq_u64(v):
    v = int(v)
    return "(z64 %d %d)" % (v >> 32, v & 0xFFFFFFFF)


def coq_pair_list(pairs):
    return coq_list(["(%s, %s)" % (coq_bytes(unhex(a)), coq_bytes(unhex(b))) for a, b in pairs])


def parse_report(out, names, var="R"):
    """R = [[..]; [..]; ...] : list (list Z)  ->  {name: [ints]}"""
    flat = " ".join(out.split())
    m = re.search(r"\b%s = \[(.*)\]\s*: list \(list Z\)" % var, flat)
    if not m:
        return None
    groups = re.findall(r"\[([^\[\]]*)\]", m.group(1))
    if len(groups) != len(names):
        return None
    return {n: [int(x) for x in re.findall(r"-?\d+", g)] for n, g in zip(names, groups)}


# ------------------------------------------------------------------------------------------ labels
L_LISTS = ["M_san", "M_fp", "M_doc", "V_perm", "V_doc", "V_utf8", "V_compat"]


def lcase_to_coq(c):
    ch = {h: v for h, v in (c["ch"] or [])}
    san = coq_pair_list(c["san"])
    raw = "san" if c["raw"] == c["san"] else coq_pair_list(c["raw"])
    fps = sorted(set(c["fps"] or []))
    return ("(let san := %s in {| lc_id := %d; lc_raw := %s; lc_ch := %s; lc_print := %s; lc_san := san; lc_fp := %s; lc_fps := %s; lc_doc := %s |})" % (
        san, c["id"], raw,
        coq_list(["(%s, %s)" % (coq_u64(ch[a]), coq_u64(ch[b])) for a, b in c["san"]]),
        coq_list(["(%d, %s)" % (r, "true" if p else "false") for r, p in (c["print"] or [])]),
        coq_u64(c["fp"]), coq_list([coq_u64(f) for f in fps]), coq_bytes(unhex(c["doc"]))))


def eval_lcases(ck, name, cases):
    txt = ("From Coq Require Import List ZArith Bool String Ascii Uint63.\n"
           "From Qryn Require Import model.GoQuote model.LabelJson model.Fingerprint model.Labels.\n"
           "Import ListNotations.\nOpen Scope Z_scope.\n"
           "Definition cases : list lcase := [\n  " + ";\n  ".join(lcase_to_coq(c) for c in cases) + "].\n")
    txt += "Definition R := Eval vm_compute in lreport cases.\nPrint R.\n"
    rc, out = ck.coq_eval(name, txt)
    if rc != 0:
        return None, out
    return parse_report(out, L_LISTS), out


def show_labels(c):
    return {"labels": [[unhex(a).decode("latin1"), unhex(b).decode("latin1")] for a, b in c["raw"]],
            "sanitized": [[unhex(a).decode("latin1"), unhex(b).decode("latin1")] for a, b in c["san"]],
            "fingerprint": c["fp"], "document": unhex(c["doc"]).decode("latin1")}


def run_labels(ck):
    n = ck.n(600, 12000)
    cases = []
    corpus = os.path.join(CORPUS, "labels.jsonl")
    if os.path.exists(corpus):
        outp = os.path.join(ck.work, "labels_corpus.jsonl")
        rc, out = ck.go_run("seriesid", ["--mode", "labels", "--seed", ck.seed, "--cases", corpus, "--out", outp])
        if rc != 0:
            ck.obligation("harness seriesid --mode labels ran on the corpus", False, out[-1500:])
            return
        cs = [json.loads(l) for l in open(outp)]
        for i, c in enumerate(cs):
            c["id"] = 1000000 + i
            c["class"] = "corpus:" + c.get("class", "")
        cases += cs
    # the city.CH64 values quoted in proofs/FingerprintInjProofs.v (real_tbl) are those of the code
    src = open(os.path.join(HERE, "coq", "proofs", "FingerprintInjProofs.v")).read()
    blk = re.search(r"Definition real_tbl.*?\]\.", src, re.S)
    quoted = dict(re.findall(r'\("([\w.]+)"%string, (\d+)\)', blk.group(0))) if blk else {}
    real = {}
    for c in cases:
        for hx_, v in c.get("ch") or []:
            real[unhex(hx_).decode("latin1")] = str(v)
    wrong = {k: (v, real.get(k)) for k, v in quoted.items() if real.get(k) != v}
    ck.obligation("the %d city.CH64 values used by fingerprint_identifies_label_set_on_real_hashes are the values the code computes" % len(quoted),
                  len(quoted) >= 11 and not wrong, "quoted vs computed: %s" % wrong)
    outp = os.path.join(ck.work, "labels.jsonl")
    rc, out = ck.go_run("seriesid", ["--mode", "labels", "--seed", ck.seed, "--n", n, "--out", outp])
    if rc != 0:
        ck.obligation("harness seriesid --mode labels ran", False, out[-1500:])
        return
    cases += [json.loads(l) for l in open(outp)]
    byid = {c["id"]: c for c in cases}
    size = lambda c: (len(c["raw"]), sum(len(a) + len(b) for a, b in c["raw"]))

    panics = [c for c in cases if c.get("panic")]
    for c in sorted(panics, key=size)[:1]:
        ck.violation({"property": "C04", "part": "labels", "kind": "panic in sanitizeLabels/fingerprintLabels/encodeLabels/parser",
                      "case": c, "readable": show_labels(c) if c.get("san") else None,
                      "replay": "seriesid --mode labels --cases <file with this case>"})
    ok = [c for c in cases if not c.get("panic")]
    res = {k: [] for k in L_LISTS}
    shard = 400
    for k in range(0, len(ok), shard):
        r, out = eval_lcases(ck, "C04_labels_%d" % (k // shard), ok[k:k + shard])
        if r is None:
            ck.obligation("label-set cases evaluated inside Coq", False, out[-1500:])
            return
        for key in L_LISTS:
            res[key] += r[key]

    def worst(ids):
        return min((byid[i] for i in ids), key=size)

    # --- correspondence
    for key, what in (("M_san", "sanitize = sanitizeLabels"), ("M_fp", "fingerprint (CityHash transcription over the CH64 table) = fingerprintLabels"),
                      ("M_doc", "encode_labels (jsonQuote model) = encodeLabels")):
        ck.obligation("correspondence: model %s on %d label sets" % (what, len(ok)), not res[key] and not panics,
                      "mismatching case ids: %s" % res[key][:10])
    # --- spec oracles on the observations
    ck.obligation("spec: every permutation and every ingest protocol yields the same fingerprint", not res["V_perm"],
                  "case ids: %s" % res["V_perm"][:10])
    ck.obligation("spec: the stored label document is JSON (strict RFC 8259 reader in Coq) and decodes to exactly the sanitized label set, for every generated set",
                  not res["V_doc"], "case ids: %s" % res["V_doc"][:10])
    ck.obligation("spec: sanitizeLabels leaves valid UTF-8 in every name and value", not res["V_utf8"], "case ids: %s" % res["V_utf8"][:10])
    ck.obligation("spec: the document is byte for byte what strconv.Quote wrote wherever that was JSON for the set (stored text of readable series unchanged)",
                  not res["V_compat"], "case ids: %s" % res["V_compat"][:10])
    pdoc = [c for c in ok if not c["parser_doc_ok"]]
    ck.obligation("parsers store encodeLabels(sanitizeLabels(labels as sent)) as the series document", not pdoc,
                  json.dumps(pdoc[0]["skipped"])[:600] if pdoc else "")
    infl = [c for c in ok if c.get("influx") not in ("", "ok", None)]
    ninfl = sum(1 for c in ok if c.get("influx") == "ok")
    ck.obligation("InfluxDB line protocol (tags through a Go map): fingerprint = fingerprintLabels(sanitizeLabels(measurement :: tags)) on %d sets" % ninfl,
                  not infl and ninfl > 0, infl[0]["influx"] if infl else "no applicable set generated")
    # fingerprints distinct for distinct label multisets (a TEST over the generated sets, not a theorem)
    byfp = {}
    coll = []
    for c in ok:
        key = json.dumps(sorted(map(tuple, c["san"])))
        if c["fp"] in byfp and byfp[c["fp"]][0] != key:
            coll.append((byfp[c["fp"]][1], c))
        byfp.setdefault(c["fp"], (key, c))
    ck.obligation("test: distinct generated label multisets have distinct fingerprints (%d multisets, incl. deliberately confusable groups)" % len(byfp),
                  not coll, "colliding ids: %s" % [(a["id"], b["id"]) for a, b in coll[:5]])
    # Go's own JSON reader vs the Coq reader on the observed documents
    bad_ids = set(res["V_doc"])
    disagree = [c for c in ok if (c["id"] in bad_ids) == bool(c["go_valid"] and c["go_equal"])]
    ck.obligation("cross-check: encoding/json (strict use) and LabelJson.json_decode agree on every observed document", not disagree,
                  "case ids: %s" % [c["id"] for c in disagree[:10]])
    # the READ side's own decoder (reader/service storedLabels, used by /series since d82d164) on every observed document
    rbad = [c for c in ok if c.get("names_distinct") and c.get("reader") != "ok"]
    ndist = sum(1 for c in ok if c.get("names_distinct"))
    ck.obligation("spec: the reader's decoder of stored label documents (storedLabels, Go encoding/json into a map) returns exactly the sanitized label set for every generated set with distinct names (%d sets)" % ndist,
                  not rbad and ndist > 0, "case ids: %s" % [(c["id"], c.get("reader")) for c in rbad[:5]])
    if rbad:
        c = min(rbad, key=size)
        ck.violation({"property": "C04", "part": "labels", "kind": "the reader's decoder of stored label documents does not return the label set the document was written for",
                      "case": c, "readable": show_labels(c), "reader": c.get("reader"), "replay": "seriesid --mode labels --cases <file with this case>"})
    ck.extra["labels_sets_with_duplicate_names_after_sanitize"] = len(ok) - ndist
    # protocol coverage must not silently vanish (a parser that starts failing would otherwise hide)
    unexpected = []
    for c in ok:
        for k, v in (c.get("skipped") or {}).items():
            if v.startswith("parser error") or v.startswith("not encodable"):
                unexpected.append((c["id"], k, v))
    ck.obligation("every protocol able to carry a label set parsed it", not unexpected, str(unexpected[:3]))

    if res["V_perm"]:
        c = worst(res["V_perm"])
        diff = [(s, f) for s, f in zip(c["fp_src"], c["fps"]) if f != c["fp"]]
        ck.violation({"property": "C04", "part": "labels", "kind": "fingerprint depends on label order or ingest protocol",
                      "case": c, "readable": show_labels(c), "differing": diff,
                      "explanation": "sv_perm (model/Labels.v): fingerprints observed for one label set differ",
                      "replay": "seriesid --mode labels --cases <file with this case>"})
    if coll:
        a, b = min(coll, key=lambda p: size(p[0]) + size(p[1]))
        ck.violation({"property": "C04", "part": "labels", "kind": "two different label sets share a fingerprint",
                      "case": a, "other": b, "readable": [show_labels(a), show_labels(b)],
                      "replay": "seriesid --mode labels --cases <file with both cases>"})
    if res["V_doc"]:
        c = worst(res["V_doc"])
        ck.violation({"property": "C04", "part": "labels", "kind": "stored label document is not JSON that decodes to the sanitized label set",
                      "case": c, "readable": show_labels(c), "explanation": "sv_doc (model/Labels.v): LabelJson.json_decode of the observed document differs from the observed sanitized labels",
                      "replay": "seriesid --mode labels --cases <file with this case>"})
    if res["V_utf8"] and not ck.violations:
        c = worst(res["V_utf8"])
        ck.violation({"property": "C04", "part": "labels", "kind": "sanitizeLabels left ill-formed UTF-8 in a label (the document cannot denote it)",
                      "case": c, "readable": show_labels(c), "replay": "seriesid --mode labels --cases <file with this case>"})
    if res["V_compat"] and not ck.violations:
        c = worst(res["V_compat"])
        ck.violation({"property": "C04", "part": "labels", "kind": "label document differs from the text strconv.Quote wrote although that text was JSON for the set (series stored before would get a second text)",
                      "case": c, "readable": show_labels(c), "replay": "seriesid --mode labels --cases <file with this case>"})
    if pdoc and not ck.violations:
        c = min(pdoc, key=size)
        ck.violation({"property": "C04", "part": "labels", "kind": "a parser stores a different label document than encodeLabels(sanitizeLabels(sent))",
                      "case": c, "readable": show_labels(c), "replay": "seriesid --mode labels --cases <file with this case>"})
    if infl and not ck.violations:
        c = min(infl, key=size)
        ck.violation({"property": "C04", "part": "labels", "kind": "fingerprint through the InfluxDB parser differs from the fingerprint of its sanitized label set",
                      "case": c, "readable": show_labels(c), "detail": c["influx"], "replay": "seriesid --mode labels --cases <file with this case>"})
    if (res["M_san"] or res["M_fp"] or res["M_doc"]) and not ck.violations:
        ids_ = res["M_san"] + res["M_fp"] + res["M_doc"]
        c = worst(ids_)
        ck.violation({"property": "C04", "part": "labels", "kind": "model/implementation disagree; spec oracles still accept",
                      "case": c, "readable": show_labels(c),
                      "broken": [k for k in ("M_san", "M_fp", "M_doc") if c["id"] in res[k]]}, no_input=True)
    # --- coverage
    distinct = set()
    hist = {}
    protos = {}
    for c in cases:
        hist[c["class"]] = hist.get(c["class"], 0) + 1
        for s in set(c.get("fp_src") or []):
            protos[s] = protos.get(s, 0) + 1
        if len(c["raw"]) >= 2:
            distinct.add(json.dumps(c["raw"]))
    ck.coverage["evaluations"] += len(cases)
    ck.coverage["distinct_nontrivial"] += len(distinct)
    ck.coverage["rule"] += ("labels: random label sets of 0..6 labels (identifier and dirty names incl. multi-byte and ill-formed UTF-8; values: ASCII, quotes/backslashes, "
                            "JSON-escapable and other control bytes, printable / non-printable BMP / astral runes, ill-formed UTF-8, >100 bytes incl. a cut inside a rune, random bytes) "
                            "plus groups of confusable sets; each set fingerprinted in 4 orders through the hook and through every protocol able to carry it; "
                            "non-trivial = at least 2 labels, distinct by content. ")
    ck.extra["labels_input_classes"] = hist
    ck.extra["labels_fingerprint_sources"] = protos
    nfix = sum(1 for c in ok if c["raw"] != c["san"])
    ck.extra["labels_sets_changed_by_sanitize"] = nfix
    nq = sum(1 for c in ok if c.get("quote_json") is False)
    ck.extra["labels_documents_strconv_quote_would_not_be_json"] = nq
    ck.obligation("generated label sets reach the bytes the old quoter got wrong (control bytes, 0x7f, ill-formed UTF-8, cut inside a rune, astral non-printables)", nq >= 50, "%d sets" % nq)
    ck.add_samples([show_labels(c) for c in cases if len(c["raw"]) >= 2][:2])


# ------------------------------------------------------------------------------------------ protocols
P_LISTS = ["M_pfp", "M_pdjb", "M_pdoc", "V_pperm", "V_pdoc", "K_unsan", "M_phdr", "K_hdr", "M_ploki", "V_pproto", "V_phdr", "C_unsan_same", "C_unsan"]


def coq_hexpairs(pairs):
    return coq_list(["(%s, %s)" % (coq_bytes(unhex(a)), coq_bytes(unhex(b))) for a, b in pairs or []])


def wire_to_coq(w):
    k = w["kind"]
    hb = lambda h: coq_bytes(unhex(h))
    f = w.get("fields") or []
    if k == "dd_logs":
        # the tags are computed INSIDE Coq from the ddtags text as sent (model/DdTags.v: the regular expression)
        letters = coq_list(["(%d, %s)" % (r, "true" if v else "false") for r, v in w.get("letters") or []])
        return "WDatadogLogs (dd_tags (tbl_lookup %s) %s) %s %s %s %s" % (letters, hb(w.get("ddtags", "")), hb(f[0]), hb(f[1]), hb(f[2]), hb(f[3]))
    if k == "dd_cf":
        names = ["cf_ddsource", "cf_script", "cf_outcome", "cf_event", "cf_action_result", "cf_action_type", "cf_actor_type", "cf_resource_type"]
        return "WDatadogCF {| %s |}" % "; ".join("%s := %s" % (n, hb(v)) for n, v in zip(names, f))
    if k == "dd_metrics":
        items = []
        for it in w.get("items") or []:
            if it.get("is_res"):
                items.append("DResources %s" % coq_list([coq_hexpairs(o) for o in it.get("objs") or []]))
            else:
                items.append("DMetric %s" % hb(it.get("metric", "")))
        return "WDatadogMetrics %s" % coq_list(items)
    if k == "es_doc":
        return "WElasticDoc %s %s" % (hb(f[0]), ("(Some %s)" % hb(f[1])) if w.get("has_id") else "None")
    if k == "es_bulk":
        return "WElasticBulk %s %s" % (hb(f[0]), coq_hexpairs(w.get("tags")))
    if k == "otlp":
        def val(v):
            t = v["t"]
            if t == "s":
                return "OStr %s" % hb(v.get("s", ""))
            if t == "b":
                return "OBool %s" % ("true" if v.get("b") else "false")
            if t == "i":
                return "OInt (%d)" % int(v["i"])
            if t == "d":
                return "ODouble %d%%N" % int(v["d"])
            if t == "y":
                return "OBytes %s" % hb(v.get("s", ""))
            if t == "a":
                return "OArr %s" % coq_list(["(%s)" % val(x) for x in v.get("a") or []])
            if t == "kv":
                return "OKv %s" % coq_list(["(%s, %s)" % (hb(x["k"]), val(x["v"])) for x in v.get("kv") or []])
            return "ONone"

        def attrs(l):
            return coq_list(["(%s, %s)" % (hb(x["k"]), val(x["v"])) for x in l or []])
        return "WOtlpLogs (otlp_map %s %s %s %s)" % (attrs(w.get("res")), attrs(w.get("scope")), attrs(w.get("rec")), hb(w.get("sev", "")))
    if k == "loki_ttl":
        return "WSanitized LokiJsonStream %s" % coq_hexpairs(w.get("tags"))
    if k == "influx_metric":
        return "WInfluxMetric %s %s %s" % (hb(f[0]), coq_hexpairs(w.get("tags")), hb(f[1]))
    raise ValueError("unknown wire kind %r" % k)


def pcase_to_coq(c):
    return ("{| pc_id := %d; pc_wire := %s; pc_ch := %s; pc_print := %s; pc_fp := %s; pc_fps := %s; pc_fp_djb := %s; pc_fps_djb := %s; pc_doc := %s; pc_has_hdr := %s; pc_fp_hdr := %s; pc_has_loki := %s; pc_fp_loki := %s |}" % (
        c["id"], wire_to_coq(c["wire"]),
        coq_list(["(%s, %s)" % (coq_bytes(unhex(h)), coq_u64(v)) for h, v in c.get("ch") or []]),
        coq_list(["(%d, %s)" % (r, "true" if p else "false") for r, p in (c.get("print") or [])]),
        coq_u64(c["fp"]), coq_list([coq_u64(x) for x in c.get("fps") or []]), coq_u64(c["fp_djb"]), coq_list([coq_u64(x) for x in c.get("fps_djb") or []]), coq_bytes(unhex(c["doc"])),
        "true" if c.get("has_hdr") else "false", coq_u64(c.get("fp_hdr") or 0),
        "true" if c.get("has_loki") else "false", coq_u64(c.get("fp_loki") or 0)))


def show_proto(c):
    dh = lambda h: unhex(h).decode("latin1")
    w = json.loads(json.dumps(c["wire"]))

    def sval(v):
        t = v["t"]
        if t in ("s", "y"):
            return {t: dh(v.get("s", ""))}
        if t == "d":
            import struct
            return {"double": repr(struct.unpack("<d", struct.pack("<Q", int(v["d"])))[0])}
        if t == "a":
            return {"array": [sval(x) for x in v.get("a") or []]}
        if t == "kv":
            return {"kvlist": [[dh(x["k"]), sval(x["v"])] for x in v.get("kv") or []]}
        return {t: v.get("b") if t == "b" else v.get("i")}
    if w.get("tags"):
        w["tags"] = [[dh(a), dh(b)] for a, b in w["tags"]]
    for key in ("res", "scope", "rec"):
        if w.get(key):
            w[key] = [[dh(x["k"]), sval(x["v"])] for x in w[key]]
    if w.get("ddtags"):
        w["ddtags"] = dh(w["ddtags"])
    if w.get("fields"):
        w["fields"] = [dh(x) for x in w["fields"]]
    if w.get("sev"):
        w["sev"] = dh(w["sev"])
    for it in w.get("items") or []:
        if it.get("metric"):
            it["metric"] = dh(it["metric"])
        if it.get("objs"):
            it["objs"] = [[[dh(a), dh(b)] for a, b in o] for o in it["objs"]]
    return {"protocol": c["class"], "sent": w, "fingerprint": c["fp"], "fingerprints in other wire orders": c.get("fps"),
            "fingerprint (Bernstein)": c["fp_djb"], "Bernstein fingerprints in other wire orders": c.get("fps_djb"), "document": unhex(c["doc"]).decode("latin1")}


def run_protos(ck):
    n = ck.n(400, 8000)
    cases = []
    corpus = os.path.join(CORPUS, "protos.jsonl")
    if os.path.exists(corpus):
        outp = os.path.join(ck.work, "protos_corpus.jsonl")
        rc, out = ck.go_run("seriesid", ["--mode", "protos", "--seed", ck.seed, "--cases", corpus, "--out", outp])
        if rc != 0:
            ck.obligation("harness seriesid --mode protos ran on the corpus", False, out[-1500:])
            return
        cs = [json.loads(l) for l in open(outp)]
        for i, c in enumerate(cs):
            c["id"] = 1000000 + i
            c["corpus"] = c.get("class", "")
            c["class"] = {"dd_logs": "datadog_logs", "dd_cf": "datadog_cf", "dd_metrics": "datadog_metrics", "es_doc": "elastic_doc", "es_bulk": "elastic_bulk",
                          "otlp": "otlp_logs", "influx_metric": "influx_metric"}.get(c["wire"]["kind"]) or (
                              "loki_ttl_label" if any(unhex(a) == b"__ttl_days__" for a, _ in c["wire"].get("tags") or []) else "loki_ttl_header_only")
        cases += cs
    outp = os.path.join(ck.work, "protos.jsonl")
    rc, out = ck.go_run("seriesid", ["--mode", "protos", "--seed", ck.seed, "--n", n, "--out", outp])
    if rc != 0:
        ck.obligation("harness seriesid --mode protos ran", False, out[-1500:])
        return
    cases += [json.loads(l) for l in open(outp)]
    bad = [c for c in cases if c.get("panic") or c.get("err")]
    ck.obligation("every Datadog / Elasticsearch / OTLP / Influx-metric request was parsed into a series row (in every wire order and under both fingerprint types)",
                  not bad, json.dumps(bad[:1])[:800])
    for c in bad[:1]:
        ck.violation({"property": "C04", "part": "protos", "kind": "parser error or panic on a generated request", "case": c,
                      "replay": "seriesid --mode protos --cases <file with the line {\"id\": 0, \"wire\": <the wire member of this case>}>  (or --seed %s --n %d, case id %d)" % (ck.seed, n, c["id"])})
    ok = [c for c in cases if c not in bad]
    byid = {c["id"]: c for c in ok}
    res = {k: [] for k in P_LISTS}
    shard = 400
    for k in range(0, len(ok), shard):
        txt = ("From Coq Require Import List ZArith Bool String Ascii Uint63.\n"
               "From Qryn Require Import model.GoQuote model.LabelJson model.Fingerprint model.Labels model.DdTags model.ProtoLabels.\n"
               "Import ListNotations.\nOpen Scope Z_scope.\n"
               "Definition cases : list pcase := [\n  " + ";\n  ".join(pcase_to_coq(c) for c in ok[k:k + shard]) + "].\n"
               "Definition R := Eval vm_compute in preport cases.\nPrint R.\n")
        rc, out = ck.coq_eval("C04_protos_%d" % (k // shard), txt)
        r = parse_report(out, P_LISTS) if rc == 0 else None
        if r is None:
            ck.obligation("protocol cases evaluated inside Coq", False, out[-1500:])
            return
        for key in P_LISTS:
            res[key] += r[key]
    size = lambda c: len(json.dumps(c["wire"]))
    ck.obligation("correspondence: model ProtoLabels.wire_labels + fingerprint (CityHash) = fingerprint stored by the decoder on %d requests" % len(ok),
                  not res["M_pfp"], "case ids: %s" % res["M_pfp"][:10])
    ck.obligation("correspondence: model fin_djb (FingerPrintType = Bernstein) = fingerprint stored by the decoder on %d requests" % len(ok),
                  not res["M_pdjb"], "case ids: %s" % res["M_pdjb"][:10])
    ck.obligation("correspondence: encode_labels (wire_labels request) = labels text stored by the decoder (up to the order of a Go map for OTLP / Influx tags)",
                  not res["M_pdoc"], "case ids: %s" % res["M_pdoc"][:10])
    ck.obligation("spec: the same request in other wire orders (members, tags, Go map iteration) gets the same fingerprint", not res["V_pperm"],
                  "case ids: %s" % res["V_pperm"][:10])
    ck.obligation("spec: the labels text stored by these decoders is JSON and decodes to the label list they built", not res["V_pdoc"],
                  "case ids: %s" % res["V_pdoc"][:10])
    # --- protocol / request independence, with the two recorded findings as EXACT classes (model/ProtoLabels.v
    #     in_unsanitized_class, in_ttl_class; theorem fingerprint_depends_on_sanitized_set_only_partial covers the rest)
    nloki = sum(1 for x in ok if x.get("has_loki"))
    nhdr = sum(1 for x in ok if x.get("has_hdr"))
    ck.obligation("correspondence: the label list a decoder stored, pushed as a Loki stream, gets fingerprint (sanitize (list)) (%d requests)" % nloki,
                  not res["M_ploki"] and nloki > 0, "case ids: %s" % res["M_ploki"][:10])
    ck.obligation("spec: OUTSIDE the class of finding labels-unsanitized-by-protocol the label list of every decoder gets the same fingerprint through Loki (%d of %d requests are outside)" % (
                  nloki - len(res["C_unsan"]), nloki), not res["V_pproto"], "case ids: %s" % res["V_pproto"][:10])
    ck.obligation("spec: OUTSIDE the class of finding ttl-label-kept-with-ttl-header a TTL header does not change the fingerprint (%d pushes with the header, %d of them without the control label)" % (
                  nhdr, sum(1 for x in ok if x["class"] == "loki_ttl_header_only")), not res["V_phdr"], "case ids: %s" % res["V_phdr"][:10])
    if res["V_pproto"]:
        c = min((byid[i] for i in res["V_pproto"]), key=size)
        ck.violation({"property": "C04", "part": "protos", "kind": "the fingerprint of a label set depends on the ingest protocol (outside the recorded finding: sanitizeLabels leaves this label list unchanged)",
                      "case": c, "readable": show_proto(c), "fingerprint of the same labels through Loki": c.get("fp_loki"), "explanation": "pv_proto_new (model/ProtoLabels.v)",
                      "replay": "seriesid --mode protos --cases <file with the line {\"id\": 0, \"wire\": <the wire member of this case>}>  (or --seed %s --n %d, case id %d)" % (ck.seed, n, c["id"])})
    if res["V_phdr"] and not ck.violations:
        c = min((byid[i] for i in res["V_phdr"]), key=size)
        ck.violation({"property": "C04", "part": "protos", "kind": "the fingerprint of a label set depends on whether the request carried a TTL header (outside the recorded finding: no __ttl_days__ label in the stream)",
                      "case": c, "readable": show_proto(c), "fingerprint with X-Ttl-Days: 7": c.get("fp_hdr"), "explanation": "pv_hdr_new (model/ProtoLabels.v)",
                      "replay": "seriesid --mode protos --cases <file with the line {\"id\": 0, \"wire\": <the wire member of this case>}>  (or --seed %s --n %d, case id %d)" % (ck.seed, n, c["id"])})
    # the READ side's own decoder on the stored text: same pairs as a strict JSON reading of the document (Python's), which
    # pv_doc ties to the label list the decoder built
    def strict_pairs(c):
        try:
            return sorted((k.encode("utf-8", "surrogatepass").hex(), v.encode("utf-8", "surrogatepass").hex())
                          for k, v in json.loads(unhex(c["doc"]).decode("utf-8"), object_pairs_hook=lambda ps: ps))
        except Exception as e:  # noqa: BLE001
            return "not JSON: %s" % e
    rdbad = []
    repeated, two_readings = [], []
    for c in ok:
        want = strict_pairs(c)
        if isinstance(want, list) and len(set(k for k, _ in want)) < len(want):
            # a name twice in the stored text (model/TwoReaders.v): SQL reads the FIRST member of a name (label_of), the Go map of
            # /series keeps the LAST (go_read); the class `ambiguous` = some name whose first and last member differ
            doc_order = [(k.encode("utf-8", "surrogatepass").hex(), v.encode("utf-8", "surrogatepass").hex())
                         for k, v in json.loads(unhex(c["doc"]).decode("utf-8"), object_pairs_hook=lambda ps: ps)]
            first, last = {}, {}
            for k, v in doc_order:
                first.setdefault(k, v)
                last[k] = v
            repeated.append(c)
            if c.get("rd_err") or sorted(map(tuple, c.get("rd") or [])) != sorted(last.items()):
                rdbad.append(c)
            elif first != last:
                c["two_readings"] = {"name": unhex(next(k for k in first if first[k] != last[k])).decode("utf-8", "replace"),
                                     "SQL reads (first member)": unhex(next(first[k] for k in first if first[k] != last[k])).decode("utf-8", "replace"),
                                     "/series shows (last member)": unhex(next(last[k] for k in first if first[k] != last[k])).decode("utf-8", "replace")}
                two_readings.append(c)
            continue
        if c.get("rd_err") or sorted(map(tuple, c.get("rd") or [])) != want:
            rdbad.append(c)
    ck.extra["protos_repeated_label_names"] = {"documents with a name twice": len(repeated), "of them read differently by SQL and by /series (class ambiguous)": len(two_readings)}
    ck.obligation("requests whose label list has a name twice were generated (Datadog logs: two tags of one name, a tag named like a field), some with two different values",
                  len(repeated) >= 5 and len(two_readings) >= 2, "%d documents with a repeated name, %d ambiguous" % (len(repeated), len(two_readings)))
    if two_readings:
        known = [c for c in two_readings if c["wire"]["kind"] == "dd_logs"] if "repeated-label-name-two-readings" in ck.known_findings() else []
        other = [c for c in two_readings if c not in known]
        if known:
            c = min(known, key=size)
            ck.report_known("repeated-label-name-two-readings", "%d of %d Datadog logs requests with a repeated label name store a document two readers read differently (exactly the class TwoReaders.ambiguous; %d documents with a repeated name and equal values are read alike), e.g. %s: %s" % (
                len(known), sum(1 for x in repeated if x["wire"]["kind"] == "dd_logs"), len(repeated) - len(two_readings), json.dumps(show_proto(c))[:300], json.dumps(c["two_readings"])))
        if other and not ck.violations:
            c = min(other, key=size)
            ck.violation({"property": "C04", "part": "protos", "kind": "the stored label document has a name twice with different values: the SQL matchers read the first member, /series shows the last (outside the recorded finding)",
                          "case": c, "readable": show_proto(c), "two readings": c["two_readings"], "explanation": "ambiguous (model/TwoReaders.v): label_of <> go_read",
                          "replay": "seriesid --mode protos --cases <file with the line {\"id\": 0, \"wire\": <the wire member of this case>}>  (or --seed %s --n %d, case id %d)" % (ck.seed, n, c["id"])})
    ck.obligation("spec: the reader's decoder of stored label documents (storedLabels) returns exactly the members of the labels text these decoders stored (%d documents)" % len(ok),
                  not rdbad, "case ids: %s" % [(c["id"], c.get("rd_err")) for c in rdbad[:5]])
    if rdbad and not ck.violations:
        c = min(rdbad, key=size)
        ck.violation({"property": "C04", "part": "protos", "kind": "the reader's decoder of stored label documents does not return the labels the document was written for",
                      "case": c, "readable": show_proto(c), "reader": c.get("rd_err") or c.get("rd"),
                      "replay": "seriesid --mode protos --cases <file with the line {\"id\": 0, \"wire\": <the wire member of this case>}>  (or --seed %s --n %d, case id %d)" % (ck.seed, n, c["id"])})
    if res["V_pperm"]:
        c = min((byid[i] for i in res["V_pperm"]), key=size)
        ck.violation({"property": "C04", "part": "protos", "kind": "fingerprint depends on the order the request presents its labels in",
                      "case": c, "readable": show_proto(c), "explanation": "pv_perm (model/ProtoLabels.v)",
                      "replay": "seriesid --mode protos --cases <file with the line {\"id\": 0, \"wire\": <the wire member of this case>}>  (or --seed %s --n %d, case id %d)" % (ck.seed, n, c["id"])})
    if res["V_pdoc"] and not ck.violations:
        c = min((byid[i] for i in res["V_pdoc"]), key=size)
        ck.violation({"property": "C04", "part": "protos", "kind": "stored labels text is not JSON for the label list the decoder built",
                      "case": c, "readable": show_proto(c), "explanation": "pv_doc (model/ProtoLabels.v)",
                      "replay": "seriesid --mode protos --cases <file with the line {\"id\": 0, \"wire\": <the wire member of this case>}>  (or --seed %s --n %d, case id %d)" % (ck.seed, n, c["id"])})
    ck.obligation("correspondence: with a TTL header the control label __ttl_days__ stays in the fingerprinted list (on_entries_labels)", not res["M_phdr"],
                  "case ids: %s" % res["M_phdr"][:10])
    if res["K_hdr"]:
        c = min((byid[i] for i in res["K_hdr"]), key=size)
        if "ttl-label-kept-with-ttl-header" in ck.known_findings():
            ck.report_known("ttl-label-kept-with-ttl-header", "%d of %d Loki pushes carrying a __ttl_days__ label get another fingerprint when the request has a TTL header (exactly the class in_ttl_class; %d pushes with the header and no control label keep theirs), e.g. %s (with header: %s)" % (
                len(res["K_hdr"]), sum(1 for x in ok if x["class"] == "loki_ttl_label"), sum(1 for x in ok if x["class"] == "loki_ttl_header_only"), json.dumps(show_proto(c))[:400], c.get("fp_hdr")))
        else:
            ck.violation({"property": "C04", "part": "protos", "kind": "the fingerprint of a label set depends on whether the request carried a TTL header",
                          "case": c, "readable": show_proto(c), "fingerprint with X-Ttl-Days: 7": c.get("fp_hdr"), "explanation": "pv_hdr (model/ProtoLabels.v)",
                          "replay": "seriesid --mode protos --cases <file with the line {\"id\": 0, \"wire\": <the wire member of this case>}>  (or --seed %s --n %d, case id %d)" % (ck.seed, n, c["id"])})
    if res["K_unsan"]:
        c = min((byid[i] for i in res["K_unsan"]), key=size)
        if "labels-unsanitized-by-protocol" in ck.known_findings():
            bycls = {}
            for i in res["K_unsan"]:
                bycls[byid[i]["class"]] = bycls.get(byid[i]["class"], 0) + 1
            ck.report_known("labels-unsanitized-by-protocol", "%d of %d generated requests %s store labels sanitizeLabels would have changed and get another fingerprint than the same labels through Loki (exactly the class in_unsanitized_class: %d requests in the class, %d of them with equal fingerprints; 0 outside it differ), e.g. %s (through Loki: %s)" % (
                len(res["K_unsan"]), len(ok), json.dumps(bycls), len(res["C_unsan"]), len(res["C_unsan_same"]), json.dumps(show_proto(c))[:500], c.get("fp_loki")))
        else:
            ck.violation({"property": "C04", "part": "protos", "kind": "a decoder stores labels that are not sanitized (the same label set through Loki gets another fingerprint)",
                          "case": c, "readable": show_proto(c), "fingerprint of the same labels through Loki": c.get("fp_loki"), "explanation": "pk_unsan (model/ProtoLabels.v)",
                          "replay": "seriesid --mode protos --cases <file with the line {\"id\": 0, \"wire\": <the wire member of this case>}>  (or --seed %s --n %d, case id %d)" % (ck.seed, n, c["id"])})
    mm = res["M_pfp"] + res["M_pdjb"] + res["M_pdoc"] + res["M_phdr"] + res["M_ploki"]
    if mm and not ck.violations:
        c = min((byid[i] for i in mm), key=size)
        ck.violation({"property": "C04", "part": "protos", "kind": "model/implementation disagree on the label list or fingerprint of a protocol; spec oracles still accept",
                      "case": c, "readable": show_proto(c), "broken": [k for k in ("M_pfp", "M_pdjb", "M_pdoc", "M_phdr", "M_ploki") if c["id"] in res[k]]}, no_input=True)
    hist = {}
    for c in cases:
        hist[c["class"]] = hist.get(c["class"], 0) + 1
    ck.coverage["evaluations"] += len(cases)
    ck.coverage["distinct_nontrivial"] += len(set(json.dumps(c["wire"]) for c in cases if len(c.get("ch") or []) >= 3))
    ck.coverage["rule"] += ("protos: requests of the seven decoders that build their own label list (Datadog logs with 0..3 ddtags and four optional fields, Datadog Cloudflare lines, Datadog metrics with resources, "
                            "Elasticsearch document and bulk create objects, OTLP logs with resource/scope/record attributes overriding each other and a severity, InfluxDB metric lines), values incl. quotes, control bytes, "
                            "non-ASCII, astral non-printables and > 100 bytes; Datadog ddtags as a TEXT of 0..4 comma-separated pieces (well-formed tags and junk: no value, digit first, blanks, trailing '!', non-ASCII letters and digits, backslashes, an ill-formed byte); "
                            "OTLP attribute values as any-value trees up to depth 2 (string, bool, int, double incl. NaN / infinities / denormals / random bits, bytes, arrays, kvlists with keys colliding after SanitizeKey, no value); each request sent in 3 wire orders (OTLP: 4 map iterations) and once under FingerPrintType = Bernstein, "
                            "its stored label list pushed again as a Loki stream, Loki pushes with and without X-Ttl-Days with and without the control label; non-trivial = at least 3 distinct strings in the label list, distinct by content. ")
    ck.extra["protos_input_classes"] = hist
    # measured distribution of the newly modelled inputs: OTLP any-value nodes by kind and depth, ddtags texts
    vk, depth_max = {}, 0

    def walk(v, d):
        nonlocal depth_max
        vk[v["t"]] = vk.get(v["t"], 0) + 1
        depth_max = max(depth_max, d)
        for x in v.get("a") or []:
            walk(x, d + 1)
        for x in v.get("kv") or []:
            walk(x["v"], d + 1)
    dd = {"texts": 0, "empty": 0, "with a piece that is not a well-formed tag": 0, "with non-ASCII runes": 0, "with an ill-formed byte": 0, "tags stored": 0}
    for c in ok:
        w = c["wire"]
        for key in ("res", "scope", "rec"):
            for a in w.get(key) or []:
                walk(a["v"], 0)
        if w["kind"] == "dd_logs":
            t = unhex(w.get("ddtags", ""))
            dd["texts"] += 1
            dd["empty"] += t == b""
            pieces = t.split(b",") if t else []
            dd["with a piece that is not a well-formed tag"] += any(not re.fullmatch(rb"[A-Za-z][A-Za-z_0-9\-.\\/]*:[A-Za-z_0-9\-.\\/:]+", p_) for p_ in pieces)
            dd["with non-ASCII runes"] += any(b > 127 for b in t)
            try:
                t.decode("utf-8")
            except UnicodeDecodeError:
                dd["with an ill-formed byte"] += 1
            dd["tags stored"] += max(0, len(strict_pairs(c)) - sum(1 for x in (w.get("fields") or []) if x) - 1) if isinstance(strict_pairs(c), list) else 0
    names = {"s": "string", "b": "bool", "i": "int", "d": "double", "y": "bytes", "a": "array", "kv": "kvlist", "n": "no value"}
    ck.extra["protos_otlp_value_nodes"] = dict({names[k]: v for k, v in sorted(vk.items())}, **{"deepest nesting": depth_max})
    ck.extra["protos_ddtags_texts"] = dd
    ck.obligation("generated OTLP attribute values reach every kind of the any-value tree (string, bool, int, double, bytes, array, kvlist, no value) and ddtags texts reach junk, non-ASCII letters and ill-formed bytes",
                  len(vk) == 8 and dd["with a piece that is not a well-formed tag"] >= 5 and dd["with non-ASCII runes"] >= 3, "%s %s" % (vk, dd))
    ck.extra["protos_unsanitized"] = len(res["K_unsan"])
    ck.extra["protos_finding_classes"] = {"in_unsanitized_class": len(res["C_unsan"]), "of them with another fingerprint through Loki": len(res["K_unsan"]),
                                          "outside, pushed through Loki too": nloki - len(res["C_unsan"]), "ttl header + control label": len(res["K_hdr"]),
                                          "ttl header without control label": sum(1 for x in ok if x["class"] == "loki_ttl_header_only")}
    ck.add_samples([show_proto(c) for c in ok if c["class"] == "otlp_logs"][:1])


# ------------------------------------------------------------------------------------------ fingerprint types
def run_djb(ck):
    """pairs of label sets under FingerPrintType = CityHash and Bernstein (32 bits): the recorded collision witness"""
    corpus = os.path.join(CORPUS, "djb.jsonl")
    outp = os.path.join(ck.work, "djb.jsonl")
    rc, out = ck.go_run("seriesid", ["--mode", "djb", "--cases", corpus, "--out", outp])
    if rc != 0:
        ck.obligation("harness seriesid --mode djb ran on the corpus", False, out[-1500:])
        return
    cases = [json.loads(l) for l in open(outp)]
    bad = [c for c in cases if c.get("panic")]
    ck.obligation("every pair of label sets was fingerprinted under both fingerprint types", not bad and cases, json.dumps(bad[:1])[:500])
    ok = [c for c in cases if not c.get("panic")]
    txt = ("From Coq Require Import List ZArith Bool String Ascii Uint63.\n"
           "From Qryn Require Import model.GoQuote model.LabelJson model.Fingerprint model.Labels model.ProtoLabels.\n"
           "Import ListNotations.\nOpen Scope Z_scope.\n"
           "Definition cases : list jcase := [\n  " +
           ";\n  ".join("{| jc_id := %d; jc_a := %s; jc_b := %s; jc_ch := %s; jc_city_a := %s; jc_city_b := %s; jc_djb_a := %s; jc_djb_b := %s |}" % (
               c["id"], coq_hexpairs(c["a"]), coq_hexpairs(c["b"]), coq_list(["(%s, %s)" % (coq_bytes(unhex(h)), coq_u64(v)) for h, v in c.get("ch") or []]),
               coq_u64(c["city_a"]), coq_u64(c["city_b"]), coq_u64(c["djb_a"]), coq_u64(c["djb_b"])) for c in ok) +
           "].\nDefinition R := Eval vm_compute in jreport cases.\nPrint R.\n")
    rc, out = ck.coq_eval("C04_djb", txt)
    res = parse_report(out, ["M_j", "V_city", "K_djb", "V_range"]) if rc == 0 else None
    if res is None:
        ck.obligation("fingerprint-type cases evaluated inside Coq", False, out[-1500:])
        return
    byid = {c["id"]: c for c in ok}
    dh = lambda pairs: [[unhex(a).decode("latin1"), unhex(b).decode("latin1")] for a, b in pairs]
    show = lambda c: {"label set A": dh(c["a"]), "label set B": dh(c["b"]), "CityHash fingerprints": [c["city_a"], c["city_b"]], "Bernstein fingerprints": [c["djb_a"], c["djb_b"]]}
    ck.obligation("correspondence: model fingerprint (CityHash) and fin_djb (Bernstein) = fingerprintLabels under both fingerprint types on %d pairs of label sets" % len(ok),
                  not res["M_j"], "case ids: %s" % res["M_j"])
    ck.obligation("spec: a Bernstein fingerprint is below 2^32 (fin_djb_range)", not res["V_range"], "case ids: %s" % res["V_range"])
    ck.obligation("spec: different label sets get different fingerprints under FingerPrintType = CityHash (the default) on these pairs", not res["V_city"], "case ids: %s" % res["V_city"])
    # the city.CH64 values quoted in bernstein_fingerprints_collide are those of the code
    src = open(os.path.join(HERE, "coq", "proofs", "ProtoGuardProofs.v")).read()
    blk = re.search(r"Definition djb_tbl.*?\]\.", src, re.S)
    quoted = dict(re.findall(r'\("(\w+)"%string, (\d+)\)', blk.group(0))) if blk else {}
    real = {unhex(h).decode("latin1"): str(v) for c in ok for h, v in c.get("ch") or []}
    wrong = {k: (v, real.get(k)) for k, v in quoted.items() if real.get(k) != v}
    ck.obligation("the %d city.CH64 values used by bernstein_fingerprints_collide are the values the code computes" % len(quoted), len(quoted) >= 3 and not wrong, "quoted vs computed: %s" % wrong)
    if res["V_city"]:
        c = byid[res["V_city"][0]]
        ck.violation({"property": "C04", "part": "djb", "kind": "two different label sets share a fingerprint under FingerPrintType = CityHash", "case": c, "readable": show(c),
                      "replay": "seriesid --mode djb --cases <file with this case>"})
    if res["K_djb"]:
        c = byid[res["K_djb"][0]]
        witness = [c2 for c2 in (byid[i] for i in res["K_djb"]) if c2.get("class") == "bernstein-collision"]
        other = [i for i in res["K_djb"] if byid[i].get("class") != "bernstein-collision"]
        if "bernstein-fingerprint-32-bit" in ck.known_findings() and witness and not other:
            ck.report_known("bernstein-fingerprint-32-bit", "under FingerPrintType = Bernstein (hash_type: default) %s" % json.dumps(show(witness[0])))
        else:
            c = byid[other[0]] if other else c
            ck.violation({"property": "C04", "part": "djb", "kind": "two different label sets share a fingerprint under FingerPrintType = Bernstein", "case": c, "readable": show(c),
                          "replay": "seriesid --mode djb --cases <file with this case>"})
    if res["M_j"] and not ck.violations:
        ck.violation({"property": "C04", "part": "djb", "kind": "model/implementation disagree on a fingerprint type", "case": byid[res["M_j"][0]]}, no_input=True)
    ck.coverage["evaluations"] += len(cases)
    ck.coverage["distinct_nontrivial"] += len(cases)
    ck.coverage["rule"] += "djb: the corpus pairs of label sets (the recorded Bernstein collision found by a birthday search, control pairs) under both fingerprint types; all non-trivial. "


# ------------------------------------------------------------------------------------------ the flush rule at the parser
def run_chunks(ck):
    n = ck.n(120, 1500)
    outp = os.path.join(ck.work, "chunks.jsonl")
    rc, out = ck.go_run("seriesid", ["--mode", "chunks", "--seed", ck.seed, "--n", n, "--out", outp])
    if rc != 0:
        ck.obligation("harness seriesid --mode chunks ran", False, out[-1500:])
        return
    cases = [json.loads(l) for l in open(outp)]
    bad = [c for c in cases if c.get("panic") or c.get("err")]
    ck.obligation("every generated body was parsed", not bad, json.dumps([{k: c.get(k) for k in ("id", "err", "panic")} for c in bad[:2]]))
    ok = [c for c in cases if c not in bad]

    def to_coq(c):
        fpid = {}

        def fid(fp):
            return fpid.setdefault(str(fp), len(fpid) + 1)
        zs = []
        for s_ in c["streams"]:
            es = coq_list(["{| e_ts := %s; e_type := %s |}" % (coq_u64(e["ts"]), TNAME[e["t"]]) for e in s_["entries"]])
            zs.append("{| z_stream := {| s_fp := %d; s_entries := %s |}; z_lens := %s; z_doc := %d |}" % (
                fid(s_["fp"]), es, coq_list([str(e["len"]) for e in s_["entries"]]), s_["doclen"]))
        chunks = []
        for ch in c["chunks"] or []:
            chunks.append("(%s, %s)" % (coq_list(["(%s, %d, %s)" % (r[0], fid(r[1]), r[2]) for r in ch["rows"]]),
                                        coq_list(["(%d, day_of %s, %s)" % (fid(r[0]), coq_u64(r[1]), r[2]) for r in ch["samples"]])))
        return "{| zc_id := %d; zc_streams := %s; zc_chunks := %s |}" % (c["id"], coq_list(zs), coq_list(chunks))
    txt = ("From Coq Require Import List ZArith Bool Uint63.\n"
           "From Qryn Require Import model.Labels model.SeriesIndex model.FlushRule.\n"
           "Import ListNotations.\nOpen Scope Z_scope.\n"
           "Definition cases : list zcase := [\n  " + ";\n  ".join(to_coq(c) for c in ok) + "].\n"
           "Definition R := Eval vm_compute in zreport cases.\nPrint R.\n")
    rc, out = ck.coq_eval("C04_chunks", txt)
    res = parse_report(out, ["M_chunks", "V_chunks"]) if rc == 0 else None
    if res is None:
        ck.obligation("chunk cases evaluated inside Coq", False, out[-1500:])
        return
    byid = {c["id"]: c for c in ok}
    size = lambda c: (len(c["streams"]), sum(len(s_["entries"]) for s_ in c["streams"]))
    show = lambda c: {"streams": [{"labels": "pool set %d" % s_["ls"], "fingerprint": s_["fp"], "length of the labels text": s_["doclen"],
                                   "entries": [{"ts": e["ts"], "type": e["t"], "line bytes": e["len"]} for e in s_["entries"]]} for s_ in c["streams"]],
                      "chunks sent by the parser": [{"series rows": ch["rows"], "samples": len(ch["samples"])} for ch in c["chunks"] or []]}
    nmulti = sum(1 for c in ok if len(c["chunks"] or []) > 1)
    nlate = 0
    for c in ok:
        seen = set()
        for ch in c["chunks"] or []:
            rows = set((r[1], r[0], r[2]) for r in ch["rows"])
            if any((s_[0], str(int(s_[1]) // 10**9 // 86400), s_[2]) not in rows and (s_[0], str(int(s_[1]) // 10**9 // 86400), s_[2]) in seen for s_ in ch["samples"]):
                nlate += 1
                break
            seen |= rows
    ck.obligation("correspondence: model FlushRule.chunks_of (onEntries' size accounting, limit 1 MiB, final flush) = the chunks the real parser sends, rows and samples per chunk, on %d bodies (%d sent in several chunks)" % (len(ok), nmulti),
                  not res["M_chunks"] and nmulti >= 10, "case ids: %s" % res["M_chunks"][:10])
    ck.obligation("spec: in every chunk sequence each sample has the series row of its day and type in its own or an earlier chunk and no row is sent twice (%d bodies where a sample's row went out in an EARLIER chunk)" % nlate,
                  not res["V_chunks"] and nlate >= 3, "case ids: %s" % res["V_chunks"][:10])
    if res["V_chunks"]:
        c = min((byid[i] for i in res["V_chunks"]), key=size)
        ck.violation({"property": "C04", "part": "chunks", "kind": "a chunk carries a sample whose series row is neither in it nor in an earlier chunk of the request (or a row is sent twice)",
                      "case": c, "readable": show(c), "explanation": "chunks_ok (model/FlushRule.v) on the observed chunks", "replay": "seriesid --mode chunks --cases <file with this case>"})
    elif res["M_chunks"]:
        c = min((byid[i] for i in res["M_chunks"]), key=size)
        ck.violation({"property": "C04", "part": "chunks", "kind": "model/implementation disagree on where the parser flushes or what a chunk carries; spec oracle still accepts",
                      "case": c, "readable": show(c)}, no_input=True)
    hist = {}
    for c in cases:
        hist[c["class"]] = hist.get(c["class"], 0) + 1
    ck.coverage["evaluations"] += len(cases)
    ck.coverage["distinct_nontrivial"] += len(set(json.dumps(c["streams"]) for c in cases if len(c["chunks"] or []) > 1))
    ck.coverage["rule"] += ("chunks: Loki JSON bodies of 1..7 streams whose log lines have chosen lengths (1 B .. 1.1 MB): one line exactly at / one byte around the 1 MiB limit (the labels text length enters the sum), "
                            "the limit crossed by the sum of several streams, small bodies, mixtures; parsed by the exported parser, every ParserResponse recorded; non-trivial = sent in at least 2 chunks, distinct by content. ")
    ck.extra["chunks_input_classes"] = hist
    ck.extra["chunks_bodies_sent_in_several_chunks"] = nmulti


# ------------------------------------------------------------------------------------------ histories
H_LISTS = ["M_hist", "V_hist"]
TNAME = {0: "TBoth", 1: "TLog", 2: "TMetric"}


def hcase_to_coq(c):
    acts, obs = hist_terms(c)
    return "{| hc_id := %d; hc_actions := %s; hc_obs := %s |}" % (c["id"], coq_list(acts), coq_list(obs))


def hist_terms(c):
    """the actions and observations of a history as Coq terms of model/SeriesIndex.v"""
    fpid = {}

    def fid(fp):
        return fpid.setdefault(str(fp), len(fpid) + 1)

    acts, obs = [], []
    tf = lambda b: "true" if b else "false"
    for st, ob in zip(c["steps"], c["obs"]):
        k = st["k"]
        if k == "reset":
            acts.append("CacheReset")
            obs.append("HReset")
            continue
        ss = []
        for s_ in st.get("streams") or []:
            es = coq_list(["{| e_ts := %s; e_type := %s |}" % (coq_u64(e["ts"]), TNAME[e["t"]]) for e in s_["entries"]])
            ss.append("{| s_fp := %d; s_entries := %s |}" % (fid(s_["fp"]), es))
        if k == "push":
            acts.append("Push %s %s %s" % (coq_list(ss), tf(st["ts_ok"]), tf(st["spl_ok"])))
        elif k == "bad":
            acts.append("PushBad %s" % coq_list(ss))
        elif k == "begin":
            acts.append("Begin %s" % coq_list(ss))
        elif k == "beginf":
            # the streams are parsed, the last one crosses 1 MiB: the chunk is sent while the body stays open
            acts.append("Begin %s" % coq_list(ss))
            acts.append("Flush %d%%nat %s %s" % (st.get("idx", 0), tf(st["ts_ok"]), tf(st["spl_ok"])))
        elif k == "more":
            acts.append("More %d%%nat %s" % (st.get("idx", 0), coq_list(ss)))
        elif k == "moref":
            acts.append("More %d%%nat %s" % (st.get("idx", 0), coq_list(ss)))
            acts.append("Flush %d%%nat %s %s" % (st.get("idx", 0), tf(st["ts_ok"]), tf(st["spl_ok"])))
        elif k == "end":
            acts.append("End %d%%nat %s %s" % (st.get("idx", 0), tf(st["ts_ok"]), tf(st["spl_ok"])))
        elif k == "abort":
            acts.append("Abort %d%%nat" % st.get("idx", 0))
        else:
            raise ValueError("unknown step kind %r" % k)
        rows, spl = [], []
        for cl in ob["calls"] or []:
            if cl["table"] == "time_series":
                rows += ["(%s, %d, %s)" % (r[0], fid(r[1]), r[2]) for r in cl["rows"] or []]
            elif cl["table"] == "samples":
                spl += ["(%d, day_of %s, %s)" % (fid(r[0]), coq_u64(r[1]), r[2]) for r in cl["rows"] or []]
        if k in ("beginf", "moref"):
            # two model actions: the parse (shows nothing) and the flush (whatever reached the client during the step)
            obs.append("HBegin")
            obs.append("HFlush %s %s" % (coq_list(rows), coq_list(spl)))
        elif k == "more":
            obs.append("HFlush %s %s" % (coq_list(rows), coq_list(spl)) if ob["calls"] else "HBegin")
        elif k == "begin" and not ob["calls"]:
            obs.append("HBegin")
        elif k in ("bad", "abort") and ob["status"] == 400 and not ob["calls"]:
            obs.append("HBad")
        else:
            obs.append("HPush %s %s %s" % (tf(200 <= ob["status"] < 300), coq_list(rows), coq_list(spl)))
    return acts, obs


def all_streams(st):
    """the streams of a step, those of the members of a group step included"""
    return (st.get("streams") or []) + [s_ for m in st.get("members") or [] for s_ in m["streams"]]


def has_group(c):
    return any(st["k"] == "group" for st in c["steps"])


def scase_to_coq(c):
    """a history of pushes, resets and group steps (pushes whose series rows share one INSERT) for model/SharedInsert.v"""
    fpid = {}

    def fid(fp):
        return fpid.setdefault(str(fp), len(fpid) + 1)

    tf = lambda b: "true" if b else "false"

    def streams(ss):
        return coq_list(["{| s_fp := %d; s_entries := %s |}" % (fid(s_["fp"]), coq_list(
            ["{| e_ts := %s; e_type := %s |}" % (coq_u64(e["ts"]), TNAME[e["t"]]) for e in s_["entries"]])) for s_ in ss])

    def insert(cl):
        return "(%s, %s)" % (coq_list(["(%s, %d, %s)" % (r[0], fid(r[1]), r[2]) for r in cl["rows"] or []]), tf(cl["ok"]))

    def spl(calls):
        return coq_list(["(%d, day_of %s, %s)" % (fid(r[0]), coq_u64(r[1]), r[2]) for cl in calls for r in cl["rows"] or []])

    ok2 = lambda code: 200 <= code < 300
    acts, acks, inserts, samples = [], [], [], []
    for st, ob in zip(c["steps"], c["obs"]):
        k = st["k"]
        calls = ob.get("calls") or []
        ts_calls = [cl for cl in calls if cl["table"] == "time_series"]
        if k == "reset":
            acts.append("SReset")
        elif k == "push":
            acts += ["SArrive %s %s" % (streams(st["streams"]), tf(st["spl_ok"])), "SSwap", "SAnswer %s" % tf(st["ts_ok"])]
            acks.append(tf(ok2(ob["status"])))
            inserts += [insert(cl) for cl in ts_calls]
            samples.append(spl([cl for cl in calls if cl["table"] == "samples"]))
        elif k == "group":
            ms = st["members"]
            arrive = ["SArrive %s %s" % (streams(m["streams"]), tf(m["spl_ok"])) for m in ms]
            a0, a = tf(st.get("ts_ok0", False)), tf(st["ts_ok"])
            if ob.get("shared"):
                # the INSERT of the first member waited inside the client until the Request of every other member had returned
                acts += [arrive[0], "SSwap"] + arrive[1:] + ["SAnswer " + a0, "SSwap", "SAnswer " + a]
            else:
                # no INSERT was kept waiting (the first member announced nothing): one after the other
                for i, x in enumerate(arrive):
                    acts += [x, "SSwap", "SAnswer " + (a0 if i == 0 else a)]
            acks += [tf(ok2(code)) for code in ob.get("statuses") or []]
            inserts += [insert(cl) for cl in ts_calls]
            for i in range(len(ms)):
                samples.append(spl([cl for cl in calls if cl["table"] == "samples" and cl.get("m", 0) == i]))
        else:
            raise ValueError("step kind %r in a history with a group step" % k)
    return "{| sc_id := %d; sc_actions := %s; sc_acks := %s; sc_inserts := %s; sc_samples := %s |}" % (
        c["id"], coq_list(acts), coq_list(acks), coq_list(inserts), coq_list(samples))


def eval_scases(ck, name, cases):
    txt = ("From Coq Require Import List ZArith Bool Uint63.\n"
           "From Qryn Require Import model.Labels model.SeriesIndex model.SharedInsert.\n"
           "Import ListNotations.\nOpen Scope Z_scope.\n"
           "Definition cases : list scase := [\n  " + ";\n  ".join(scase_to_coq(c) for c in cases) + "].\n"
           "Definition R := Eval vm_compute in sreport cases.\nPrint R.\n")
    rc, out = ck.coq_eval(name, txt)
    if rc != 0:
        return None, out
    return parse_report(out, H_LISTS), out


NODES = ("n1", "n2")
NODE_EVAL = {"cases": 0, "M_hist": 0, "V_hist": 0}


FREE = "-"


def resolve_free(c):
    """round 8: a push without X-CH-DSN (node "-"): the registry chose the node. The request's node is the one whose connection
    carried its samples (that is where the reader will look for them); everything else of the request - the series row, the
    cache view - must be that node's: the resolved history is judged like any other history over two nodes."""
    if not any(st.get("node") == FREE for st in c["steps"]):
        return c
    steps = []
    for st, ob in zip(c["steps"], c["obs"]):
        if st.get("node") == FREE:
            calls = ob.get("calls") or []
            spl = [cl for cl in calls if cl["table"] == "samples"] or calls
            st = dict(st, node=(spl[0].get("node") or NODES[0]) if spl else NODES[0], free=True)
        steps.append(st)
    return dict(c, steps=steps)


def has_nodes(c):
    """round 7: a history whose pushes name different ClickHouse nodes (two servers, one database name)"""
    return any(st.get("node") for st in c["steps"])


def node_projections(c, base):
    """The property is a statement PER NODE (a sample stored on node X is found through the time_series rows of X), and the
    cache key includes the node, so the nodes are independent: node X must behave like the single-node model on the pushes
    sent to X (and every cache reset). An INSERT counts for X only if it travelled on X's connection. Returns the projections
    (ids base, base + 1) and whether some INSERT of a push travelled on the connection of another node."""
    out, foreign = [], False
    for k, nd in enumerate(NODES):
        steps, obs = [], []
        for st, ob in zip(c["steps"], c["obs"]):
            if st["k"] == "reset":
                steps.append(st)
                obs.append(ob)
            elif (st.get("node") or NODES[0]) == nd:
                mine = [cl for cl in ob.get("calls") or [] if (cl.get("node") or NODES[0]) == nd]
                foreign = foreign or len(mine) != len(ob.get("calls") or [])
                steps.append({x: y for x, y in st.items() if x not in ("node", "free")})
                obs.append(dict(ob, calls=mine))
        out.append({"id": base + k, "class": c["class"], "steps": steps, "obs": obs})
    return out, foreign


def ncase_to_coq(c):
    """round 8: a history over several nodes as ONE case of the product model (model/SeriesNodes.v: one shared cache whose
    entries carry the node's prefix, a table per node). Per step the observation is what travelled on the connection of
    the node the request named (an INSERT on another connection is reported by node_projections)."""
    steps, obs = [], []
    for st, ob in zip(c["steps"], c["obs"]):
        nd = st.get("node") or NODES[0]
        steps.append({x: y for x, y in st.items() if x not in ("node", "free")})
        obs.append(ob if st["k"] == "reset" else dict(ob, calls=[cl for cl in ob.get("calls") or [] if (cl.get("node") or NODES[0]) == nd]))
    acts, hobs = hist_terms({"id": c["id"], "steps": steps, "obs": obs})
    macts = []
    for st, a in zip(c["steps"], acts):
        if st["k"] == "reset":
            macts.append("MReset")
        else:
            macts.append('MAct {| n_node := "%s"%%string; n_db := "qryn"%%string |} (%s)' % (st.get("node") or NODES[0], a))
    return "{| nc_id := %d; nc_actions := %s; nc_obs := %s |}" % (c["id"], coq_list(macts), coq_list(hobs))


def eval_ncases(ck, name, cases):
    txt = ("From Coq Require Import List ZArith Bool String Uint63.\n"
           "From Qryn Require Import model.Labels model.SeriesIndex model.CacheKey model.SeriesNodes.\n"
           "Import ListNotations.\nOpen Scope Z_scope.\n"
           "Definition cases : list ncase := [\n  " + ";\n  ".join(ncase_to_coq(c) for c in cases) + "].\n"
           "Definition R := Eval vm_compute in mreport cases.\nPrint R.\n")
    rc, out = ck.coq_eval(name, txt)
    if rc != 0:
        return None, out
    return parse_report(out, H_LISTS), out


def diag_nodes(ck, c):
    """a violating history over two nodes: does the product model with the prefix = DATABASE name explain what was observed?"""
    txt = ("From Coq Require Import List ZArith Bool String Uint63.\n"
           "From Qryn Require Import model.Labels model.SeriesIndex model.CacheKey model.SeriesNodes.\n"
           "Import ListNotations.\nOpen Scope Z_scope.\n"
           "Definition cases : list ncase := [" + ncase_to_coq(c) + "].\n"
           "Definition R := Eval vm_compute in mdiag cases.\nPrint R.\n")
    rc, out = ck.coq_eval("C04_nodes_diag", txt)
    r = parse_report(out, ["code", "db"]) if rc == 0 else None
    if not r:
        return None
    if r["code"] and not r["db"]:
        return ("the observations differ from the product model with the code's cache prefix (node name) and ARE those of the product model whose prefix is the "
                "database name (SeriesNodes.mrun_obs n_db): the nodes share their cache entries (props/C04.v acked_sample_is_indexed_on_its_node_refuted_for_database_prefix)")
    if r["code"]:
        return "the observations differ from the product model under the node-name prefix and under the database-name prefix"
    return "the observations are those of the product model with the code's prefix (node name)"


def eval_cases(ck, name, cases):
    """histories with a group step are judged by model/SharedInsert.v, the others by model/SeriesIndex.v; a history over two
    nodes is judged node by node (node_projections)"""
    res, outs = {k: [] for k in H_LISTS}, ""
    cases = [resolve_free(c) for c in cases]
    multi = [c for c in cases if has_nodes(c)]
    if multi:
        cases = [c for c in cases if not has_nodes(c)]
        proj, back = [], {}
        for c in multi:
            if any(st["k"] not in ("push", "reset") for st in c["steps"]):
                raise ValueError("a history over two nodes has pushes and resets only")
            ps, foreign = node_projections(c, 2 * len(back))
            for p_ in ps:
                back[p_["id"]] = c["id"]
            proj += ps
            if foreign:
                res["M_hist"].append(c["id"])
        r, out = eval_hcases(ck, name + "_n", proj)
        outs += out
        if r is None:
            return None, out
        for k in H_LISTS:
            res[k] += sorted({back[i] for i in r[k]} - set(res[k]))
        # round 8: the same histories as ONE run of the product model (shared cache, prefix = node name) and its oracle
        r, out = eval_ncases(ck, name + "_m", multi)
        outs += out
        if r is None:
            return None, out
        NODE_EVAL["cases"] += len(multi)
        for k in H_LISTS:
            NODE_EVAL[k] += len(r[k])
            res[k] += sorted(set(r[k]) - set(res[k]))
    for tag, part, fn in (("", [c for c in cases if not has_group(c)], eval_hcases), ("_s", [c for c in cases if has_group(c)], eval_scases)):
        if not part:
            continue
        r, out = fn(ck, name + tag, part)
        outs += out
        if r is None:
            return None, out
        for k in H_LISTS:
            res[k] += r[k]
    return res, outs


def eval_hcases(ck, name, cases):
    txt = ("From Coq Require Import List ZArith Bool Uint63.\n"
           "From Qryn Require Import model.Labels model.SeriesIndex.\n"
           "Import ListNotations.\nOpen Scope Z_scope.\n"
           "Definition cases : list hcase := [\n  " + ";\n  ".join(hcase_to_coq(c) for c in cases) + "].\n"
           "Definition R := Eval vm_compute in hreport cases.\nPrint R.\n")
    rc, out = ck.coq_eval(name, txt)
    if rc != 0:
        return None, out
    return parse_report(out, H_LISTS), out


# ---- shrinking of a violating history: smaller histories are re-run through the REAL code and re-judged inside Coq
BEGINS = ("begin", "beginf")
REFS = ("more", "moref", "end", "abort")


def _refs(steps):
    """for every step the index of the begin step whose request it belongs to (None: refers to nothing)"""
    open_, out = [], []
    for i, st in enumerate(steps):
        k = st["k"]
        if k in BEGINS:
            open_.append(i)
            out.append(i)
        elif k in REFS:
            idx = st.get("idx", 0)
            ref = open_[idx] if 0 <= idx < len(open_) else None
            out.append(ref)
            if ref is not None and k in ("end", "abort"):
                open_.remove(ref)
        else:
            out.append(None)
    return out


def _rebuild(steps, refs, keep):
    """the sub-history of the kept step positions, open-request indices recomputed"""
    open_, out = [], []
    for i in keep:
        st = json.loads(json.dumps(steps[i]))
        k = st["k"]
        if k in BEGINS:
            st["idx"] = len(open_)
            open_.append(refs[i])
        elif k in REFS:
            if refs[i] not in open_:
                continue
            st["idx"] = open_.index(refs[i])
            if k in ("end", "abort"):
                open_.remove(refs[i])
        out.append(st)
    return out


def _candidates(steps):
    refs = _refs(steps)
    n = len(steps)
    for i in range(n):                                   # drop one step (a begin takes the steps of its request with it)
        if steps[i]["k"] in BEGINS:
            keep = [j for j in range(n) if j != i and not (steps[j]["k"] in REFS and refs[j] == i)]
        else:
            keep = [j for j in range(n) if j != i]
        yield _rebuild(steps, refs, keep)
    for i in range(n):                                   # drop one member of a group (not the first: its INSERT is the one kept waiting)
        ms = steps[i].get("members") or []
        for j in range(1, len(ms)):
            if len(ms) > 2:
                c = json.loads(json.dumps(steps))
                del c[i]["members"][j]
                yield _rebuild(c, refs, list(range(n)))
        for j, m in enumerate(ms):                       # ... one stream / one entry of a member
            for x in range(len(m["streams"])):
                if len(m["streams"]) > 1:
                    c = json.loads(json.dumps(steps))
                    del c[i]["members"][j]["streams"][x]
                    yield _rebuild(c, refs, list(range(n)))
                es = m["streams"][x]["entries"]
                for e in range(len(es)):
                    if len(es) > 1:
                        c = json.loads(json.dumps(steps))
                        del c[i]["members"][j]["streams"][x]["entries"][e]
                        yield _rebuild(c, refs, list(range(n)))
    for i in range(n):                                   # drop one stream / one entry
        ss = steps[i].get("streams") or []
        flushing = steps[i]["k"] in ("beginf", "moref")
        for j in range(len(ss)):
            if len(ss) > 1 and not (flushing and j == len(ss) - 1):
                c = json.loads(json.dumps(steps))
                del c[i]["streams"][j]
                yield _rebuild(c, refs, list(range(n)))
            es = ss[j]["entries"]
            for e in range(len(es)):
                if len(es) > 1 and not es[e].get("big"):
                    c = json.loads(json.dumps(steps))
                    del c[i]["streams"][j]["entries"][e]
                    yield _rebuild(c, refs, list(range(n)))


def shrink_hist(ck, case, rounds=12):
    """greedy: the first smaller history that still violates replaces the current one; every candidate is executed by the harness"""
    cur = case
    try:
        for rnd in range(rounds):
            cands = [{"id": i, "class": "shrink", "steps": st} for i, st in enumerate(_candidates(cur["steps"])) if st]
            if not cands:
                break
            inp = os.path.join(ck.work, "shrink_in.jsonl")
            outp = os.path.join(ck.work, "shrink_out.jsonl")
            with open(inp, "w") as f:
                for c in cands:
                    f.write(json.dumps(c) + "\n")
            rc, _ = ck.go_run("seriesid", ["--mode", "hist", "--cases", inp, "--out", outp])
            if rc != 0:
                break
            ran = [json.loads(l) for l in open(outp)]
            ran = [c for c in ran if not c.get("panic")]
            r, _ = eval_cases(ck, "C04_shrink_%d" % rnd, ran)
            if not r or not r["V_hist"]:
                break
            cur = min((c for c in ran if c["id"] in set(r["V_hist"])), key=lambda c: len(json.dumps(c["steps"])))
        if cur is not case:
            # the shrunk history must violate on its own (a change that leaves inserts running behind the answer lets them
            # arrive during the next history of a batch: such a candidate is not a replay); otherwise keep the generated one
            inp = os.path.join(ck.work, "shrink_in.jsonl")
            outp = os.path.join(ck.work, "shrink_out.jsonl")
            with open(inp, "w") as f:
                f.write(json.dumps({"id": 0, "class": "shrink", "steps": cur["steps"]}) + "\n")
            rc, _ = ck.go_run("seriesid", ["--mode", "hist", "--cases", inp, "--out", outp])
            ran = [json.loads(l) for l in open(outp)] if rc == 0 else []
            r, _ = eval_cases(ck, "C04_shrink_final", [c for c in ran if not c.get("panic")]) if ran else (None, "")
            if not r or not r["V_hist"]:
                ck.log("the shrunk history does not violate when run alone: the generated history is reported")
                return case
            cur = ran[0]
    except Exception as e:  # noqa: BLE001 - shrinking is best effort, the unshrunk case is a valid replay
        ck.log("shrinking stopped: %r" % e)
        return case
    return cur


def hdoc_to_coq(c):
    fpid = {}

    def fid(fp):
        return fpid.setdefault(str(fp), len(fpid) + 1)

    labels = {}
    rows = []
    for st, ob in zip(c["steps"], c["obs"]):
        for s_ in all_streams(st):
            labels.setdefault(fid(s_["fp"]), s_.get("san") or [])
        for cl in ob.get("calls") or []:
            if cl["table"] == "time_series":
                for r, d in zip(cl["rows"] or [], cl.get("docs") or []):
                    rows.append("(%d, %s)" % (fid(r[1]), coq_bytes(unhex(d))))
    return "{| hd_id := %d; hd_labels := %s; hd_rows := %s |}" % (
        c["id"], coq_list(["(%d, %s)" % (k, coq_pair_list(v)) for k, v in sorted(labels.items())]), coq_list(rows))


def show_hist(c):
    out = []
    for st, ob in zip(c["steps"], c["obs"]):
        k = st["k"]
        if k == "reset":
            out.append("cache reset")
            continue
        if k == "group":
            sh = lambda ss: [{"labels": s_.get("labels") or ("pool set %d" % s_["ls"]), "fingerprint": s_["fp"], "entries": s_["entries"]} for s_ in ss]
            out.append({"pushes that arrive one after the other while ClickHouse is slow to answer the time_series INSERT of the first one (the series rows of the others wait in one pending buffer of the insert service and go out in ONE INSERT)":
                        [{"push": sh(m["streams"]), "samples insert": "ok" if m["spl_ok"] else "FAILS", "status": code} for m, code in zip(st["members"], ob.get("statuses") or [None] * len(st["members"]))],
                        "scripted": {"time_series INSERT of the first push": "ok" if st.get("ts_ok0") else "FAILS", "the shared time_series INSERT": "ok" if st["ts_ok"] else "FAILS"},
                        "an INSERT was kept waiting": bool(ob.get("shared")),
                        "inserts": [{"table": cl["table"], "ok": cl["ok"], "rows": cl["rows"], **({"kept waiting": True} if cl.get("tag") == "held" else {})} for cl in ob["calls"] or []]})
            continue
        d = {}
        streams = [{"labels": s_.get("labels") or ("pool set %d" % s_["ls"]), "fingerprint": s_["fp"], "entries": s_["entries"]} for s_ in st.get("streams") or []]
        scripted = {"series insert": "ok" if st["ts_ok"] else "FAILS", "samples insert": "ok" if st["spl_ok"] else "FAILS"}
        if k == "push":
            d = {"push": streams, "scripted": scripted, "client retry of the previous body": bool(st.get("retry"))}
        elif k == "bad":
            d = {"push whose body is malformed after these streams": streams}
        elif k == "begin":
            d = {"push begins, body stays open after these streams": streams}
        elif k == "beginf":
            d = {"push begins as open push number %d; the last of these streams has a log line of 1.1 MB (entry with big = true), so the parser sends this chunk now (> 1 MiB) while the body stays open" % st.get("idx", 0): streams,
                 "scripted for the inserts of this chunk": scripted}
        elif k == "more":
            d = {"open push number %d (oldest = 0) goes on with these streams (nothing is sent yet)" % st.get("idx", 0): streams}
        elif k == "moref":
            d = {"open push number %d (oldest = 0) goes on with these streams; the last one has a log line of 1.1 MB, so the parser sends the chunk collected since the previous one now" % st.get("idx", 0): streams,
                 "scripted for the inserts of this chunk": scripted}
        elif k == "end":
            d = {"open push number %d (oldest = 0) completes (its last chunk is sent, then the status is decided over the inserts of all its chunks)" % st.get("idx", 0): scripted}
        elif k == "abort":
            d = {"open push number %d (oldest = 0) continues with a malformed body" % st.get("idx", 0): True}
        d["status"] = ob["status"]
        d["inserts"] = [{"table": cl["table"], "ok": cl["ok"], "rows": cl["rows"]} for cl in ob["calls"] or []]
        if has_nodes(c):
            d["node named by the request (X-CH-DSN); both nodes are single servers whose database is called qryn"] = ("none (no X-CH-DSN header: the registry chooses the node)" if st.get("node") == FREE else st.get("node") or NODES[0])
            d["inserts"] = [dict(x, **{"on the connection of node": cl.get("node") or NODES[0]}) for x, cl in zip(d["inserts"], ob["calls"] or [])]
        out.append(d)
    return out


def run_hist(ck):
    n = ck.n(250, 5000)
    cases = []
    corpus = os.path.join(CORPUS, "hist.jsonl")
    if os.path.exists(corpus):
        outp = os.path.join(ck.work, "hist_corpus.jsonl")
        rc, out = ck.go_run("seriesid", ["--mode", "hist", "--cases", corpus, "--out", outp])
        if rc != 0:
            ck.obligation("harness seriesid --mode hist ran on the corpus", False, out[-1500:])
            return
        cs = [json.loads(l) for l in open(outp)]
        for i, c in enumerate(cs):
            c["id"] = 1000000 + i
            c["class"] = "corpus:" + c.get("class", "")
        cases += cs
    outp = os.path.join(ck.work, "hist.jsonl")
    rc, out = ck.go_run("seriesid", ["--mode", "hist", "--seed", ck.seed, "--n", n, "--out", outp])
    if rc != 0:
        ck.obligation("harness seriesid --mode hist ran", False, out[-1500:])
        return
    cases += [json.loads(l) for l in open(outp)]
    byid = {c["id"]: c for c in cases}
    size = lambda c: (len(c["steps"]), sum(len(s_["entries"]) for st in c["steps"] for s_ in all_streams(st)))
    panics = [c for c in cases if c.get("panic")]
    for c in sorted(panics, key=size)[:1]:
        ck.violation({"property": "C04", "part": "hist", "kind": "panic while replaying a history", "case": c,
                      "replay": "seriesid --mode hist --cases <file with this case>"})
    ok = [c for c in cases if not c.get("panic")]
    res = {k: [] for k in H_LISTS}
    shard = 500
    for k in range(0, len(ok), shard):
        r, out = eval_cases(ck, "C04_hist_%d" % (k // shard), ok[k:k + shard])
        if r is None:
            ck.obligation("history cases evaluated inside Coq", False, out[-1500:])
            return
        for key in H_LISTS:
            res[key] += r[key]
    # the labels text of every series row sent in these histories decodes to the label set of the stream with its fingerprint
    txt = ("From Coq Require Import List ZArith Bool String Uint63.\n"
           "From Qryn Require Import model.Labels model.SeriesDoc.\n"
           "Import ListNotations.\nOpen Scope Z_scope.\n"
           "Definition cases : list hdoc := [\n  " + ";\n  ".join(hdoc_to_coq(c) for c in ok) + "].\n"
           "Definition R := Eval vm_compute in hdreport cases.\nPrint R.\n")
    rc, out = ck.coq_eval("C04_histdoc", txt)
    rd = parse_report(out, ["V_rowdoc"]) if rc == 0 else None
    if rd is None:
        ck.obligation("series-row documents of the histories evaluated inside Coq", False, out[-1500:])
        return
    nrows = sum(len(cl.get("docs") or []) for c in ok for ob in c["obs"] for cl in ob.get("calls") or [] if cl["table"] == "time_series")
    ck.obligation("spec: the labels text of each of the %d series rows sent in the histories is JSON that decodes to the label set of the stream with the row's fingerprint" % nrows,
                  not rd["V_rowdoc"] and nrows > 0, "case ids: %s" % rd["V_rowdoc"][:10])
    if rd["V_rowdoc"]:
        c = min((byid[i] for i in rd["V_rowdoc"]), key=size)
        ck.violation({"property": "C04", "part": "hist", "kind": "a series row carries a labels text that does not decode to the labels of the stream with its fingerprint",
                      "case": c, "readable": show_hist(c), "explanation": "hd_bad (model/SeriesDoc.v)",
                      "replay": "seriesid --mode hist --cases <file with this case>"})
    ck.obligation("correspondence: model SeriesIndex.run_obs = implementation (status, series rows sent, samples sent) on %d histories; model SharedInsert.srun append_all = implementation (answer to every request, rows and outcome of every time_series INSERT in order) on %d histories with pushes that share an INSERT" % (len([c for c in ok if not has_group(c)]), len([c for c in ok if has_group(c)])),
                  not res["M_hist"] and not panics, "mismatching case ids: %s" % res["M_hist"][:10])
    ck.obligation("spec: every acknowledged sample has a successfully inserted series row of its day and type, in every history (insert failures per chunk, retries, malformed bodies, overlapping pushes, requests above 1 MiB sent in several chunks, resets)",
                  not res["V_hist"], "case ids: %s" % res["V_hist"][:10])
    if res["V_hist"]:
        # prefer a history that violates when it is run ALONE (a change that leaves inserts running behind the answer makes them
        # arrive during the next history of the batch, which then looks violated without being the cause)
        c0 = min((byid[i] for i in res["V_hist"]), key=size)
        for cand in sorted((byid[i] for i in res["V_hist"]), key=size)[:6]:
            inp, outp1 = os.path.join(ck.work, "alone_in.jsonl"), os.path.join(ck.work, "alone_out.jsonl")
            with open(inp, "w") as f:
                f.write(json.dumps({"id": cand["id"], "class": cand["class"], "steps": cand["steps"]}) + "\n")
            rc1, _ = ck.go_run("seriesid", ["--mode", "hist", "--cases", inp, "--out", outp1])
            ran = [json.loads(l) for l in open(outp1)] if rc1 == 0 else []
            r1, _ = eval_cases(ck, "C04_alone_%d" % cand["id"], [x for x in ran if not x.get("panic")]) if ran else (None, "")
            if r1 and r1["V_hist"]:
                c0 = ran[0]
                break
        c = shrink_hist(ck, c0)
        diag = diag_nodes(ck, c) if has_nodes(c) and all(st["k"] in ("push", "reset") for st in c["steps"]) else None
        ck.violation({"property": "C04", "part": "hist", "kind": "acknowledged sample without series row of its day and type",
                      "case": c, "readable": show_hist(c), "explanation": "hv (model/SeriesIndex.v) on the observed inserts" + ("; " + diag if diag else ""),
                      "shrunk": "from %d steps (generated history %s) to %d steps, every candidate re-run through the real code" % (len(c0["steps"]), c0["id"], len(c["steps"])),
                      "replay": "seriesid --mode hist --cases <file with this case>"})
    elif res["M_hist"]:
        c = min((byid[i] for i in res["M_hist"]), key=size)
        ck.violation({"property": "C04", "part": "hist", "kind": "model/implementation disagree; spec oracle still accepts",
                      "case": c, "readable": show_hist(c)}, no_input=True)
    distinct = set()
    hist = {}
    kinds = {}
    for c in cases:
        hist[c["class"]] = hist.get(c["class"], 0) + 1
        if sum(len(st["members"]) if st["k"] == "group" else 1 for st in c["steps"] if st["k"] in ("push", "bad", "begin", "beginf", "group")) >= 2:
            distinct.add(json.dumps(c["steps"]))
        for st in c["steps"]:
            kinds[st["k"]] = kinds.get(st["k"], 0) + 1
    ck.coverage["evaluations"] += len(cases)
    ck.coverage["distinct_nontrivial"] += len(distinct)
    ncol = sum(1 for c in cases if c["class"].startswith("collision"))
    ck.obligation("histories with series whose announcement keys agree on 32 bits were generated", ncol >= 9, "%d collision histories" % ncol)
    ck.coverage["rule"] += ("hist: histories of 1..8 steps (push of 1..3 streams over 4 label sets and 2 days incl. instants at midnight, client retry of the previous body, "
                            "push whose body is malformed after its streams, push whose body stays open while other steps run and is completed or continued malformed later in any order, cache reset) "
                            "with scripted outcomes of the series and the samples insert; histories of 3..12 steps around requests above 1 MiB (a stream with a log line of 1.1 MB makes onEntries hand over the chunk collected so far while the body stays open: "
                            "begin + flush, further streams - often the same series again - with or without another flush, end or malformed continuation, each chunk's two inserts with their own scripted outcomes, "
                            "ordinary pushes of the same series in between, up to two such requests open at once, the whole long request sent again, resets), 32 histories enumerated over (2..3 pushes that arrive while the time_series INSERT of a first push is waiting for ClickHouse and announce the same new series / a chain of series neighbours have in common / two series one of which the waiting INSERT carries too / the same series on different days and with different sample types; outcome of the waiting INSERT; outcome of the shared INSERT) with a samples failure here and there, before them sometimes a failed or a successful announcement of the series, after them every client again (pushes, or another group; sometimes a reset first), 30 histories enumerated over (2..4 chunks each announcing series of its own, the failing chunk, its failing insert: series / samples / both, or every series insert failing) followed by the client's second attempt (the long request again, its streams as one push, or chunk by chunk), 20 histories over TWO single-server nodes n1, n2 whose database has the same name (16 enumerated orders of pushes of one or two fresh series to the two nodes - X-CH-DSN -, with a failing series or samples insert or a reset in between, 4 random ones; judged node by node: an INSERT counts for a node only if it travelled on that node's connection), plus 36 two-series histories whose announcement keys agree on the low / middle / high 32 bits, run through the in-process writer built by the production wiring (plugin.CreateStaticServiceRegistry: real GoCache and serializer); non-trivial = at least 2 pushes, distinct by content. ")
    ck.extra["hist_input_classes"] = hist
    ck.extra["hist_step_kinds"] = kinds
    nover = sum(1 for c in cases if c["class"].startswith("overlap"))
    nbad = sum(1 for c in cases if any(st["k"] in ("bad", "abort") for st in c["steps"]))
    ck.obligation("histories with overlapping pushes and with malformed bodies were generated", nover >= 10 and nbad >= 10, "%d overlapping, %d with a malformed body" % (nover, nbad))
    # mid-request flushes: the step made the parser send a chunk (sample rows reached the client) while the body stayed open
    flushed = lambda c: [(st, ob) for st, ob in zip(c["steps"], c["obs"]) if st["k"] in ("beginf", "moref") and any(cl["table"] == "samples" and cl["rows"] for cl in ob.get("calls") or [])]
    nflush = sum(1 for c in cases if flushed(c))
    nflfail = sum(1 for c in cases if any(not (st["ts_ok"] and st["spl_ok"]) for st, _ in flushed(c)))
    nfltsfail = sum(1 for c in cases if any(not st["ts_ok"] and any(cl["table"] == "time_series" and not cl["ok"] for cl in ob["calls"]) for st, ob in flushed(c)))
    nchunks = sum(len(flushed(c)) for c in cases)
    ck.extra["hist_mid_request_flushes"] = {"histories": nflush, "chunks sent while the body was open": nchunks, "histories with a failing insert of such a chunk": nflfail,
                                            "histories where the series insert of such a chunk failed": nfltsfail}
    ck.obligation("histories with requests above 1 MiB were generated and the parser did send their chunks mid-request, some with a failing insert of such a chunk",
                  nflush >= 20 and nflfail >= 5 and nfltsfail >= 3, "%d histories with a mid-request flush (%d chunks), %d with a failing chunk, %d with a failed series insert of a chunk" % (nflush, nchunks, nflfail, nfltsfail))
    # the client's second attempt after a request of several chunks failed: the request was sent in >= 2 chunks, answered 5xx,
    # and something pushed later was acknowledged (the spec oracle above judged the rows of that later push)
    def retried(c):
        st5 = [i for i, (st, ob) in enumerate(zip(c["steps"], c["obs"])) if st["k"] == "end" and ob["status"] >= 500]
        return bool(flushed(c)) and bool(st5) and any(200 <= ob["status"] < 300 for ob in c["obs"][st5[0] + 1:])
    rcases = [c for c in cases if "retry" in c["class"] and retried(c)]
    pat = {}
    for c in rcases:
        nch = sum(1 for st in c["steps"][:next(i for i, st in enumerate(c["steps"]) if st["k"] == "end") + 1] if st["k"] in ("beginf", "moref", "end"))
        pat["%d chunks" % nch] = pat.get("%d chunks" % nch, 0) + 1
    ck.extra["hist_retry_after_chunked_request"] = {"histories": len(rcases), "by number of chunks of the failed request": pat}
    ck.obligation("histories in which a request sent in 2..4 chunks fails on one insert (every chunk position, series / samples / both, or every series insert) and the client comes again were generated and ran as intended (5xx, then an acknowledged push)",
                  len(rcases) >= 25, "%d such histories %s" % (len(rcases), pat))
    # pushes whose series rows share one INSERT of the real insert service (round 6)
    def shared_members(st, ob):
        """members (not the first) whose series appear in the ONE time_series INSERT that followed the one kept waiting"""
        later = [cl for cl in ob.get("calls") or [] if cl["table"] == "time_series" and cl.get("tag") != "held"]
        if not ob.get("shared") or len(later) != 1:
            return 0
        fps = {r[1] for r in later[0]["rows"] or []}
        return sum(1 for m in st["members"][1:] if any(s_["fp"] in fps for s_ in m["streams"]))
    gsteps = [(st, ob) for c in cases for st, ob in zip(c["steps"], c["obs"]) if st["k"] == "group"]
    nsh = sum(1 for st, ob in gsteps if shared_members(st, ob) >= 2)
    nshfail = sum(1 for st, ob in gsteps if shared_members(st, ob) >= 2 and not st["ts_ok"])
    nshmixed = sum(1 for st, ob in gsteps if shared_members(st, ob) >= 2 and len({200 <= x < 300 for x in ob.get("statuses") or []}) == 2)
    ck.extra["hist_shared_insert"] = {"group steps": len(gsteps), "one INSERT carried the series rows of >= 2 requests": nsh,
                                      "of these the shared INSERT failed": nshfail, "of these some requests were answered 2xx and some 5xx": nshmixed,
                                      "requests in group steps": sum(len(st["members"]) for st, _ in gsteps)}
    ck.obligation("histories in which the series rows of two or more requests wait in one pending buffer of the REAL time_series insert service and go out in one INSERT were generated and ran as intended (an INSERT kept waiting inside the client, the Request of every other push returned meanwhile, one INSERT afterwards), some with that INSERT failing",
                  nsh >= 15 and nshfail >= 6, "%d group steps, %d with a shared INSERT, %d of them failing" % (len(gsteps), nsh, nshfail))
    # round 7: the same series on two servers whose database has the same name
    def both_nodes(c):
        """series (fingerprints) acknowledged on both nodes, each node having received a time_series row of it on its own connection"""
        got = {nd: set() for nd in NODES}
        for st, ob in zip(c["steps"], c["obs"]):
            nd = st.get("node") or NODES[0]
            if st["k"] == "push" and 200 <= ob["status"] < 300:
                got[nd] |= {s_["fp"] for s_ in st["streams"]}
        return got[NODES[0]] & got[NODES[1]]
    ncases = [resolve_free(c) for c in cases if has_nodes(c)]
    nboth = sum(1 for c in ncases if both_nodes(c))
    nhit = sum(1 for c in ncases for i, (st, ob) in enumerate(zip(c["steps"], c["obs"]))
               if st["k"] == "push" and 200 <= ob["status"] < 300 and any(cl["table"] == "time_series" and cl["ok"] for cl in ob["calls"] or [])
               and any(st2["k"] == "push" and (st2.get("node") or NODES[0]) != (st.get("node") or NODES[0]) and 200 <= ob2["status"] < 300
                       and {s_["fp"] for s_ in st2["streams"]} & {s_["fp"] for s_ in st["streams"]} for st2, ob2 in zip(c["steps"][:i], c["obs"][:i])))
    ck.extra["hist_two_nodes"] = {"histories": len(ncases), "a series acknowledged on both nodes": nboth,
                                  "pushes that announced (time_series INSERT ok) a series the OTHER node had acknowledged earlier in the history": nhit,
                                  "pushes to n2": sum(1 for c in ncases for st in c["steps"] if st.get("node") == NODES[1])}
    ck.obligation("histories over two single-server nodes whose database has the same name were generated and ran as intended (the same series acknowledged on both nodes; pushes that announce on one node a series the other node has already confirmed)",
                  nboth >= 12 and nhit >= 12, "%d histories over two nodes, %d with a series on both, %d announcements of a series the other node had" % (len(ncases), nboth, nhit))
    # round 8: each of them is also ONE run of the product model (model/SeriesNodes.v, shared cache with prefix = node name)
    ck.extra["hist_two_nodes"]["evaluated as one run of the product model (mrun_obs, m_violation)"] = dict(NODE_EVAL)
    ck.obligation("every history over two nodes was compared, as ONE history, with the product model of model/SeriesNodes.v (one shared cache of prefixed entries, a table per node: mrun_obs with prefix = node name) and judged by its node-by-node oracle m_violation",
                  NODE_EVAL["cases"] >= len(ncases) >= 16, "%d evaluations for %d histories over two nodes" % (NODE_EVAL["cases"], len(ncases)))
    free = [st for c in ncases for st in c["steps"] if st.get("free")]
    ck.extra["hist_two_nodes"]["pushes without X-CH-DSN (the registry chose the node)"] = {"pushes": len(free), "stored on n2": sum(1 for st in free if st["node"] == NODES[1])}
    ck.obligation("pushes that name no node (no X-CH-DSN header) were sent to the writer with two nodes and the registry chose both nodes (the request's node = the connection its samples travelled on; series row and cache view must be that node's)",
                  len(free) >= 30 and 3 <= sum(1 for st in free if st["node"] == NODES[1]) <= len(free) - 3, "%d header-less pushes" % len(free))
    ck.add_samples([show_hist(c) for c in ncases if len(c["steps"]) == 3][:1])
    ck.add_samples([show_hist(c) for c in cases if len(c["steps"]) >= 2 and not has_group(c)][:1] + [show_hist(c) for c in cases if has_group(c)][:1])


# ------------------------------------------------------------------------------------------ cache keys
def run_keys(ck):
    outp = os.path.join(ck.work, "keys.jsonl")
    rc, out = ck.go_run("seriesid", ["--mode", "keys", "--seed", ck.seed, "--n", ck.n(400, 4000), "--out", outp])
    if rc != 0:
        ck.obligation("harness seriesid --mode keys ran (production cache built by plugin.CreateStaticServiceRegistry)", False, out[-1500:])
        return
    cases = [json.loads(l) for l in open(outp)]
    flags = [c for c in cases if c.get("class") == "cluster-cache"]
    cases = [c for c in cases if c.get("class") != "cluster-cache"]
    want = {"single:first_checkandset": False, "single:has_after_set": True, "single:second_checkandset": True, "single:has_other": False,
            "cluster:first_checkandset": False, "cluster:has_after_set": False, "cluster:second_checkandset": False, "cluster:has_other": False,
            "twin1:first_checkandset": False, "twin2:has_what_twin1_set": False, "twin2:first_checkandset": False, "twin1:has_after_both": True}
    got = flags[0]["flags"] if flags else None
    ck.obligation("numbercache views: a single node remembers what it was told, a node with a ClusterName answers 'not seen' and stores nothing (the premise of acked_sample_is_indexed_cluster_mode), two single nodes whose database has the same name do not see each other's keys (the prefix of CacheKey.node_key is the NODE name: cache_key_injective_with_node)",
                  got == want, "observed %s" % got)
    if got != want:
        ck.violation({"property": "C04", "part": "keys", "kind": "the announcement cache view of a node does not behave as modelled (single: set semantics; cluster: always 'not seen'; two nodes with one database name: separate key spaces)",
                      "case": {"observed": got, "expected": want}, "replay": "seriesid --mode keys"})
    txt = ("From Coq Require Import List ZArith Bool String Uint63.\n"
           "From Qryn Require Import model.Labels model.CacheKey.\n"
           "Import ListNotations.\nOpen Scope Z_scope.\n"
           "Definition cases : list kcase := [\n  " +
           ";\n  ".join("{| kc_id := %d; kc_k1 := %s; kc_k2 := %s; kc_s1 := %s; kc_s2 := %s |}" % (
               c["id"], coq_u64(c["k1"]), coq_u64(c["k2"]), coq_bytes(unhex(c["s1"])), coq_bytes(unhex(c["s2"]))) for c in cases) +
           "].\nDefinition R := Eval vm_compute in kreport cases.\nPrint R.\n")
    rc, out = ck.coq_eval("C04_keys", txt)
    res = parse_report(out, ["M_key", "V_key"]) if rc == 0 else None
    if res is None:
        ck.obligation("cache-key cases evaluated inside Coq", False, out[-1500:])
        return
    byid = {c["id"]: c for c in cases}
    nreal = sum(1 for c in cases if c["class"].startswith("announcement-keys"))
    ck.obligation("announcement keys agreeing on 32 of their 64 bits were found by the birthday search (low, middle and high window)",
                  len(set(c["class"] for c in cases if c["class"].startswith("announcement-keys"))) == 3, "found %d pairs" % nreal)
    ck.obligation("cache_key_injective on the production serializer: %d pairs of different 64-bit keys (incl. %d pairs of real announcement keys agreeing on 32 bits) get different byte keys" % (len(cases), nreal),
                  not res["V_key"], "case ids: %s" % res["V_key"][:10])
    ck.obligation("correspondence: model CacheKey.ser_le8 = serializer of plugin.GoCache on %d keys" % (2 * len(cases)), not res["M_key"],
                  "case ids: %s" % res["M_key"][:10])
    if res["V_key"]:
        c = byid[res["V_key"][0]]
        ck.violation({"property": "C04", "part": "keys", "kind": "the announcement cache's key serializer maps two different 64-bit keys to the same bytes",
                      "case": c, "readable": {"key 1": "0x%016x" % int(c["k1"]), "key 2": "0x%016x" % int(c["k2"]), "bytes 1": c["s1"], "bytes 2": c["s2"]},
                      "explanation": "key_violation (model/CacheKey.v); the history part shows the consequence (a series swallowed by another one's cache entry)",
                      "replay": "seriesid --mode keys --cases <file with this case>"})
    elif res["M_key"]:
        ck.violation({"property": "C04", "part": "keys", "kind": "model/implementation disagree on the serializer; it is still injective on all pairs",
                      "case": byid[res["M_key"][0]]}, no_input=True)
    hist = {}
    for c in cases:
        hist[c["class"]] = hist.get(c["class"], 0) + 1
    ck.coverage["evaluations"] += len(cases)
    ck.coverage["distinct_nontrivial"] += len(set((c["k1"], c["k2"]) for c in cases))
    ck.coverage["rule"] += ("keys: pairs of different uint64 cache keys: real announcement keys (maybeAddFp's hash) agreeing on the low / middle / high 32 bits found by a birthday search over 300000 candidates, "
                            "and random keys differing in one bit, one byte, the high half, the low half; all non-trivial. ")
    ck.extra["keys_input_classes"] = hist


# ------------------------------------------------------------------------------------------ dates
def run_dates(ck):
    n = ck.n(400, 400)
    cases = []
    corpus = os.path.join(CORPUS, "dates.jsonl")
    if os.path.exists(corpus):
        outp = os.path.join(ck.work, "dates_corpus.jsonl")
        rc, out = ck.go_run("seriesid", ["--mode", "dates", "--cases", corpus, "--out", outp])
        if rc != 0:
            ck.obligation("harness seriesid --mode dates ran on the corpus", False, out[-1500:])
            return
        cs = [json.loads(l) for l in open(outp)]
        for i, c in enumerate(cs):
            c["id"] = 1000000 + i
            c["class"] = "corpus:" + c.get("class", "")
        cases += cs
    outp = os.path.join(ck.work, "dates.jsonl")
    seeds = [ck.seed] if ck.quick() else [ck.seed + k for k in range(20)]
    for sd in seeds:
        rc, out = ck.go_run("seriesid", ["--mode", "dates", "--seed", sd, "--n", n, "--out", outp])
        if rc != 0:
            ck.obligation("harness seriesid --mode dates ran", False, out[-1500:])
            return
        cs = [json.loads(l) for l in open(outp)]
        for c in cs:
            c["id"] += len(cases) if sd != seeds[0] else 0
        cases += cs
    for i, c in enumerate(cases):
        c["id"] = i
    bad = [c for c in cases if c.get("panic") or c["status"] != 204 or c["date"] < 0]
    ck.obligation("every dated push was accepted and produced a series row", not bad, json.dumps(bad[:2]))
    ok = [c for c in cases if c not in bad]
    txt = ("From Coq Require Import List ZArith Bool Uint63.\n"
           "From Qryn Require Import model.Labels model.Dates.\n"
           "Import ListNotations.\nOpen Scope Z_scope.\n"
           "Definition cases : list dcase := [\n  " +
           ";\n  ".join("{| dc_id := %d; dc_off := %s; dc_ts := %s; dc_date := %d |}" % (c["id"], coq_Z(c["offset"]), coq_u64(c["ts"]), c["date"]) for c in ok) +
           "].\nDefinition R := Eval vm_compute in dreport cases.\nPrint R.\n")
    rc, out = ck.coq_eval("C04_dates", txt)
    res = parse_report(out, ["M_date", "V_date"]) if rc == 0 else None
    if res is None:
        ck.obligation("date cases evaluated inside Coq", False, out[-1500:])
        return
    byid = {c["id"]: c for c in ok}
    ck.obligation("correspondence: model Dates.series_day = date column value reaching the client on %d (zone, instant) pairs" % len(ok),
                  not res["M_date"], "mismatching case ids: %s" % res["M_date"][:10])
    ck.obligation("spec: the stored day is the sample's UTC day, inside the reader's date window, in every process zone", not res["V_date"],
                  "case ids: %s" % res["V_date"][:10])

    def readable(c):
        import datetime
        t = datetime.datetime.fromtimestamp(c["ts"] // 10**9, datetime.timezone.utc)
        return {"process zone offset (s)": c["offset"], "sample": t.isoformat(), "sample UTC day": c["ts"] // 10**9 // 86400,
                "stored date (days)": c["date"], "reader lower bound for from=sample (days)": (c["ts"] // 10**9 - 1800) // 86400}
    if res["V_date"]:
        c = min((byid[i] for i in res["V_date"]), key=lambda c: abs(c["offset"]))
        ck.violation({"property": "C04", "part": "dates", "kind": "series row stored under a day the reader does not search",
                      "case": c, "readable": readable(c), "explanation": "date_violation (model/Dates.v)",
                      "replay": "seriesid --mode dates --cases <file with this case>"})
    elif res["M_date"]:
        c = byid[res["M_date"][0]]
        ck.violation({"property": "C04", "part": "dates", "kind": "model/implementation disagree; spec oracle still accepts", "case": c,
                      "readable": readable(c)}, no_input=True)
    hist = {}
    for c in cases:
        hist[c["class"]] = hist.get(c["class"], 0) + 1
    ck.coverage["evaluations"] += len(cases)
    ck.coverage["distinct_nontrivial"] += len(set((c["offset"], c["ts"]) for c in cases if c["offset"] != 0))
    ck.coverage["rule"] += ("dates: 32 process zones (-12h..+14h whole hours and five :30/:45 zones) x 12 instants (UTC midnight +-1 s, local midnight +-1 s / +-30 min, noon, random); "
                            "non-trivial = non-UTC zone, distinct (zone, instant). ")
    ck.extra["dates_input_classes"] = hist
    ck.add_samples([readable(c) for c in cases if c["offset"] < 0][:1])


def run(ck):
    ck.trusted += [
        "C04: city.CH64 on label strings is an oracle (per-case table from the exported function); Hash128to64 and CH64 over the 24 accumulator bytes are transcribed and checked by the correspondence; FingerPrintType = CityHash (default) only",
        "C04: strconv.IsPrint on runes > 0xFF is an oracle table (the round-trip theorems hold for every IsPrint); ClickHouse's JSON functions are assumed to accept RFC 8259 (LabelJson.v) documents; strings.ToValidUTF8 and the rune walk of `for range` are transcribed (to_valid, utf8_fix) and checked by the correspondence",
        "C04: fingerprint injectivity is conditional on collision-freeness hypotheses that are tested, not proved",
        "C04 protocols: unicode.Is(unicode.L, r) above U+007F is an oracle table per ddtags text (the theorems hold for every oracle); Go's regexp semantics for tagPattern (leftmost, greedy; unique match per start rune) is argued in model/DdTags.v and checked by the correspondence on texts with junk; encoding/json's string encoder, base64.StdEncoding and strconv.FormatFloat (C15's model/GoFloat.v) are transcribed and checked by the correspondence on OTLP any-value trees",
        "C04 decode side: the reader's Go decoder (storedLabels) is RUN on every generated document; the SQL side (JSONExtractKeysAndValues / mapFromArrays) is represented as in C07/C17 (SqlEval.label_of over the key/value list) and label_document_meets_sql_reader proves the stored text meets that representation's premises (object of strings, distinct keys); ClickHouse itself is not available",
        "C04 histories: the (day, fingerprint, type) cache key CH64(day || fp || type) is modelled as the triple itself (no collisions); fastcache has no false positives; the cache is the production GoCache; a cache reset runs the ticker's body through hook VerifC04Reset; CH64 collision-freeness of the 64-bit key is a hypothesis of announcement_cache_refines; the mid-request flush above 1 MiB is modelled (Flush k: the chunk of the k-th open request is sent with its own insert outcomes; More k: it parses further streams; the model allows a flush at any stream boundary) and driven with real 1.1 MB log lines, one flush / continuation / completion at a time: the two inserts of a chunk are one atomic step of the model, so are the last chunk's inserts, the decision over all chunks and the cache update (End); the insert services are the real ones (writer/service + writer/service/impl, built by the production wiring, PushInterval 1 ms); in the histories of model/SeriesIndex.v every request's rows travel in an INSERT of their own; histories of class shared-insert make the rows of several one-chunk requests share ONE INSERT (the fake client keeps the INSERT of a first push waiting, the harness sees the Request of every other push return through a counting pass-through in front of the real time_series service - the only thing in the registry that is not the plugin's) and are judged by model/SharedInsert.v (requests of one chunk; the samples insert of a request is not batched with others); requests of several chunks that share an INSERT with other requests are not driven; two single-server nodes n1, n2 with one database name in the registry, every request names its node with X-CH-DSN (the registry's random choice for a request without the header is not driven), all histories but those of class nodes go to n1, histories of class nodes are judged node by node (an INSERT counts for the node whose connection carried it); the cache is disabled in cluster mode; overlapping requests are driven through bodies that stay open (io.Pipe)",
        "C04 dates: ch-go's ToDate and Go's time.Truncate are transcribed (checked by the correspondence over 32 zones); the reader's own zone (upper date bound) belongs to C13",
    ]
    ck.coq_props()
    if not ck.go_build("seriesid"):
        ck.obligation("harness seriesid builds against the repo (hook zz_verif_export_c04.go present)", False, ck.build_out[-1500:])
        return
    # VERIF_C04_PARTS=labels,protos runs only these parts (development aid; the evidence of such a run is partial)
    parts = [x for x in os.environ.get("VERIF_C04_PARTS", "").split(",") if x]
    for name, fn in (("labels", run_labels), ("protos", run_protos), ("djb", run_djb), ("chunks", run_chunks), ("hist", run_hist), ("keys", run_keys), ("dates", run_dates)):
        if not parts or name in parts:
            fn(ck)
