"""Byte-exact correspondence between the SQL text produced by the real LogQL planners and
`render (process (plan ast) ctx)` of coq/model/LogqlPlan.v, evaluated inside Coq."""
import json
import os
import re

from vcheck import coq_string

HDR = ("From Coq Require Import List ZArith NArith String Ascii Bool.\n"
       "From Qryn Require Import lib.Strs model.Sql model.SqlRender model.Logql model.LogqlPlan model.LogqlCases.\n"
       "Import ListNotations.\nOpen Scope string_scope.\n")


def case_coq(c):
    if c.get("err") in ("plan", "process", "panic"):
        sqls = "[None]"
    else:
        sqls = "[" + "; ".join("Some " + coq_string(s) for s in c["sql"]) + "]"
    return "{| lc_id := %d%%Z; lc_sel := %s; lc_final := %s; lc_ctx := %s; lc_sql := %s |}" % (
        c["id"], c["ast_coq"], "true" if c["ctx"]["finalize"] else "false", c["ctx_coq"], sqls)


def eval_shard(ck, name, cases):
    txt = HDR + "Definition cases : list lcase := [\n " + ";\n ".join(case_coq(c) for c in cases) + "].\n" \
        "Definition M := Eval vm_compute in log_mismatches cases.\nPrint M.\n"
    rc, out = ck.coq_eval(name, txt, timeout=1200)
    if rc != 0:
        return None, out
    flat = " ".join(out.split())
    m = re.search(r"M = \[(.*?)\]\s*: list Z", flat)
    if not m:
        return None, out
    return [int(x) for x in re.findall(r"-?\d+", m.group(1))], out


def model_sql(ck, c):
    """ask Coq for the model's SQL of one case (diagnostics of a mismatch)"""
    txt = HDR + "Definition c := %s.\nDefinition R := Eval vm_compute in log_sqls (lc_sel c) (lc_final c) (lc_ctx c) (List.length (lc_sql c)).\n" \
        "Definition H := Eval vm_compute in map (fun o => match o with Some s => Some (String.length s) | None => None end) R.\nPrint H.\n" % case_coq(c)
    rc, out = ck.coq_eval("diag_%s" % ck.pid, txt)
    return out[-400:]


def ml_case(c):
    return "(%d, %s, %s, %s, %d)" % (c["id"], c["ast_ml"], "true" if c["ctx"]["finalize"] else "false", c["ctx_ml"],
                                    max(1, len(c.get("sql") or [])))


def eval_ocaml(ck, name, cases):
    """model SQL per case through the OCaml extraction; returns {id: [sql bytes or None,...]}"""
    chunks = []
    for k in range(0, len(cases), 40):
        chunks.append("let chunk%d = [\n " % (k // 40) + ";\n ".join(ml_case(c) for c in cases[k:k + 40]) + "]\n")
    txt = "".join(chunks) + "let cases = List.concat [" + "; ".join("chunk%d" % i for i in range(len(chunks))) + "]\n"
    rc, out = ck.ocaml_eval(name, "ExtractLogql.v", "logqlplan", txt, "logql_driver.ml")
    if rc != 0:
        return None, out
    res = {}
    for ln in out.splitlines():
        parts = ln.split()
        if not parts:
            continue
        res[int(parts[0])] = [None if p == "-" else bytes.fromhex(p) for p in parts[1:]]
    return res, out


def observed(c):
    if c.get("err") in ("plan", "process", "panic"):
        return [None]
    return [s.encode("utf8", "surrogateescape") for s in c["sql"]]


def first_diff(a, b):
    if a is None or b is None:
        return "model=%r impl=%r" % (a if a is None else a[:80], b if b is None else b[:80])
    k = 0
    while k < min(len(a), len(b)) and a[k] == b[k]:
        k += 1
    return "at byte %d: model ...%r  impl ...%r" % (k, a[max(0, k - 40):k + 60], b[max(0, k - 40):k + 60])


ZONES = ["Asia/Tokyo", "Pacific/Kiritimati", "Australia/Sydney", "Asia/Kolkata", "Europe/Berlin", "America/New_York", "Pacific/Pago_Pago", "UTC"]


def run_logql(ck, n_quick=1500, n_thorough=40000, shard=4000, zones=None, zone_share=3, env_zone=None, env_n=0):
    """zones: one generated case in zone_share is planned with the PROCESS zone (time.Local, what TZ= sets) put to one of
    these IANA names (ctx.tz; half of them with a window starting next to the UTC midnight on the side where the zone's
    calendar day differs). The planner model has no zone parameter, so the text must not depend on it.
    env_zone / env_n: the first env_n cases are planned a second time by a harness process started with TZ=env_zone in its
    environment; the statements must be those of the first run, byte for byte (cases whose text differs join the
    mismatches with ctx.tz = env_zone)."""
    ok, out = ck.coq_make(["model/LogqlCases.vo"])
    if not ok:
        ck.obligation("LogQL planner model builds", False, out[-1500:])
        return []
    if not ck.go_build("logqlsql"):
        ck.obligation("harness logqlsql builds against the repository", False, ck.build_out[-1500:])
        return []
    n = ck.n(n_quick, n_thorough)
    outp = os.path.join(ck.work, "logqlsql.jsonl")
    zargs = ["--zones", ",".join(zones), "--zone-share", zone_share] if zones else []
    rc, out = ck.go_run("logqlsql", ["--seed", ck.seed, "--n", n, "--out", outp] + zargs, timeout=1800)
    if rc != 0:
        ck.obligation("harness logqlsql ran", False, out[-1500:])
        return []
    cases = [json.loads(l) for l in open(outp)]
    env_mism = []
    if env_zone and env_n:
        # the same generator run (same seed: the same cases) in a process whose environment says TZ=<zone>; cases that carry
        # a zone of their own keep it (both runs plan them under that zone)
        oute = os.path.join(ck.work, "logqlsql_tzenv.jsonl")
        rc, out = ck.go_run("logqlsql", ["--seed", ck.seed, "--n", min(n, env_n), "--out", oute] + zargs, timeout=1800, env_extra={"TZ": env_zone})
        if rc != 0:
            ck.obligation("harness logqlsql ran under TZ=%s" % env_zone, False, out[-1500:])
            return []
        other = [json.loads(l) for l in open(oute)]
        same_cases = all(a["query"] == b["query"] and a["ctx"] == b["ctx"] for a, b in zip(cases, other))
        for a, b in zip(cases, other):
            if (a.get("sql"), a.get("err")) != (b.get("sql"), b.get("err")):
                x = dict(b)
                x["ctx"] = dict(b["ctx"], tz=b["ctx"].get("tz") or env_zone)
                x["diff"] = "TZ=%s: %s" % (env_zone, first_diff((a.get("sql") or [""])[0].encode("utf8", "surrogateescape"), (b.get("sql") or [""])[0].encode("utf8", "surrogateescape")))
                env_mism.append(x)
        ck.obligation("the statements do not depend on the zone of the reader process: a harness process started with TZ=%s prints, for the first %d generated "
                      "(query, ctx), the statements of the run in the check's own zone, byte for byte" % (env_zone, len(other)),
                      same_cases and len(other) > 0 and not env_mism,
                      "the two runs generated different cases" if not same_cases else "%d differ; first: %s => %s" % (len(env_mism), env_mism[0]["query"], env_mism[0]["diff"]) if env_mism else "")
        ck.extra["logql_tz_env_run"] = {"TZ": env_zone, "cases": len(other), "differ": len(env_mism)}
    usable = [c for c in cases if c.get("ast_ml") and c.get("err") in (None, "", "plan", "process", "panic")]
    skipped = {}
    for c in cases:
        if not (c.get("ast_ml") and c.get("err") in (None, "", "plan", "process", "panic")):
            skipped[c.get("err")] = skipped.get(c.get("err"), 0) + 1
    mism = []
    for k in range(0, len(usable), shard):
        part = usable[k:k + shard]
        res, out = eval_ocaml(ck, "logql", part)
        if res is None:
            ck.obligation("LogQL SQL-text cases evaluated by the extracted model", False, out[-2000:])
            return cases
        for c in part:
            got = res.get(c["id"])
            want = observed(c)
            if got != want:
                d = ""
                for a, b in zip(got or [None], want):
                    if a != b:
                        d = first_diff(a, b)
                        break
                c["diff"] = d or "different number of statements: model %d impl %d" % (len(got or []), len(want))
                mism.append(c)
    ck.obligation("correspondence: render(process(plan ast) ctx) = SQL of the real LogQL planners, byte for byte, on %d queries" % len(usable),
                  not mism, "; ".join("%s => %s" % (c["query"], c["diff"]) for c in mism[:3]))
    ck.extra["logql_sql_mismatches"] = [{"query": c["query"], "ctx": c["ctx"], "diff": c["diff"]} for c in mism[:20]]
    ck.extra["logql_skipped"] = skipped
    if zones:
        zh = {}
        for c in usable:
            z = c["ctx"].get("tz") or "(process default)"
            zh[z] = zh.get(z, 0) + 1
        ck.extra["logql_process_zones"] = zh
    ck.sql_mismatch_cases = mism + env_mism
    return cases


# ---------------------------------------------------------------------- metric queries (C08)
def ml_mcase(c):
    # script_ml = the script as written; script1_ml = the script handed to the planners when the reader's entry point rewrote it.
    # last component: None = the script has a breakpoint (not handed over whole), Some None = handed over as written,
    # Some (Some s0) = rewritten, s0 as written
    planned = c.get("script1_ml") or c["script_ml"]
    s0 = "None" if c.get("bp") else ("Some (Some (%s))" % c["script_ml"] if c.get("script1_ml") else "Some None")
    return "(%d, %s, %s, %s, %d, %s)" % (c["id"], planned, "true" if c["ctx"]["finalize"] else "false", c["ctx_ml"],
                                        max(1, len(c.get("sql") or [])), s0)


def eval_ocaml_metric(ck, name, cases):
    """model SQL per metric case through the OCaml extraction; returns ({id: [sql bytes or None,...]}, {id: shortcut bool})"""
    chunks = []
    for k in range(0, len(cases), 40):
        chunks.append("let chunk%d = [\n " % (k // 40) + ";\n ".join(ml_mcase(c) for c in cases[k:k + 40]) + "]\n")
    txt = "".join(chunks) + "let cases = List.concat [" + "; ".join("chunk%d" % i for i in range(len(chunks))) + "]\n"
    rc, out = ck.ocaml_eval(name, "ExtractLogqlMetric.v", "logqlplan", txt, "logqlm_driver.ml")
    if rc != 0:
        return None, None, out
    res, short = {}, {}
    for ln in out.splitlines():
        parts = ln.split()
        if len(parts) < 2:
            continue
        # (analyze_m15, m15_representable, number of label-filter stages) computed by the model on the dumped AST
        short[int(parts[0])] = (parts[1][0] == "1", parts[1][1] == "1", int(parts[1][2:-1]), parts[1][-1])
        res[int(parts[0])] = [None if p == "-" else bytes.fromhex(p) for p in parts[2:]]
    return res, short, out


def metric_case_coq(c):
    if c.get("err") in ("plan", "process", "panic"):
        sqls = "[None]"
    else:
        sqls = "[" + "; ".join("Some " + coq_string(s) for s in c["sql"]) + "]"
    return "{| mc_id := %d%%Z; mc_script := %s; mc_final := %s; mc_ctx := %s; mc_sql := %s |}" % (
        c["id"], c["script_coq"], "true" if c["ctx"]["finalize"] else "false", c["ctx_coq"], sqls)


def compare_metric(ck, cases, name="logqlm", shard=4000):
    """cases: harness output lines of --mode metric. Returns (usable, mismatching, skipped histogram); every usable
    case gets c["m15"] = the model's AnalyzeMetrics15sShortcut verdict and c["m15_spec"] = the specification predicate
    m15_representable (model/LogqlMetricSem.v)."""
    usable = [c for c in cases if c.get("script_ml") and c.get("err") in (None, "", "plan", "process", "panic")]
    skipped = {}
    for c in cases:
        if c not in usable:
            skipped[c.get("err")] = skipped.get(c.get("err"), 0) + 1
    mism = []
    for k in range(0, len(usable), shard):
        part = usable[k:k + shard]
        res, short, out = eval_ocaml_metric(ck, name, part)
        if res is None:
            ck.obligation("LogQL metric SQL-text cases evaluated by the extracted model", False, out[-2000:])
            return usable, None, skipped
        for c in part:
            got = res.get(c["id"])
            want = observed(c)
            c["m15"], c["m15_spec"], c["n_label_filters"], c["norm_ok"] = short.get(c["id"], (None, None, None, None))
            if got != want:
                d = ""
                for a, b in zip(got or [None], want):
                    if a != b:
                        d = first_diff(a, b)
                        break
                c["diff"] = d or "different number of statements: model %d impl %d" % (len(got or []), len(want))
                mism.append(c)
    return usable, mism, skipped


def run_logql_metric(ck, n_quick=1200, n_thorough=30000):
    """byte-exact SQL-text correspondence over generated LogQL metric queries; returns the harness cases"""
    ok, out = ck.coq_make(["model/LogqlCases.vo", "model/LogqlMetricSem.vo"])
    if not ok:
        ck.obligation("LogQL planner model builds", False, out[-1500:])
        return []
    if not ck.go_build("logqlsql"):
        ck.obligation("harness logqlsql builds against the repository", False, ck.build_out[-1500:])
        return []
    n = ck.n(n_quick, n_thorough)
    outp = os.path.join(ck.work, "logqlsql_metric.jsonl")
    rc, out = ck.go_run("logqlsql", ["--mode", "metric", "--seed", ck.seed, "--n", n, "--out", outp], timeout=1800)
    if rc != 0:
        ck.obligation("harness logqlsql --mode metric ran", False, out[-1500:])
        return []
    cases = [json.loads(l) for l in open(outp)]
    usable, mism, skipped = compare_metric(ck, cases)
    if mism is None:
        return cases
    ck.obligation("correspondence: render(process(plan_script ast) ctx) = SQL of the real LogQL planners, byte for byte, on %d metric queries" % len(usable),
                  not mism, "; ".join("%s => %s" % (c["query"], c["diff"]) for c in mism[:3]))
    ck.extra["logql_metric_sql_mismatches"] = [{"query": c["query"], "ctx": c["ctx"], "diff": c["diff"]} for c in mism[:20]]
    ck.extra["logql_metric_skipped"] = skipped
    ck.metric_mismatch_cases = mism
    return cases


# ---------------------------------------------------------------------- line_format templates alone (model/LogqlTemplate.v)
def run_tpl(ck, n_quick=1500, n_thorough=40000, corpus=None):
    """The template text of `| line_format`, alone: the real LineFormatPlanner over SQLMainInitPlanner (harness logqlsql --mode tpl)
    against LogqlCases.tpl_probe. Three-valued: a text the model parses must give the same statement byte for byte, a text the model
    says Parse refuses must be refused, a text outside the transcribed fragment is no claim (counted). A mismatch with a template
    the model claims is a concrete input: the violation carries it (replay: logqlsql --mode tpl --cases <file>)."""
    ok, out = ck.coq_make(["model/LogqlCases.vo"])
    if not ok:
        ck.obligation("LogQL planner model builds", False, out[-1500:])
        return []
    if not ck.go_build("logqlsql"):
        ck.obligation("harness logqlsql builds against the repository", False, ck.build_out[-1500:])
        return []
    outp = os.path.join(ck.work, "logqlsql_tpl.jsonl")
    rc, out = ck.go_run("logqlsql", ["--mode", "tpl", "--seed", ck.seed, "--n", ck.n(n_quick, n_thorough), "--out", outp], timeout=1800)
    if rc != 0:
        ck.obligation("harness logqlsql --mode tpl ran", False, out[-1500:])
        return []
    cases = [json.loads(l) for l in open(outp)]
    if corpus and os.path.exists(corpus):
        outc = os.path.join(ck.work, "logqlsql_tpl_corpus.jsonl")
        rc, out = ck.go_run("logqlsql", ["--mode", "tpl", "--cases", corpus, "--out", outc])
        if rc == 0:
            wit = [json.loads(l) for l in open(outc)]
            for i, c in enumerate(wit):
                c["id"] = 10 ** 6 + i
                c["class"] = "corpus"
            cases = wit + cases
    verdict, sql = {}, {}
    for k in range(0, len(cases), 8000):
        part = cases[k:k + 8000]
        chunks = []
        for j in range(0, len(part), 40):
            chunks.append("let chunk%d = [\n " % (j // 40) + ";\n ".join("(%d, %s, %s)" % (c["id"], c["tpl_ml"], c["ctx_ml"]) for c in part[j:j + 40]) + "]\n")
        txt = "".join(chunks) + "let cases = List.concat [" + "; ".join("chunk%d" % i for i in range(len(chunks))) + "]\n"
        rc, out = ck.ocaml_eval("logqltpl", "ExtractLogql.v", "logqlplan", txt, "logqltpl_driver.ml")
        if rc != 0:
            ck.obligation("line_format template cases evaluated by the extracted model", False, out[-2000:])
            return cases
        for ln in out.splitlines():
            parts = ln.split()
            if len(parts) == 3:
                verdict[int(parts[0])] = parts[1]
                sql[int(parts[0])] = None if parts[2] == "-" else bytes.fromhex(parts[2])
    hist, bad = {}, []
    for c in cases:
        v = verdict.get(c["id"])
        impl_ok = not c.get("err")
        key = "%s:%s:%s" % (c["class"], {"p": "parsed", "e": "refused", "u": "outside"}.get(v, "?"), "ok" if impl_ok else "error")
        hist[key] = hist.get(key, 0) + 1
        c["verdict"] = v
        if v == "p":
            want = c.get("sql", "").encode("utf8", "surrogateescape") if impl_ok else None
            if sql.get(c["id"]) != want:
                c["diff"] = first_diff(sql.get(c["id"]), want)
                bad.append(c)
        elif v == "e":
            if impl_ok or sql.get(c["id"]) is not None:
                c["diff"] = "the model says Parse refuses this template, the planner printed %r" % (c.get("sql", "")[:160],)
                bad.append(c)
        elif v == "u":
            if sql.get(c["id"]) is not None:
                c["diff"] = "the model plans a template it calls outside its fragment"
                bad.append(c)
        else:
            c["diff"] = "no verdict from the model"
            bad.append(c)
    claimed = sum(n for k, n in hist.items() if ":outside:" not in k)
    ck.obligation("line_format templates: tpl_parse / tpl_sql (model/LogqlTemplate.v) = text/template Parse + LineFormatPlanner.visitNodes, statement byte for byte, "
                  "on %d of %d generated templates (the others lie outside the transcribed fragment: no claim)" % (claimed, len(cases)),
                  not bad and claimed > 0, "; ".join("%r => %s" % (c["tpl"], c["diff"]) for c in bad[:3]))
    ck.extra["line_format_templates"] = {"class:model:planner": hist, "claimed": claimed, "generated": len(cases)}
    if bad:
        bad.sort(key=lambda c: len(c["tpl"]))
        c = bad[0]
        ck.violation({"property": ck.pid, "kind": "the statement LineFormatPlanner prints for this line_format template differs from the transcription "
                      "(model/LogqlTemplate.v tpl_parse / tpl_sql, model/LogqlPlan.v PLineFormatP)", "template": c["tpl"], "ctx": c["ctx"],
                      "planner": c.get("sql") or ("error: " + c.get("err_text", "")), "diff": c["diff"],
                      "replay": "write {\"id\":0,\"tpl\":<template>,\"ctx\":<ctx>} as one JSON line and run .build/bin/<tag>/logqlsql --mode tpl --cases <file> --out /dev/stdout"})
    ck.tpl_cases = cases
    return cases
