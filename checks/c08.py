"""C08 - the SQL generated for LogQL metric queries computes the defined aggregates.

1. props/C08.v: theorems over model/LogqlPlan.v (the metric planners) and model/LogqlMetricSem.v (meaning of the
   emitted SQL shapes vs. the reference metric_ref; the shortcut analysis; window bounds).
2. tie, text level: `render (process (plan_script ast) ctx)` of the model = SQL of the real clickhouse_planner, byte
   for byte, over generated metric queries and the corpus witnesses (checks/sqltext.py, OCaml extraction).
3. specification oracles on the IMPLEMENTATION's SQL: the value fragment / window divisor of every range aggregation
   and the aggregate of every vector aggregation are read back and compared with the reference function on a witness
   window inside Coq; the roll-up table may only appear when m15_representable holds for the query.
4. the Go post-processors FixPeriodPlanner / ZeroEaterPlanner run for real on scripted batches, compared with the
   model functions and judged by the spec oracle, inside Coq.
5. execution (run_exec): the statement of the planner model (byte-identical to the implementation's on the same case) is
   evaluated by model/SqlEvalAgg.v over generated databases and compared with metric_ref_db (model/LogqlMetricExec.v,
   OCaml extraction); a disagreement is a VIOLATION with (query, context, database, got, expected).
6. overlapping requests (round 8): a case whose context carries `overlap` is answered the way QueryRangeService answers a
   request (logql_transpiler_v2.Transpile + chain[0].Process over a statement-catching CHDb) while a second request with the
   same text and another window runs completely inside its Process call (harness/cmd/logqlsql/overlap.go); the statement
   caught goes through the same text tie, parse-back, execution and judge as every other case.
"""
import json
import os
import re

from vcheck import coq_string
from checks import sqltext

ROOT = os.path.dirname(os.path.dirname(os.path.abspath(__file__)))
CORPUS = os.path.join(ROOT, "corpus", "C08")

HDR = ("From Coq Require Import List ZArith NArith QArith Qcanon String Ascii Bool.\n"
       "From Qryn Require Import lib.Strs model.Logql model.LogqlPlan model.LogqlMetricSem model.LogqlMetricPost.\n"
       "Import ListNotations.\nOpen Scope Z_scope.\n")

LRA_FNS = {"rate": "FRate", "count_over_time": "FCountOverTime", "bytes_rate": "FBytesRate", "bytes_over_time": "FBytesOverTime",
           "absent_over_time": "FAbsentOverTime", "sum_over_time": "FSumOverTime", "avg_over_time": "FAvgOverTime",
           "max_over_time": "FMaxOverTime", "min_over_time": "FMinOverTime", "first_over_time": "FFirstOverTime",
           "last_over_time": "FLastOverTime", "stdvar_over_time": "FStdvarOverTime", "stddev_over_time": "FStddevOverTime"}
AGG_FNS = {"sum": "ASum", "min": "AMin", "max": "AMax", "avg": "AAvg", "stddev": "AStddev", "stdvar": "AStdvar", "count": "ACount"}

RE_RANGE = re.compile(r"intDiv\((?:time_series\.|samples\.)?timestamp_ns, (\d+)\) \* (\d+) as timestamp_ns, fingerprint(?: as fingerprint)?, '' as string, (.*?) as value")
RE_AGG = re.compile(r"SELECT fingerprint as fingerprint, (.*?) as value, lra_main\.timestamp_ns as timestamp_ns")
RE_M15 = re.compile(r"FROM \S*metrics_15s\S* as samples")


def query_facts(c):
    """the range function, range, vector operator and unwrap flag named by the PARSED script (harness field `facts`)"""
    f = c.get("facts") or {}
    return f.get("lra_fn"), f.get("dur_ns"), f.get("agg_fn"), bool(f.get("unwrapped")), bool(f.get("quantile"))


def observations(cases):
    """per case the fragments read from the implementation's first SQL statement"""
    lra, agg = [], []
    for c in cases:
        if not c.get("sql"):
            continue
        sql = c["sql"][0]
        fn, dur, aggfn, unwrapped, quant = query_facts(c)
        if not fn or not dur or quant:
            continue
        m = RE_RANGE.search(sql)
        if m and m.group(1) == m.group(2):
            lra.append({"id": c["id"], "unwrapped": unwrapped, "f": fn, "dur": dur, "bucket": int(m.group(1)), "value": m.group(3)})
        elif m:
            lra.append({"id": c["id"], "unwrapped": unwrapped, "f": fn, "dur": dur, "bucket": -1, "value": m.group(3)})
        a = RE_AGG.search(sql)
        if a and aggfn:
            agg.append({"id": c["id"], "f": aggfn, "value": a.group(1)})
    return lra, agg


def eval_observations(ck, lra, agg):
    """distinct observations judged inside Coq; returns ({key: verdict}, out) with key = tuple of the observation fields"""
    dl = sorted({(o["unwrapped"], o["f"], o["dur"], o["bucket"], o["value"]) for o in lra})
    da = sorted({(o["f"], o["value"]) for o in agg})
    txt = HDR
    txt += "Definition los : list lra_obs := [\n " + ";\n ".join(
        "{| lo_id := %d; lo_unwrapped := %s; lo_f := %s; lo_dur := %d; lo_bucket := %s; lo_value := %s |}" % (
            i, "true" if u else "false", LRA_FNS[f], d, ("(%d)" % b if b < 0 else "%d" % b), coq_string(v))
        for i, (u, f, d, b, v) in enumerate(dl)) + "].\n"
    txt += "Definition aos : list agg_obs := [\n " + ";\n ".join(
        "{| ao_id := %d; ao_f := %s; ao_value := %s |}" % (i, AGG_FNS[f], coq_string(v)) for i, (f, v) in enumerate(da)) + "].\n"
    txt += "Definition LB := Eval vm_compute in lra_obs_bad los.\nPrint LB.\nDefinition AB := Eval vm_compute in agg_obs_bad aos.\nPrint AB.\n"
    rc, out = ck.coq_eval("C08_obs_%s" % os.getpid(), txt)
    if rc != 0:
        return None, None, out
    flat = " ".join(out.split())
    lb = re.search(r"LB = \[(.*?)\]\s*: list \(Z \* Z\)", flat)
    ab = re.search(r"AB = \[(.*?)\]\s*: list \(Z \* Z\)", flat)
    if not lb or not ab:
        return None, None, out
    pairs = lambda s: [(int(a), int(b)) for a, b in re.findall(r"\((-?\d+), (-?\d+)\)", s)]
    return {dl[i]: v for i, v in pairs(lb.group(1))}, {da[i]: v for i, v in pairs(ab.group(1))}, (len(dl), len(da))


def pcase_coq(c):
    ents = lambda bs: "[" + "; ".join("[" + "; ".join("(%s, %d%%N, %s)" % (zz(e["ts"]), e["fp"], zz(e["v"])) for e in (b or [])) + "]" for b in (bs or [])) + "]"
    return "{| pc_id := %d; pc_zero := %s; pc_from := %d; pc_to := %d; pc_step := %d; pc_dur := %d; pc_sqlfrom := %d; pc_sqlto := %d; pc_in := %s; pc_out := %s |}" % (
        c["id"], "true" if c["zero"] else "false", c["from_ns"], c["to_ns"], c["step_ns"], c["dur_ns"], c["sql_from_ns"], c["sql_to_ns"],
        ents(c["in"]), ents(c["out"]))


def zz(n):
    return "%d" % n if n >= 0 else "(%d)" % n


def run_post(ck, cov=None):
    """cov: when given (run_post runs in a thread beside the SQL parts), the coverage counters are added there and merged by the caller"""
    cov = ck.coverage if cov is None else cov
    if not ck.go_build("metricpost"):
        ck.obligation("harness metricpost builds against the repository", False, ck.build_out[-1500:])
        return
    n = ck.n(300, 7500)
    outp = os.path.join(ck.work, "metricpost.jsonl")
    rc, out = ck.go_run("metricpost", ["--seed", ck.seed, "--n", n, "--out", outp])
    if rc != 0:
        ck.obligation("harness metricpost ran", False, out[-1500:])
        return
    cases = [json.loads(l) for l in open(outp)]
    corpus = os.path.join(CORPUS, "post.jsonl")
    if os.path.exists(corpus):
        outc = os.path.join(ck.work, "metricpost_corpus.jsonl")
        rc, out = ck.go_run("metricpost", ["--cases", corpus, "--out", outc])
        if rc == 0:
            cs = [json.loads(l) for l in open(outc)]
            for i, c in enumerate(cs):
                c["id"] = 1000000 + i
            cases = cs + cases
    bad = [c for c in cases if c.get("err")]
    for c in bad[:1]:
        ck.violation({"property": "C08", "part": "post-processors", "kind": "FixPeriodPlanner/ZeroEaterPlanner failed on scripted rows: " + c["err"],
                      "case": c, "replay": "harness metricpost --cases <file with this case>"})
    good = [c for c in cases if not c.get("err")]
    mism, viol = [], []
    for k in range(0, len(good), 400):
        part = good[k:k + 400]
        txt = HDR + "Definition cases : list pcase := [\n " + ";\n ".join(pcase_coq(c) for c in part) + "].\n" \
            "Definition M := Eval vm_compute in post_mismatches cases.\nPrint M.\n" \
            "Definition V := Eval vm_compute in (post_spec_violations cases ++ post_spec2_violations cases)%list.\nPrint V.\n"
        rc, out = ck.coq_eval("C08_post_%d" % (k // 400), txt)
        flat = " ".join(out.split())
        m = re.search(r"M = \[(.*?)\]\s*: list Z", flat)
        v = re.search(r"V = \[(.*?)\]\s*: list Z", flat)
        if rc != 0 or not m or not v:
            ck.obligation("post-processor cases evaluated inside Coq", False, out[-1500:])
            return
        mism += [int(x) for x in re.findall(r"-?\d+", m.group(1))]
        viol += [int(x) for x in re.findall(r"-?\d+", v.group(1))]
    byid = {c["id"]: c for c in good}
    ck.obligation("correspondence: model fix_period / zero_eater = FixPeriodPlanner / ZeroEaterPlanner on %d scripted row lists" % len(good),
                  not mism and not bad, "mismatching case ids: %s" % mism[:10])
    ck.obligation("spec oracle fix_period_spec / fix_out_ok / zero_out_ok accepts every observed post-processor output", not viol, "violating case ids: %s" % viol[:10])
    size = lambda c: sum(len(b or []) for b in c["in"] or [])
    if viol:
        worst = min((byid[i] for i in viol), key=size)
        ck.violation({"property": "C08", "part": "post-processors", "kind": "step-fixed matrix violates its specification (fix_period_spec: per series, slot i = the value of the last row whose range window covers it, non-zero slots reported on the step grid; fix_out_ok; zero_out_ok) or the window handed to the SQL is not made of whole range windows covering [from, to]",
                      "case": worst, "replay": "harness metricpost --cases <file with this case>"})
    elif mism:
        worst = min((byid[i] for i in mism), key=size)
        ck.violation({"property": "C08", "part": "post-processors", "kind": "model/implementation disagree; spec oracle still accepts", "case": worst}, no_input=True)
    hist = {}
    distinct = set()
    for c in cases:
        for k in c["class"]:
            hist[k] = hist.get(k, 0) + 1
        if size(c) >= 3 and not c["zero"]:
            distinct.add(json.dumps([c["from_ns"], c["to_ns"], c["step_ns"], c["dur_ns"], c["in"]]))
    cov["evaluations"] += len(cases)
    cov["distinct_nontrivial"] += len(distinct)
    ck.extra["post_input_classes"] = hist
    ck.add_samples([{"post": {k: c[k] for k in ("from_ns", "to_ns", "step_ns", "dur_ns")}, "in": c["in"][:2], "out": (c["out"] or [])[:1]} for c in cases[:1]])


RE_SELECT = re.compile(r"(?:^|[ (])SELECT ")
FP_FULL = "cityHash64(arraySort(arrayZip(mapKeys(labels),mapValues(labels)))) as fingerprint"


def stale_fingerprint_grouping(sql):
    """walks the selects of a statement printed with its WITH list (data-flow order): True when a select that applies a
    drop filter to the labels (mapFilter((k,v) -> k!=.. / (k, v)!=(..)) without re-fingerprinting is followed, with no
    select computing cityHash64(...) as fingerprint in between, by a select that groups by fingerprint and timestamp"""
    if not sql.startswith("WITH"):
        return False
    stale = False
    for piece in RE_SELECT.split(sql)[1:]:
        k = piece.find(" FROM ")
        cols, rest = (piece[:k], piece[k:]) if k >= 0 else (piece, "")
        if "mapFilter((k,v) -> k!=" in cols or "mapFilter((k,v) -> (k, v)!=" in cols:
            # the select of a drop stage must re-fingerprint the line with the hash of the NAMES AND VALUES of the remaining labels
            stale = FP_FULL not in cols
        elif re.search(r"cityHash64\(.*?\) as (new_)?fingerprint", cols):
            stale = False
        if stale and re.search(r"GROUP BY (fingerprint, timestamp_ns|timestamp_ns, fingerprint)", rest):
            return True
    return False


def witness_rows(c, why):
    return {"query": c["query"], "ctx": c["ctx"], "why": why}


def run_sql(ck):
    cases = sqltext.run_logql_metric(ck, n_quick=1200, n_thorough=30000)
    if not cases:
        return
    # corpus: witnesses of fixed defects and of the recorded findings
    corpus = os.path.join(CORPUS, "witness_queries.jsonl")
    wit = []
    if os.path.exists(corpus):
        outc = os.path.join(ck.work, "logqlsql_corpus.jsonl")
        rc, out = ck.go_run("logqlsql", ["--cases", corpus, "--out", outc])
        if rc == 0:
            wit = [json.loads(l) for l in open(outc)]
            for c in wit:
                c["id"] = 1000000 + c["id"]
            usable, mism, _ = sqltext.compare_metric(ck, wit, name="logqlm_corpus")
            ck.obligation("correspondence on the %d corpus witnesses" % len(usable), mism is not None and not mism,
                          "; ".join("%s => %s" % (c["query"], c.get("diff")) for c in (mism or [])[:3]))
            if mism:
                ck.metric_mismatch_cases = getattr(ck, "metric_mismatch_cases", []) + mism
    allc = wit + cases
    # ---- known findings (inputs recorded in findings.d/C08.txt), reproduced on the corpus witnesses
    known = ck.known_findings()
    for c in wit:
        cls = (c.get("class") or [""])[0]
        if cls == "unwrap-without-parser" and c.get("err") == "process" and "labels col not inited" in c.get("err_text", "") and "unwrap-needs-parser" in known:
            ck.report_known("unwrap-needs-parser", "%s => Process error '%s'" % (c["query"], c["err_text"]))
        if cls == "label-format-ignored":
            ck.obligation("corpus witness: a label_format stage before any breakpoint is refused, not dropped", c.get("err") == "plan", "%s => %s" % (c["query"], (c.get("sql") or [c.get("err_text")])[0][:200]))
    # ---- glue: logql_transpiler_v2.Plan rewrites the AST before the planners see it (groupByNothing); the model's norm_script
    # applied to the script as written must give the script the harness dumped after the real entry point ran
    nbad = [c for c in allc if c.get("norm_ok") == "n"]
    ck.obligation("correspondence: the script handed to the planners = norm_script(script as written) on the %d scripts the reader plans whole (%d with a breakpoint are not handed over whole; %d rewritten)" % (
        sum(1 for c in allc if c.get("norm_ok") == "y"), sum(1 for c in allc if c.get("norm_ok") == "x"), sum(1 for c in allc if c.get("script1_ml"))),
        not nbad, "; ".join(c["query"] for c in nbad[:3]))
    if nbad:
        ck.metric_mismatch_cases = getattr(ck, "metric_mismatch_cases", []) + [dict(c, diff="norm_script(script as written) differs from the script the entry point left") for c in nbad[:3]]
    # ---- spec oracle 1: the roll-up table only for representable queries
    short_bad = [c for c in allc if c.get("sql") and RE_M15.search(c["sql"][0]) and c.get("m15_spec") is False]
    ck.obligation("spec oracle: the implementation reads metrics_15s only for queries whose every stage is answerable from it (m15_representable)",
                  not short_bad, "; ".join(c["query"] for c in short_bad[:3]))
    range_bad = [c for c in short_bad if ((c.get("facts") or {}).get("dur_ns") or 0) % 15000000000 or ((c.get("facts") or {}).get("dur_ns") or 0) < 15000000000]
    if range_bad:
        worst = min(range_bad, key=lambda c: len(c["query"]))
        d = worst["facts"]["dur_ns"]
        ck.violation({"property": "C08", "part": "shortcut_only_whole_slots", "kind": "the plan reads the 15-second roll-up table for a range that is not made of whole 15 s slots: a row of the table stands for a whole slot and is put into the window of the slot's START, so lines behind a window border inside their slot are counted in the window before",
                      "case": witness_rows(worst, "range %d ns: %d ns remain after the last whole 15 s slot (m15_representable is false), yet the SQL selects FROM metrics_15s" % (d, d % 15000000000)),
                      "sql": worst["sql"][0][:3000],
                      "failing_input": "one stream matching the selector with one line at t = %d ns (the start of the second range window; it lies inside the 15 s slot starting at %d ns, which begins in the first window): the definition reports the point (t = %d, count 1), the statement the point (t = 0, count 1); the execution part of this check reports such a database with both answers when its generator draws this shape" % (d, d // 15000000000 * 15000000000, d),
                      "replay": "harness logqlsql --cases <file with this case>"})
    elif short_bad:
        worst = min(short_bad, key=lambda c: len(c["query"]))
        ck.violation({"property": "C08", "part": "every_stage_takes_effect", "kind": "a pipeline stage written in the query has no effect: the plan reads the 15-second roll-up table, which holds neither lines nor extracted labels",
                      "case": witness_rows(worst, "m15_representable (model/LogqlMetricSem.v) is false for this query, yet the SQL selects FROM metrics_15s"),
                      "sql": worst["sql"][0][:3000],
                      "failing_input": "any database in which the dropped stage rejects a line or changes a label set, e.g. one stream matching the selector with two lines of which the stage keeps one: the reference counts 1 line per window, the SQL counts 2",
                      "replay": "harness logqlsql --cases <file with this case>"})
    # ---- spec oracle 1b: a shortcut plan restricts the fingerprints by every label filter of the pipeline
    lf_bad = [c for c in allc if c.get("sql") and RE_M15.search(c["sql"][0]) and c.get("n_label_filters") is not None
              and len(set(re.findall(r"subsel_\d+", c["sql"][0]))) != c["n_label_filters"]]
    ck.obligation("spec oracle: a plan on metrics_15s applies every label filter of the pipeline to the fingerprint selection", not lf_bad,
                  "; ".join(c["query"] for c in lf_bad[:3]))
    if lf_bad:
        worst = min(lf_bad, key=lambda c: len(c["query"]))
        ck.violation({"property": "C08", "part": "every_stage_takes_effect", "kind": "a label filter written in the query has no effect on the plan that reads the 15-second roll-up table",
                      "case": witness_rows(worst, "%d label-filter stage(s) in the pipeline, %d fingerprint sub-selections in the SQL" % (
                          worst["n_label_filters"], len(set(re.findall(r"subsel_\d+", worst["sql"][0]))))),
                      "sql": worst["sql"][0][:3000],
                      "failing_input": "two streams matching the selector of which the label filter keeps one, one line each in one window: the reference reports one series, the SQL two",
                      "replay": "harness logqlsql --cases <file with this case>"})
    # ---- spec oracle 1d: no SQL for a pipeline with a stage the planners have no select for (label_format)
    lfmt_bad = [c for c in allc if c.get("sql") and (c.get("facts") or {}).get("label_format")]
    ck.obligation("spec oracle: a pipeline with a label_format stage is refused by the ClickHouse planners, never planned without it", not lfmt_bad,
                  "; ".join(c["query"] for c in lfmt_bad[:3]))
    if lfmt_bad:
        worst = min(lfmt_bad, key=lambda c: len(c["query"]))
        ck.violation({"property": "C08", "part": "every_stage_takes_effect", "kind": "a label_format stage written in the query has no effect: the SQL is the SQL of the query without it",
                      "case": witness_rows(worst, "the pipeline holds a label_format stage; no select of the statement renames or adds a label"), "sql": worst["sql"][0][:3000],
                      "failing_input": "two streams {a=\"b\",l=\"1\"} and {a=\"b\",l=\"2\"} with one line each in one window and `| label_format x=l` followed by `sum by (x)`: the reference reports two series x=1, x=2, the SQL one series with an empty label set",
                      "replay": "harness logqlsql --cases <file with this case>"})
    # ---- spec oracle 1c: HAVING only in a select that aggregates (ClickHouse rejects it otherwise): a comparison after
    # topk/bottomk must filter the rows of TopKPlanner's select, i.e. mean value <op> x, in a valid statement
    def having_without_group(sql):
        for piece in sql.split(" SELECT ")[1:]:
            k = piece.find(" HAVING ")
            if k >= 0 and " GROUP BY " not in piece[:k]:
                return True
        return False
    hv_bad = [c for c in allc if c.get("sql") and having_without_group(c["sql"][0])]
    ck.obligation("spec oracle: HAVING appears only in selects with GROUP BY", not hv_bad, "; ".join(c["query"] for c in hv_bad[:3]))
    if hv_bad:
        worst = min(hv_bad, key=lambda c: len(c["query"]))
        ck.violation({"property": "C08", "part": "logql_metric_correct", "kind": "the comparison is planned as HAVING on a select that performs no aggregation: ClickHouse rejects the statement, the query has no result",
                      "case": witness_rows(worst, "a select with HAVING and without GROUP BY"), "sql": worst["sql"][0][:3000],
                      "failing_input": "any database: the statement is not valid ClickHouse SQL (documentation of the HAVING clause)",
                      "replay": "harness logqlsql --cases <file with this case>"})
    # ---- spec oracle 1e: the series key of a range aggregation is the label set the pipeline leaves (defect drop-keeps-fingerprint, repaired)
    st_hits = [c for c in allc if c.get("sql") and stale_fingerprint_grouping(c["sql"][0])]
    ck.extra["drop_stale_fingerprint_hits"] = len(st_hits)
    if st_hits:
        worst = min(st_hits, key=lambda c: len(c["query"]))
        if "drop-keeps-fingerprint" in known:
            ck.report_known("drop-keeps-fingerprint", "%s (%d of %d planned queries): the select of the drop stage rewrites labels and keeps fingerprint, the range aggregation groups by it" % (
                worst["query"], len(st_hits), sum(1 for c in allc if c.get("sql"))))
        else:
            ck.obligation("spec oracle: a range aggregation groups by a fingerprint of the labels the pipeline leaves", False, worst["query"])
            ck.violation({"property": "C08", "part": "output_series_are_grouped_label_sets", "kind": "a drop stage rewrites the labels and does not re-fingerprint the line with the hash of the names and values of the remaining labels; the range aggregation groups by that fingerprint",
                          "case": witness_rows(worst, "select with mapFilter((k,v) -> k!=...) as labels and no " + FP_FULL + " before GROUP BY fingerprint, timestamp_ns"), "sql": worst["sql"][0][:3000],
                          "failing_input": "two streams that differ only in a dropped label (stale fingerprint: two series with one label set instead of one) resp. two streams that differ in the value of a label that is kept (fingerprint of the names only: one series for two label sets), one line each in one window (corpus witness id 12; theorem drop_stage_merges_equal_streams states the repaired behaviour)",
                          "replay": "harness logqlsql --cases <file with this case>"})
    # ---- spec oracle 2: aggregate fragments read back from the implementation's SQL
    lra, agg = observations(allc)
    lv, av, cnt = eval_observations(ck, lra, agg)
    if lv is None:
        ck.obligation("observed aggregate fragments judged inside Coq", False, str(cnt)[-1500:])
        return
    bad_l = [(o, lv[(o["unwrapped"], o["f"], o["dur"], o["bucket"], o["value"])]) for o in lra if (o["unwrapped"], o["f"], o["dur"], o["bucket"], o["value"]) in lv]
    bad_a = [(o, av[(o["f"], o["value"])]) for o in agg if (o["f"], o["value"]) in av]
    byid = {c["id"]: c for c in allc}
    # a fragment the function table of the query admits no reading for (function without unwrap stage etc.) is verdict 1
    # only when the reference is defined: spec_eval = None gives 1 as well, so restrict to recognised functions
    real_l = [(o, v) for o, v in bad_l if v in (2, 3)]
    unk_l = [(o, v) for o, v in bad_l if v == 1 and ((o["unwrapped"] and o["f"] not in ("count_over_time", "bytes_rate", "bytes_over_time", "absent_over_time")) or
                                                     (not o["unwrapped"] and o["f"] in ("rate", "count_over_time", "bytes_rate", "bytes_over_time")))]
    ck.obligation("spec oracle: every range-aggregation fragment of the implementation (%d distinct) evaluates to the reference function on the witness window and divides the timestamp by the range" % cnt[0],
                  not real_l and not unk_l, "; ".join("%s: %s (verdict %d)" % (byid[o["id"]]["query"], o["value"], v) for o, v in (real_l + unk_l)[:3]))
    ck.obligation("spec oracle: every vector-aggregation fragment of the implementation (%d distinct) is the aggregate named in the query" % cnt[1],
                  not bad_a, "; ".join("%s: %s (verdict %d)" % (byid[o["id"]]["query"], o["value"], v) for o, v in bad_a[:3]))
    why = {1: "the fragment is not one the model knows", 2: "the fragment computes another function than the reference on the witness window",
           3: "the timestamp is divided by something else than the range duration"}
    if real_l:
        o, v = min(real_l, key=lambda x: len(byid[x[0]["id"]]["query"]))
        c = byid[o["id"]]
        ck.violation({"property": "C08", "part": "logql_metric_correct", "kind": why[v],
                      "case": witness_rows(c, "range aggregation %s over [%d ns]%s" % (o["f"], o["dur"], " (unwrapped)" if o["unwrapped"] else "")),
                      "observed_fragment": o["value"], "observed_window_divisor": o["bucket"],
                      "failing_input": ("one stream matching the selector with the four lines 'abc', '', 'defgh', 'ij' at timestamps 10, 20, 30, 40 of one window"
                                        if not o["unwrapped"] else "one stream with four samples (ts, value) = (10,3) (20,1) (30,7) (40,2) in one window") +
                                       ": the observed fragment and the reference function (model/LogqlMetricSem.v range_fn / urange_fn) give different values (wit_entries / wit_samples, lra_obs_verdict)"
                                       if v == 2 else "an entry at timestamp = (range duration) ns: the reference puts it into the second window, the SQL into window %s" % ("0" if o["bucket"] > o["dur"] else "of another start"),
                      "replay": "harness logqlsql --cases <file with this case>"})
    elif bad_a:
        o, v = min(bad_a, key=lambda x: len(byid[x[0]["id"]]["query"]))
        c = byid[o["id"]]
        ck.violation({"property": "C08", "part": "logql_metric_correct", "kind": "vector aggregation: " + why.get(v, ""),
                      "case": witness_rows(c, "vector aggregation %s" % o["f"]), "observed_fragment": o["value"],
                      "failing_input": "four series with the values 3, 1, 7, 2 at one timestamp and one grouped label set: the observed aggregate differs from %s of them" % o["f"],
                      "replay": "harness logqlsql --cases <file with this case>"})
    elif unk_l:
        o, v = unk_l[0]
        ck.violation({"property": "C08", "part": "logql_metric_correct", "kind": why[1], "case": witness_rows(byid[o["id"]], ""), "observed_fragment": o["value"]}, no_input=True)
    # ---- coverage
    hist = {}
    distinct = set()
    for c in allc:
        for k in set(c.get("class") or []):
            hist[k] = hist.get(k, 0) + 1
        if c.get("sql"):
            distinct.add(c["query"] + json.dumps(c["ctx"], sort_keys=True))
    ck.coverage["evaluations"] += len(allc)
    ck.coverage["distinct_nontrivial"] += len(distinct)
    ck.extra["metric_query_classes"] = hist
    ck.extra["metric_outcomes"] = {k: sum(1 for c in allc if (c.get("err") or "ok") == k) for k in {(c.get("err") or "ok") for c in allc}}
    ck.extra["shortcut_taken"] = sum(1 for c in allc if c.get("sql") and RE_M15.search(c["sql"][0]))
    ck.extra["judged_fragments"] = {"range": cnt[0], "vector": cnt[1]}
    ck.add_samples([{"query": c["query"], "ctx": c["ctx"], "sql_head": (c.get("sql") or [c.get("err_text", "")])[0][:200]} for c in cases[:3]])



# ---------------------------------------------------------------------- execution of the statements on databases
def unhex(h):
    return bytes.fromhex(h).decode("utf8", "replace")


def parse_exec_rows(txt):
    if txt == "-":
        return None
    out = []
    for r in txt.split(";") if txt else []:
        if r == "?":
            out.append("row without labels/timestamp_ns/value")
            continue
        l, ts, v = r.split(",")
        out.append({"labels": {unhex(kv.split("=")[0]): unhex(kv.split("=")[1]) for kv in l.split("&")} if l else {}, "ts": int(ts), "value": v})
    return out


class ExecRunner:
    """model/LogqlMetricExec.impl_case (the implementation's statement, parsed back) resp. exec_case (the model's statement) over
    (script, ctx, databases) through the OCaml extraction; extracted once per check run, the case file is compiled to bytecode
    (large terms: ocamlopt takes ~0.1 s per case)"""

    def __init__(self, ck):
        import vcheck
        self.ck = ck
        self.dir = os.path.join(vcheck.BUILD, "ocaml", vcheck.repo_tag(), "logqlx_%s_%d" % (ck.pid, os.getpid()))
        self.ready = False

    def prepare(self):
        import shutil
        import vcheck
        if self.ready:
            return 0, ""
        os.makedirs(self.dir, exist_ok=True)
        rc, out = vcheck.sh(["coqc", "-R", vcheck.COQ, "Qryn", "-w", "-extraction", "-o", os.path.join(self.dir, "ExtractLogqlExec.vo"),
                             os.path.join(vcheck.COQ, "extract", "ExtractLogqlExec.v")], cwd=self.dir, timeout=600)
        if rc != 0:
            return rc, "extraction failed: " + out[-2000:]
        shutil.copy(os.path.join(vcheck.VERIF, "ocaml", "logqlx_driver.ml"), os.path.join(self.dir, "driver.ml"))
        rc, out = vcheck.sh(["sh", "-c", "ulimit -s unlimited 2>/dev/null; exec ocamlfind ocamlc -w -a -c logqlexec.mli logqlexec.ml"], cwd=self.dir, timeout=600)
        if rc != 0:
            return rc, "ocaml build of the extraction failed: " + out[-2000:]
        self.ready = True
        self.ck.checker_cmds.append("coqc extract/ExtractLogqlExec.v -> ocamlc -> run (the implementation's metric statements, parsed back from their text, executed by SqlEvalAgg over generated databases, compared with metric_ref_db)")
        return 0, ""

    def run(self, name, cases, timeout=1200):
        import time
        import vcheck
        t = time.time()
        rc, out = self.prepare()
        if rc != 0:
            return rc, out
        chunks = []
        for k in range(0, len(cases), 25):
            chunks.append("let chunk%d = [\n %s]\n" % (k // 25, ";\n ".join("(%d, %s, %s, %s, %s, %s)" % (
                c["id"], c["script_ml"], c.get("script1_ml") or c["script_ml"], c["ctx_ml"], c["dbs_ml"],
                ("Some (%s)" % c["sql_tree_ml"]) if c.get("sql_tree_ml") else "None") for c in cases[k:k + 25])))
        txt = "".join(chunks) + "let cases = List.concat [" + "; ".join("chunk%d" % i for i in range(len(chunks))) + "]\n"
        prelude = open(os.path.join(vcheck.VERIF, "ocaml", "prelude.ml")).read()
        open(os.path.join(self.dir, "cases.ml"), "w").write("open Logqlexec\n%s\n%s\n" % (prelude, txt))
        rc, out = vcheck.sh(["sh", "-c", "ulimit -s unlimited 2>/dev/null; exec ocamlfind ocamlc -w -a -o run logqlexec.cmo cases.ml driver.ml"], cwd=self.dir, timeout=timeout)
        if rc != 0:
            return rc, "ocaml build failed: " + out[-3000:]
        tb = time.time() - t
        rc, out = vcheck.sh(["sh", "-c", "ulimit -s unlimited 2>/dev/null; exec ./run"], cwd=self.dir, timeout=timeout)
        self.ck.log("ocaml eval %s rc=%d (extract+build %.1fs, total %.1fs)" % (name, rc, tb, time.time() - t))
        return rc, out

    def close(self):
        import shutil
        shutil.rmtree(self.dir, ignore_errors=True)


def parse_exec_out(out):
    r = {"verd": {}, "got": {}, "want": {}, "m15": {}, "vdef": {}, "wdef": {}, "text": {}, "norm": {}, "bound": {}}
    for ln in out.splitlines():
        p = ln.split(" ")
        if p[0] == "S":
            r["m15"][int(p[1])] = p[2] == "1"
        elif p[0] == "T":
            r["text"][int(p[1])] = p[2]
        elif p[0] == "N":
            r["norm"][int(p[1])] = p[2] == "1"
        elif p[0] == "B" and p[2] != "-":
            r["bound"][int(p[1])] = p[2] == "1"
        elif p[0] == "D":
            r["verd"][(int(p[1]), int(p[2]))] = (int(p[3]), int(p[4]))
            r["vdef"][(int(p[1]), int(p[2]))] = int(p[5])
        elif p[0] in ("G", "W", "F"):
            r[{"G": "got", "W": "want", "F": "wdef"}[p[0]]][(int(p[1]), int(p[2]))] = parse_exec_rows(p[3] if len(p) > 3 else "")
    return r


def harness_cases(ck, name, cases):
    """cases (query, ctx, dbs) through the real parser and planners: the lines of `logqlsql --cases`"""
    inp = os.path.join(ck.work, name + "_in.jsonl")
    outp = os.path.join(ck.work, name + "_out.jsonl")
    with open(inp, "w") as f:
        for c in cases:
            f.write(json.dumps({k: c[k] for k in ("id", "query", "ctx", "dbs") if k in c} | {"runs": 1, "metric": True}) + "\n")
    rc, out = ck.go_run("logqlsql", ["--cases", inp, "--out", outp])
    if rc != 0:
        return None
    return [json.loads(l) for l in open(outp)]


def _split_top(s, seps):
    """positions in s (outside quotes, back-quotes, parentheses, brackets) where one of the separators starts"""
    pos, depth, q, i = [], 0, None, 0
    while i < len(s):
        ch = s[i]
        if q:
            if ch == "\\" and q == '"':
                i += 1
            elif ch == q:
                q = None
        elif ch in '"`':
            q = ch
        elif ch in "([{":
            depth += 1
        elif ch in ")]}":
            depth -= 1
        elif depth == 0:
            for sp in seps:
                if s.startswith(sp, i):
                    pos.append(i)
                    break
        i += 1
    return pos


def query_reductions(q):
    """smaller variants of a metric query, by crude text surgery: every candidate goes through the real parser and planners and the
    execution again, so a candidate that is no query (or no longer fails) is simply not taken"""
    out = []
    q = q.strip()
    m = re.search(r"\s*(==|!=|>=|<=|>|<)\s*[0-9.]+\s*$", q)
    if m and q[:m.start()].rstrip().endswith(")"):
        out.append(q[:m.start()])
    m = re.match(r"^(topk|bottomk)\s*\(\s*[0-9.]+\s*,\s*(.*)\)\s*$", q, re.S)
    if m:
        out.append(m.group(2))
    m = re.match(r"^(sum|min|max|avg|stddev|stdvar|count)(\s+(by|without)\s*\([^)]*\))?\s*\((.*)\)\s*(by|without)\s*\([^)]*\)\s*$", q, re.S) or \
        re.match(r"^(sum|min|max|avg|stddev|stdvar|count)(\s+(by|without)\s*\([^)]*\))?\s*\((.*)\)\s*$", q, re.S)
    if m:
        out.append(m.group(4))
    for mm in re.finditer(r"\s+(by|without)\s*\([^)]*\)", q):
        out.append(q[:mm.start()] + q[mm.end():])
    # the stream selector and its pipeline: {matchers} stage stage ... [range]
    a = q.find("{")
    if a >= 0:
        b = a + 1
        qq = None
        while b < len(q) and (qq or q[b] != "}"):
            if qq:
                if q[b] == "\\" and qq == '"':
                    b += 1
                elif q[b] == qq:
                    qq = None
            elif q[b] in '"`':
                qq = q[b]
            b += 1
        e = q.find("[", b)
        if b < len(q) and e > b:
            ms, ppl = q[a + 1:b], q[b + 1:e]
            cut = [0] + [x + 1 for x in _split_top(ms, [","])] + [len(ms) + 1]
            parts = [ms[cut[i]:cut[i + 1] - 1] for i in range(len(cut) - 1)]
            if len(parts) > 1:
                for i in range(len(parts)):
                    out.append(q[:a + 1] + ",".join(parts[:i] + parts[i + 1:]) + q[b:])
            st = _split_top(ppl, ["|=", "!=", "|~", "!~", "| "])
            # a stage starts at a pipe / filter operator that follows a space (the operators inside a label filter do not)
            st = [x for x in st if x == 0 or ppl[x - 1] == " "] + [len(ppl)]
            for i in range(len(st) - 1):
                out.append(q[:b + 1] + ppl[:st[i]].rstrip() + " " + ppl[st[i + 1]:] + q[e:])
    seen, res = {q}, []
    for x in out:
        x = re.sub(r"\s+", " ", x).strip()
        if x not in seen:
            seen.add(x)
            res.append(x)
    return res


def shrink_query(ck, xr, c, k):
    """greedy shrinking of the QUERY of a violating case over its database: take the first reduction (threshold, outer operator,
    grouping clause, matcher, pipeline stage removed) under which the implementation's statement still answers something else than the
    definition under both tie orders; repeat"""
    q = c["query"]
    for rnd in range(10):
        cands = query_reductions(q)
        if not cands:
            break
        hc = harness_cases(ck, "shrinkq", [{"id": j + 1, "query": x, "ctx": c["ctx"], "dbs": [c["dbs"][k]]} for j, x in enumerate(cands)])
        hc = [x for x in (hc or []) if x.get("dbs_ml") and x.get("script_ml") and x.get("sql") and x.get("sql_tree_ml")]
        if not hc:
            break
        rc, out = xr.run("logqlx_shrinkq%d" % rnd, hc)
        if rc != 0:
            break
        r = parse_exec_out(out)
        hit = [x for x in hc if r["verd"].get((x["id"], 0)) == (1, 1)]
        if not hit:
            break
        q = min(hit, key=lambda x: len(x["query"]))["query"]
    return q


def shrink_db(ck, xr, c, k, r0):
    """greedy shrinking of the database of a violating case: drop one stored line or one series (with its lines) at a time while
    the implementation's statement still answers something else than the definition under BOTH tie orders"""
    db = c["dbs"][k]
    got, want = r0["got"].get((c["id"], k)), r0["want"].get((c["id"], k))
    for rnd in range(16):
        cands = [{"series": db["series"], "samples": db["samples"][:j] + db["samples"][j + 1:]} for j in range(len(db["samples"]))]
        cands = [{"series": db["series"][:j] + db["series"][j + 1:], "samples": [x for x in db["samples"] if x["fp"] != s["fp"]]}
                 for j, s in enumerate(db["series"])] + cands
        if not cands:
            break
        hc = harness_cases(ck, "shrink", [{"id": 1, "query": c["query"], "ctx": c["ctx"], "dbs": cands}])
        if not hc or not hc[0].get("dbs_ml") or not hc[0].get("script_ml"):
            break
        rc, out = xr.run("logqlx_shrink%d" % rnd, hc)
        if rc != 0:
            break
        r = parse_exec_out(out)
        hit = [j for j in range(len(cands)) if r["verd"].get((1, j)) == (1, 1)]
        if not hit:
            break
        db, got, want = cands[hit[0]], r["got"].get((1, hit[0])), r["want"].get((1, hit[0]))
    return db, got, want


def judge_exec(ck, xr, run, label):
    """executes the cases, returns (parsed output, histogram, differing (id, k), unevaluated (id, k), distinct non-trivial keys)"""
    rc, out = xr.run(label, run)
    if rc != 0:
        ck.obligation("metric statements executed over the databases (%s)" % label, False, out[-2000:])
        return None
    r = parse_exec_out(out)
    byid = {c["id"]: c for c in run}
    # the prepared tree IS the implementation's statement: it renders to its bytes
    tbad = []
    for c in run:
        t = r["text"].get(c["id"])
        if t == "model":
            continue
        want_b = c["sql"][0].encode("utf8", "surrogateescape")
        if t is None or t == "-" or bytes.fromhex(t) != want_b:
            c["tree_diff"] = "no rendering" if t in (None, "-") else sqltext.first_diff(bytes.fromhex(t), want_b)
            tbad.append(c)
    ck.obligation("execution (%s): render(prep(parse(statement))) = the implementation's statement, byte for byte, on the %d executed cases" % (label, len(run)),
                  not tbad, "; ".join("%s => %s" % (c["query"], c["tree_diff"]) for c in tbad[:3]))
    nbad = [c for c in run if not r["norm"].get(c["id"])]
    ck.obligation("execution (%s): the script the reader's entry point hands to the planners is norm_script (model/LogqlPlan.v) of the script as written, on the %d executed cases" % (label, len(run)),
                  not nbad, "; ".join(c["query"] for c in nbad[:3]))
    bbad = [c for c in run if r["bound"].get(c["id"]) is False]
    ck.obligation("execution (%s): every WITH reference of the planner model's tree carries the query its alias is bound to in the statement (wrefs_bound: no alias capture in the model), on a sample of %d of the %d executed cases" % (label, len(r["bound"]), len(run)),
                  not bbad, "; ".join(c["query"] for c in bbad[:3]))
    tbad_ids = {c["id"] for c in tbad}
    hist = {"agree": 0, "tie-dependent": 0, "differ": 0, "not-evaluated": 0, "no-reference": 0, "shortcut-window-unaligned": 0, "text-not-rendered": 0}
    differ, noeval, distinct = [], [], set()
    # ... unless the RANGE is not made of whole 15 s slots: no window can be answered from the roll-up table then (its d-windows are
    # not unions of slots), a correct planner never reads it, and every window the reader hands over (whole ranges) is unaligned -
    # such a statement is judged like any other (seed C08-e: the range tested in whole seconds, [15500ms] took the shortcut)
    def unaligned(i):
        c = byid[i]
        if not (r["m15"].get(i) or (c.get("sql") and RE_M15.search(c["sql"][0]))):
            return False
        if ((c.get("facts") or {}).get("dur_ns") or 0) % 15000000000:
            return False
        return bool(c["ctx"]["from_ns"] % 15000000000 or c["ctx"]["to_ns"] % 15000000000)
    for (i, k), (v1, v2) in sorted(r["verd"].items()):
        c = byid[i]
        if i in tbad_ids:
            hist["text-not-rendered"] += 1
            continue
        # the roll-up table is read in whole 15 s slots below floor15(to): a window that is not made of whole slots is answered
        # from another set of lines than the definition's [from, to) (design.d/C08.md "Not covered"); judged when aligned
        if unaligned(i):
            hist["shortcut-window-unaligned"] += 1
            continue
        if v1 == 3 or v1 == 4:
            hist["no-reference"] += 1
        elif v1 == 0 and v2 == 0:
            hist["agree"] += 1
            if len(c["dbs"][k]["samples"]) >= 3:
                distinct.add(json.dumps([c["query"], c["ctx"], c["dbs"][k]], sort_keys=True))
        elif v1 == 0 or v2 == 0:
            hist["tie-dependent"] += 1      # equal timestamps / ANY row: ClickHouse promises no order among ties, the reference picks one
        elif v1 == 2 or v2 == 2:
            hist["not-evaluated"] += 1
            noeval.append((i, k))
        else:
            hist["differ"] += 1
            differ.append((i, k))
    r["unaligned"] = unaligned
    return r, hist, differ, noeval, distinct


def exec_violation(ck, xr, c, k, r, shrink=True):
    db, got, want = c["dbs"][k], r["got"].get((c["id"], k)), r["want"].get((c["id"], k))
    query = c["query"]
    if shrink:
        query = shrink_query(ck, xr, c, k)
        if query != c["query"]:
            hc = harness_cases(ck, "shrunkq", [{"id": c["id"], "query": query, "ctx": c["ctx"], "dbs": [c["dbs"][k]]}])
            if hc and hc[0].get("sql") and hc[0].get("dbs_ml"):
                c, k = dict(hc[0], dbs=[c["dbs"][k]]), 0
                rc, out = xr.run("logqlx_shrunkq", [c])
                r = parse_exec_out(out) if rc == 0 else r
        db, got, want = shrink_db(ck, xr, c, k, r)
    ov = c["ctx"].get("overlap")
    ck.violation({"property": "C08", "part": "logql_metric_correct", "kind": "the implementation's statement, executed over the database, answers other series / values than the definition" + (
                      " - the statement of a request (logql_transpiler_v2.Transpile + chain[0].Process, window [from_ns, to_ns - range] widened by FixPeriodPlanner) during whose Process call a second request with the byte-identical query text and the window ctx.overlap = %s was transpiled and processed completely (harness/cmd/logqlsql/overlap.go); without ctx.overlap the same request is answered alone" % ov if ov else ""),
                  "case": {"query": c["query"], "ctx": c["ctx"], "db": db}, "sql": c["sql"][0][:6000],
                  "got_from_statement": got, "expected_by_definition": want,
                  "failing_input": "the database of this case (series / stored lines as listed; shrunk greedily: first the query - threshold, outer operator, grouping clause, matcher or pipeline stage removed while the answers still differ -, then the database: dropping any one line or series makes the two answers equal), query and context as given",
                  "replay": "bin/check C08 --replay <this file>: the query goes through the real parser and planners again, the statement they print is parsed back and executed over the recorded database (model/SqlEvalAgg.v) and compared with metric_ref_db; or send the query to a reader over a ClickHouse holding these rows"})


def with_members(sql):
    """(alias, body) of the members of the WITH list a statement starts with (text level: balanced parentheses outside quotes)"""
    out = []
    if not sql.startswith("WITH "):
        return out
    i = 5
    while True:
        m = re.compile(r"([A-Za-z_][A-Za-z_0-9]*) as \(").match(sql, i)
        if not m:
            return out
        j, depth, q = m.end(), 1, None
        while j < len(sql) and depth:
            ch = sql[j]
            if q:
                if ch == "\\":
                    j += 1
                elif ch == q:
                    q = None
            elif ch in "'`\"":
                q = ch
            elif ch == "(":
                depth += 1
            elif ch == ")":
                depth -= 1
            j += 1
        out.append((m.group(1), sql[m.end():j - 1]))
        if sql[j:j + 1] != ",":
            return out
        i = j + 1


def self_reading_with(sql):
    """the alias of a WITH member whose own select reads FROM / JOINs that alias (ClickHouse resolves the name to the member itself:
    the statement is rejected), or None"""
    for name, body in with_members(sql):
        if re.search(r"(?:FROM|JOIN) %s(?: |$)" % re.escape(name), body):
            return name
    return None


def run_exec(ck, replay=None):
    """the IMPLEMENTATION's statement - the text the real planners print, parsed back into the tree of model/Sql.v, every WITH
    reference bound by alias to the member of the statement's own WITH list - is executed over small databases by
    model/SqlEvalAgg.v and compared with the reference over the stored data"""
    ok, out = ck.coq_make(["model/LogqlMetricExec.vo", "model/LogqlCases.vo"])
    if not ok:
        ck.obligation("execution model builds", False, out[-1500:])
        return
    if replay is not None:
        cases = harness_cases(ck, "replay", [replay])
        if not cases:
            ck.obligation("replay: harness logqlsql --cases ran", False, "")
            return
    else:
        outp = os.path.join(ck.work, "logqlsql_metricdb.jsonl")
        rc, out = ck.go_run("logqlsql", ["--mode", "metricdb", "--seed", ck.seed, "--n", ck.n(130, 3000), "--dbs", 2, "--out", outp], timeout=1800)
        if rc != 0:
            ck.obligation("harness logqlsql --mode metricdb ran", False, out[-1500:])
            return
        cases = [json.loads(l) for l in open(outp)]
        corpus = os.path.join(CORPUS, "exec.jsonl")
        if os.path.exists(corpus):
            outc = os.path.join(ck.work, "logqlsql_exec_corpus.jsonl")
            rc, out = ck.go_run("logqlsql", ["--cases", corpus, "--out", outc])
            if rc == 0:
                wit = [json.loads(l) for l in open(outc)]
                for c in wit:
                    c["id"] = 3000000 + c["id"]
                    c["class"] = (c.get("class") or []) + ["corpus"]
                cases = wit + cases
    # ---- spec oracle: no WITH member reads from its own alias (two WITH objects under one alias in one statement: the printer keeps one,
    # every reference - its own included - resolves to it; seen when overlapping requests share planner state)
    selfw = [(c, self_reading_with(c["sql"][0])) for c in cases if c.get("sql")]
    selfw = [(c, a) for c, a in selfw if a]
    ck.obligation("spec oracle: no member of a statement's WITH list selects from its own alias (%d statements)" % sum(1 for c in cases if c.get("sql")),
                  not selfw, "; ".join("%s => %s" % (c["query"], a) for c, a in selfw[:3]))
    if selfw:
        c, a = min(selfw, key=lambda x: (len(x[0]["query"]), len(x[0]["sql"][0])))
        ov = c["ctx"].get("overlap")
        ck.violation({"property": "C08", "part": "logql_metric_correct", "kind": "the WITH member %s of the statement selects FROM %s, i.e. from itself: ClickHouse rejects the statement, the query has no result" % (a, a) + (
                          " - the statement of a request during whose Process call a second request with the byte-identical query text and the window ctx.overlap = %s was transpiled and processed completely (harness/cmd/logqlsql/overlap.go): two WITH objects carry one alias" % ov if ov else ""),
                      "case": {"query": c["query"], "ctx": c["ctx"], "db": (c.get("dbs") or [{"series": [], "samples": []}])[0]}, "sql": c["sql"][0][:6000],
                      "failing_input": "any database (the one of this case included): the statement is not valid ClickHouse SQL, the definition answers the series of the matching entries",
                      "replay": "bin/check C08 --replay <this file>"})
    # tie of the planner MODEL (the theorems speak about its statement): byte for byte on every executed case
    usable, mism, _ = sqltext.compare_metric(ck, cases, name="logqlm_exec")
    ck.obligation("correspondence on the %d executed cases: the model's statement is the implementation's statement, byte for byte" % len(usable),
                  mism is not None and not mism, "; ".join("%s => %s" % (c["query"], c.get("diff")) for c in (mism or [])[:3]))
    if mism:
        ck.metric_mismatch_cases = getattr(ck, "metric_mismatch_cases", []) + mism
    # what is EXECUTED is the implementation's own statement: its text parsed back (harness/sqlparse + impltree.go), every WITH
    # reference bound by alias to the member of the statement's WITH list (LogqlSemCheck.prep); whether the model's text agrees
    # plays no part in it. A statement whose text does not parse falls back to the model's statement when that is byte-identical.
    bad_ids = {c["id"] for c in (mism or [])}
    run = [c for c in usable if c.get("sql") and c.get("dbs_ml") and (c.get("sql_tree_ml") or c["id"] not in bad_ids)]
    unparsed = [c for c in run if not c.get("sql_tree_ml")]
    ck.obligation("execution: the text of every executed statement parses back into the tree of model/Sql.v (%d of %d)" % (len(run) - len(unparsed), len(run)),
                  not unparsed, "; ".join("%s => %s" % (c["query"], c.get("sql_tree_err")) for c in unparsed[:3]))
    xr = ExecRunner(ck)
    try:
        exec_judged(ck, xr, run, replay is not None)
    finally:
        xr.close()


def exec_judged(ck, xr, run, is_replay):
    res = judge_exec(ck, xr, run, "replay" if is_replay else "logqlx")
    if res is None:
        return
    r, hist, differ, noeval, distinct = res
    byid = {c["id"]: c for c in run}
    verd, got, vdef, wdef, m15 = r["verd"], r["got"], r["vdef"], r["wdef"], r["m15"]
    ck.extra["exec_verdicts"] = hist
    cls = {}
    for c in run:
        for x in set(c.get("class") or []):
            cls[x] = cls.get(x, 0) + 1
    ck.extra["exec_query_classes"] = cls
    nonascii = lambda x: bool(x.get("line_hex")) or any(ord(ch) > 127 for ch in x.get("line", ""))
    ck.extra["exec_lines"] = {"stored": sum(len(d["samples"]) for c in run for d in c["dbs"]),
                              "multi_byte": sum(1 for c in run for d in c["dbs"] for x in d["samples"] if nonascii(x)),
                              "ill_formed_utf8": sum(1 for c in run for d in c["dbs"] for x in d["samples"] if x.get("line_hex")),
                              "databases_with_multi_byte_line": sum(1 for c in run for d in c["dbs"] if any(nonascii(x) for x in d["samples"])),
                              "databases": sum(len(c["dbs"]) for c in run)}
    ovl = [c for c in run if c["ctx"].get("overlap")]
    ck.extra["exec_overlapping_requests"] = {"cases": len(ovl), "second_request_ran_inside_process": sum(1 for c in ovl if "overlap-unreached" not in (c.get("class") or [])),
                                             "second_window_other_day": sum(1 for c in ovl if c["ctx"]["overlap"][0] // 86400000000000 != c["ctx"]["from_ns"] // 86400000000000),
                                             "statements_x_databases_judged": sum(1 for (i, k) in verd if byid[i]["ctx"].get("overlap"))}
    ck.extra["exec_shortcut_cases"] = sum(1 for i in m15 if m15[i])
    ck.extra["exec_shortcut_judged"] = sum(1 for (i, k) in verd if m15.get(i) and not r["unaligned"](i))
    ck.extra["exec_definition_checks"] = sum(1 for v in vdef.values() if v == 0)
    judged = hist["agree"] + hist["tie-dependent"] + hist["differ"]
    ck.coverage["evaluations"] += judged
    ck.coverage["distinct_nontrivial"] += len(distinct)
    ck.obligation("execution: the implementation's statement of every executed case (%d statements x databases judged) answers metric_ref_db over the stored data (SqlEvalAgg)" % judged,
                  not differ, "; ".join(byid[i]["query"] for i, _ in differ[:3]))
    ck.obligation("execution: at most 5%% of the statements fall outside the evaluated SQL subset (%d of %d)" % (len(noeval), judged + len(noeval)),
                  len(noeval) * 20 <= judged + len(noeval), "; ".join(byid[i]["query"] for i, _ in noeval[:3]))
    if differ:
        # a database of well-formed UTF-8 lines first (ClickHouse documents lengthUTF8 and friends only for those)
        i, k = min(differ, key=lambda ik: (any(x.get("line_hex") for x in byid[ik[0]]["dbs"][ik[1]]["samples"]),
                                           len(byid[ik[0]]["dbs"][ik[1]]["samples"]), len(byid[ik[0]]["query"])))
        exec_violation(ck, xr, byid[i], k, r, shrink=not is_replay)
    # ---- a vector aggregation without grouping clause, against the DEFINITION (one series {}): finding agg-without-grouping-keeps-streams
    known = ck.known_findings()
    # (a statement that already misses the reference of the script the planners got is reported above, not here)
    nog = [(i, k) for (i, k), v in sorted(vdef.items()) if v == 1 and not r["unaligned"](i) and (i, k) not in set(differ)]
    ck.extra["exec_agg_without_grouping_hits"] = len(nog)
    if nog:
        i, k = min(nog, key=lambda ik: (len(byid[ik[0]]["dbs"][ik[1]]["samples"]), len(byid[ik[0]]["query"])))
        c = byid[i]
        if "agg-without-grouping-keeps-streams" in known and (c.get("facts") or {}).get("agg_no_grouping"):
            ck.report_known("agg-without-grouping-keeps-streams", "%s over %d series: the statement answers %d series, the definition %d (%d of %d executed statements x databases)" % (
                c["query"], len(c["dbs"][k]["series"]), len(got.get((i, k)) or []), len(wdef.get((i, k)) or []), len(nog), len(verd)))
        else:
            ck.obligation("execution: a vector aggregation answers the definition's series", False, c["query"])
            ck.violation({"property": "C08", "part": "output_series_are_grouped_label_sets", "kind": "a vector aggregation without by/without keeps one series per stream; the definition has one series with the empty label set",
                          "case": {"query": c["query"], "ctx": c["ctx"], "db": c["dbs"][k]}, "sql": c["sql"][0][:3000],
                          "got_from_statement": got.get((i, k)), "expected_by_definition": wdef.get((i, k)),
                          "failing_input": "the database of this case", "replay": "bin/check C08 --replay <this file>"})
    if run:
        c = run[0]
        ck.add_samples([{"exec": {"query": c["query"], "ctx": c["ctx"], "db": c["dbs"][0], "verdict": verd.get((c["id"], 0))}}])


def run_replay(ck):
    """bin/check C08 --replay <file>: the (query, ctx, db) of an execution replay goes through the real parser and planners again;
    the statement they print is parsed back, executed over the recorded database and compared with the definition"""
    obj = json.load(open(ck.replay))
    case = obj.get("case") or {}
    if not (case.get("query") and case.get("ctx") and case.get("db")):
        ck.obligation("replay file carries a (query, ctx, db) triple (replays of the other parts name their harness command in the field `replay`)", False, "part=%s" % obj.get("part"))
        return
    if not ck.go_build("logqlsql"):
        ck.obligation("harness logqlsql builds against the repository", False, ck.build_out[-1500:])
        return
    run_exec(ck, replay={"id": 1, "query": case["query"], "ctx": case["ctx"], "dbs": [case["db"]]})


def report_text_mismatch(ck):
    """a text mismatch between planner model and implementation that no oracle and no execution turned into a failing input: the
    tie is broken, no concrete input"""
    mism = getattr(ck, "metric_mismatch_cases", [])
    if mism and not ck.violations:
        worst = min(mism, key=lambda c: len(c["query"]))
        ck.violation({"property": "C08", "part": "correspondence", "kind": "planner model and implementation print different SQL; the judged fragments and the executed statements still agree with the reference",
                      "case": witness_rows(worst, worst.get("diff", ""))}, no_input=True)


def scan_source(ck):
    """source facts the model relies on and no generated query can witness (dead branches left out of the model)"""
    import vcheck
    d = os.path.join(vcheck.REPO, "reader/logql/logql_transpiler_v2/clickhouse_planner")
    src = {f: open(os.path.join(d, f)).read() for f in os.listdir(d) if f.endswith(".go") and not f.endswith("_test.go") and not f.startswith("zz_verif")}
    assigns = [ln.strip() for f, t in src.items() for ln in t.splitlines() if re.search(r"\bfastUnwrap\s*=", ln)]
    ck.obligation("source: planner.fastUnwrap is never set (UnwrapPlanner.processTimeSeries is unreachable, not modelled)",
                  all(re.fullmatch(r"p\.fastUnwrap = p\.fastUnwrap && .*", a) for a in assigns), "; ".join(assigns))
    users = [f for f, t in src.items() if "PlannerDropSimple{" in t]
    ck.obligation("source: PlannerDropSimple is constructed nowhere (not modelled)", not users, ", ".join(users))
    spl = src.get("planner.go", "")
    m = re.search(r"func \(p \*planner\) planSpl\(\).*?\n}\n", spl, re.S)
    ck.obligation("source: planSpl answers a label_format stage with NotSupportedError (the model: plan_stage PLabelFormat = None) and LabelFormatPlanner is constructed nowhere",
                  bool(m) and bool(re.search(r"ppl\.LabelFormat != nil \{\s*(//[^\n]*\n\s*)*err = &shared\.NotSupportedError", m.group(0)))
                  and not [f for f, t in src.items() if "&LabelFormatPlanner{" in t], "")


def run(ck):
    ck.trusted += [
        "C08: the meaning of each emitted SQL shape (model/LogqlMetricSem.v sem_*: GROUP BY = partition by key, aggregates over the group in table order, any() = a member, SELECT aliases shadow source columns of the same name except inside their own definition, intDiv truncates, HAVING filters groups) is a reading of the ClickHouse documentation; it is cross-checked on every run by EXECUTING the IMPLEMENTATION's own statements: their text is parsed back into the tree of model/Sql.v (harness/sqlparse + harness/cmd/logqlsql/impltree.go: untrusted, render(prep(tree)) = text required byte for byte), every WITH reference bound by alias to the member of the statement's WITH list (LogqlSemCheck.prep), and evaluated by model/SqlEvalAgg.v (C07's SqlEval select semantics + aggregate functions parsed from the statement text + TopKPlanner's arraySlice/arraySort/groupArray select read together with its ARRAY JOIN; itself a trusted reading of ClickHouse: no ClickHouse exists in the sandbox; a Map as third tuple component is read as never deciding the sort) over generated databases against metric_ref_db - sampled, not proved; concrete oracle instances (substring match for RE2, exact decimals, k=v;k=v documents for JSON, injective byte encoding for cityHash64, symmetric polynomials for quantile/varPop/stddevPop); the metrics_15s roll-up is modelled as one count state per line in its 15 s slot",
        "C08: the main theorems compute with exact rationals; float64 is covered by separate theorems over the model 'every operation returns rnd(exact)' (float64_*: exact parts proved for integer data below 2^53, approximate parts listed in model/LogqlMetricFloat.v); varPop / stddevPop / quantile are oracles equal on both sides; cityHash64 of a label map is an injective oracle (no collisions) and insensitive to map entry order",
        "C08: the rows reaching the metric planners are tied by theorem (logql_metric_correct_from_stored_data, log_lines_are_consistent) to C07's reference log_rows2 over a database with db_ok and fingerprint = function of the label set (line filters, label filters, json stages, drops); that the SQL of the log part evaluates to those lines is C07's theorem over SqlEval.v (trusted there); timestamps are non-negative",
        "C08: the fragments judged by the spec oracle are located in the implementation's SQL by regular expressions in checks/c08.py",
    ]
    ck.coverage["rule"] += ("metric queries: grammar-driven generator (every range function x vector operator x by/without in prefix/suffix/both x comparison x topk/bottomk x quantile, "
                            "ranges and steps from {1s,5s,15s,1m,5m} plus odd ones, unwrap, json/regexp/drop/label stages, shortcut-friendly pipelines) under random contexts; "
                            "non-trivial = the real planners produced SQL; distinct by (query, context). post-processors: random batches of window-start rows of 1-3 series "
                            "(fingerprint 0 included, zero and negative values, rows outside [from,to], off-grid timestamps), ranges/steps smaller, equal, larger; non-trivial = FixPeriod case with >= 3 rows. "
                            "execution: metric queries of the sub-grammar with a reference meaning (matchers = / =~, line filters, label filters incl. numeric and and/or, json parameters, drop, unwrap; "
                            "every range function, vector operator with and without grouping, double groupings (by/without on an unwrapped range function under a grouped vector aggregation), quantile, comparison, topk/bottomk (long ranges, half of them over plain selectors); ranges 5s-1m, steps 1s-2m; half of the windows on whole 15 s slots, half widened to whole ranges as FixPeriodPlanner hands them; a third of the whole-range windows is asked for through logql_transpiler_v2.Transpile + chain[0].Process while a second request with the same text and a window 1-7 days later / 1-2 days earlier is transpiled and processed completely in the middle of the first one's Process call (class overlap)) x 2 databases "
                            "(2-5 series sharing / not sharing grouped labels, 1-5 lines each on and around window and bucket bounds, other sample types; 8 of the 19 pool lines hold multi-byte UTF-8 sequences, a combining mark or ill-formed bytes); non-trivial = agreeing case with >= 3 stored lines, distinct by (query, context, database). ")
    if ck.replay:
        run_replay(ck)
        return
    ck.coq_props()
    scan_source(ck)
    # the post-processor part (one long single-threaded coqc evaluation) runs beside the SQL parts
    import threading
    cov = {"evaluations": 0, "distinct_nontrivial": 0}
    err = []

    def post():
        try:
            run_post(ck, cov)
        except Exception as e:          # reported below: a crash of the thread must not pass silently
            err.append(repr(e))
    t = threading.Thread(target=post)
    t.start()
    try:
        run_sql(ck)
        run_exec(ck)
        # line_format templates alone: text/template Parse + LineFormatPlanner.visitNodes against model/LogqlTemplate.v (builder b4-lf)
        tc = sqltext.run_tpl(ck, n_quick=1000, n_thorough=40000, corpus=os.path.join(CORPUS, "templates.jsonl"))
        ck.coverage["evaluations"] += len(tc)
        ck.coverage["distinct_nontrivial"] += len({c["tpl"] for c in tc if c.get("verdict") == "p" and "{{" in c["tpl"]})
    finally:
        t.join()
    ck.obligation("post-processor part ran to completion", not err, "; ".join(err))
    ck.coverage["evaluations"] += cov["evaluations"]
    ck.coverage["distinct_nontrivial"] += cov["distinct_nontrivial"]
    report_text_mismatch(ck)
