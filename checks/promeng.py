"""C17 part 2, end to end (a test, not a proof): PromQL range queries through the real Prometheus
engine over the real storage adapter, compared with the same engine over an in-memory reference
storage holding the same samples.

The adapter's SQL statements are answered by the reference interpreter of coq/model/PromSem.v:
  phase A  harness promeng records the statements Select sends for each generated query;
  (here)   every statement text is parsed (checks/promsel.parse_sql), validated by re-rendering and
           evaluated on the case's database by the extracted interpreter (PromCase.engine_rows);
  phase B  harness promeng runs again, the scripted driver answers each statement with those rows;
           the result matrix must equal the reference's, except for the recorded findings.
"""
import json
import os
import re

from checks import promsel as P


def oracle_gap(c):
    """match() patterns of the recorded statements that the case's regex table does not hold: the interpreter answers false for
    them by default (not RE2's answer), so a difference on such a case is reported without claiming a failing input"""
    known_p = {e["p"] for e in c.get("oracle") or []} | set(c.get("gap_computed") or [])
    pats = set()
    for s in c.get("sqls") or []:
        pats |= {P.unquote("'" + m + "'") for m in re.findall(r"match\([A-Za-z_.]+, '((?:[^'\\]|\\.)*)'\)", s)}
    return sorted(x for x in pats if x not in known_p)


def points(series):
    return {(json.dumps(s["labels"]), p["t"]): p["v"] for s in series or [] for p in s.get("points") or []}


def classify(c):
    """why got != want may be a recorded finding; None = not explained"""
    sqls = c.get("sqls") or []
    bucketed = any(" GROUP BY timestamp_ms, fingerprint" in s for s in sqls)
    filtered = any("timestamp_ms % " in s for s in sqls)
    step = c["step_ms"]
    if filtered and c["start_ms"] % step != 0:
        return "range-filter-off-grid"
    if bucketed:
        if 300000 % step != 0:
            return "step-bucket-off-grid"
        g, w = points(c.get("got")), points(c.get("want"))
        if c.get("got_err") or c.get("want_err"):
            return None
        # a sample just older than the look-back re-appears after re-stamping: additional points (bare selectors), or inside
        # `or` / `unless` / a binary operation a changed or removed point. Accepted only when, at EVERY differing evaluation time,
        # some stored sample is older than the look-back by less than one step for one of the offsets of the expression (the
        # precondition of the recorded finding). Correction of round 5: "only additional points" used to be accepted without this
        # timing test, so a whole series selected by mistake (seed C17-e: job=~"^api|canary$" also returning api-gateway) was
        # filed under the staleness edge whenever the statement was step-bucketed.
        offs = {0} | {int(n) * {"ms": 1, "s": 1000, "m": 60000, "h": 3600000, "d": 86400000}[u] for n, u in re.findall(r"offset (\d+)(ms|[smhd])", c["expr"])}
        tss = [x["ts_ns"] // 1000000 for x in c["db"]["samples"]]
        differing = {k[1] for k in set(g) | set(w) if g.get(k) != w.get(k)}
        if differing and all(any(300000 < t - o - ts < 300000 + step for ts in tss for o in offs) for t in differing):
            return "step-bucket-staleness-edge"
    return None


def run(ck):
    if not ck.go_build("promeng"):
        ck.obligation("harness promeng builds against the repository", False, ck.build_out[-1500:])
        return
    n = ck.n(80, 1500)
    pa = os.path.join(ck.work, "promeng_a.jsonl")
    rc, out = ck.go_run("promeng", ["--seed", ck.seed, "--n", n, "--out", pa], timeout=1800, env_extra={"TZ": "UTC"})
    if rc != 0:
        ck.obligation("harness promeng ran (phase A: statements recorded)", False, out[-1500:])
        return
    cases = [json.loads(ln) for ln in open(pa)]
    corpus = os.path.join(P.VERIF, "corpus", "C17", "promeng.jsonl")
    if os.path.exists(corpus):
        pc = os.path.join(ck.work, "promeng_corpus_a.jsonl")
        rc, out = ck.go_run("promeng", ["--cases", corpus, "--out", pc], env_extra={"TZ": "UTC"})
        if rc == 0:
            for i, ln in enumerate(open(pc)):
                c = json.loads(ln)
                c["id"] = 1000000 + i
                c["class"] = (c.get("class") or []) + ["corpus"]
                cases.append(c)
    usable, skipped = [], {"down-sampled": 0, "no-statement": 0, "parse-error": 0}
    lines = []
    for c in cases:
        sqls = c.get("sqls") or []
        if c.get("err"):
            skipped["parse-error"] += 1
            continue
        if not sqls:
            skipped["no-statement"] += 1
            continue
        if any("metrics_15s" in s for s in sqls):
            skipped["down-sampled"] += 1
            continue
        db = P.sx_db(c["db"])
        orc = P.sx_list(["(%s %s %s)" % (P.sx_str(e["p"]), P.sx_str(e["v"]), P.sx_bool(e["search"])) for e in c.get("oracle") or []])
        ok = True
        mine = []
        for i, s in enumerate(sqls):
            try:
                tree = P.sx_select(P.parse_sql(s))
            except (P.ParseError, IndexError, RecursionError):
                ok = False
                break
            mine.append("(rows %d %d %s %s %s %s)" % (c["id"], i, db, tree, P.sx_str(s), orc))
        if ok:
            # statement patterns the Go-made table does not hold (only a changed planner builds them): answered by PromRegex.v
            shim = {"id": c["id"], "sql": "\n".join(sqls), "oracle": c.get("oracle"), "db": c["db"]}
            g = P.gap_line(shim)
            if g:
                c["gap_patterns"] = shim["gap_patterns"]
                lines.append(g)
            lines += mine
            usable.append(c)
        else:
            c["parse_failed"] = True
    data = os.path.join(ck.work, "promeng_rows.sx")
    with open(data, "w") as f:
        f.write("\n".join(lines) + "\n")
    rc, out = ck.ocaml_eval("promeng", "ExtractPromSel.v", "promsel", 'let data_file = "%s"\n' % data, "promsel_driver.ml")
    if rc != 0:
        ck.obligation("engine statements evaluated by the extracted interpreter", False, out[-2000:])
        return
    rows = {}
    badcode = []
    for ln in out.splitlines():
        p = ln.split()
        if len(p) >= 2 and p[0] == "gap":
            for c in usable:
                if c["id"] == int(p[1]):
                    c["gap_computed"] = [x for x, okx in zip(c.get("gap_patterns") or [], p[2:]) if okx == "1"]
        if len(p) >= 4 and p[0] == "rows":
            cid, idx, code = int(p[1]), int(p[2]), int(p[3])
            if code != 0:
                badcode.append((cid, idx, code))
            rows[(cid, idx)] = [{"fp": int(a), "val": int(b), "ts": int(t)} for a, b, t in (x.split(":") for x in p[4:])]
    parse_failed = [c for c in cases if c.get("parse_failed")]
    ck.obligation("every statement of the engine runs parses, renders back and has a value under the interpreter (%d statements)" % len(lines),
                  not badcode and not parse_failed, "codes %s parse failures %s" % (badcode[:5], [c["expr"] for c in parse_failed[:3]]))
    # series selection of every statement, judged on its own (independent of the hint rewrites and of their recorded findings):
    # the fingerprints a statement answers belong to stored metric series whose labels satisfy every matcher of a selector of the
    # expression (labels.Matcher.Matches in the harness); for an expression with ONE selector and a statement without the
    # modulo filter they are exactly the matching series with a metric sample inside the statement's own [from, to) window
    wrong_sel = []
    for c in usable:
        sel = c.get("sel_fps")
        if sel is None:
            continue
        union = set(f for fps in sel for f in fps)
        for i, s in enumerate(c["sqls"]):
            got = set(r["fp"] for r in rows.get((c["id"], i), []))
            if not got <= union:
                wrong_sel.append((c, s, "answers fingerprints %s of series no selector of the expression matches" % sorted(got - union)))
                continue
            m = re.search(r"\(\(samples\.timestamp_ns\) >= \((\d+)\)\) and \(\(samples\.timestamp_ns\) < \((\d+)\)\)", s)
            if len(sel) == 1 and m and "timestamp_ms % " not in s:
                lo, hi = int(m.group(1)), int(m.group(2))
                want = set(x["fp"] for x in c["db"]["samples"] if x["fp"] in union and x["type"] in (2, 0) and lo <= x["ts_ns"] < hi)
                if got != want:
                    wrong_sel.append((c, s, "answers the series %s, the matching series with a sample in its window are %s" % (sorted(got), sorted(want))))
    ck.obligation("engine statements answer exactly series that satisfy the matchers of a selector of the expression (%d queries)" % len(usable),
                  not wrong_sel, "; ".join("%s: %s" % (c["expr"], d) for c, s, d in wrong_sel[:3]))
    if wrong_sel:
        c, s, d = min(wrong_sel, key=lambda x: (bool(oracle_gap(x[0])), len(x[0]["db"]["samples"]), len(x[0]["expr"])))
        ck.violation({"property": "C17", "part": "engine-selection", "kind": "a statement of a PromQL query " + d, "patterns_outside_oracle_table": oracle_gap(c),
                      "expr": c["expr"], "matchers": c.get("matchers"), "start_ms": c["start_ms"], "end_ms": c["end_ms"], "step_ms": c["step_ms"],
                      "database": c["db"], "sql": s, "replay": "harness promeng --cases <case line> (phase A), statement evaluated by PromCase.engine_rows"},
                     no_input=bool(oracle_gap(c)))
    pb_in = os.path.join(ck.work, "promeng_b_in.jsonl")
    with open(pb_in, "w") as f:
        for c in usable:
            d = {k: c[k] for k in ("id", "kind", "class", "expr", "start_ms", "end_ms", "step_ms", "db")}
            d["answers"] = {s: rows.get((c["id"], i), []) for i, s in enumerate(c["sqls"])}
            f.write(json.dumps(d) + "\n")
    pb = os.path.join(ck.work, "promeng_b.jsonl")
    rc, out = ck.go_run("promeng", ["--cases", pb_in, "--out", pb], timeout=1800, env_extra={"TZ": "UTC"})
    if rc != 0:
        ck.obligation("harness promeng ran (phase B: engine over adapter and over the reference storage)", False, out[-1500:])
        return
    byid = {c["id"]: c for c in usable}
    res = [json.loads(ln) for ln in open(pb)]
    known = ck.known_findings()
    hard, explained = [], {}
    nontrivial = 0
    for r in res:
        r["matchers"] = byid[r["id"]].get("matchers")
        if r.get("want"):
            nontrivial += 1
        if r.get("equal"):
            continue
        cause = classify(r)
        if cause and cause in known:
            explained[cause] = explained.get(cause, 0) + 1
            ck.report_known(cause, known[cause])
        else:
            hard.append(r)
    ck.obligation("PromQL over the adapter (statements answered by the reference interpreter) = PromQL over the reference storage, outside the recorded findings (%d queries)" % len(res),
                  not hard, "; ".join("%s [%d..%d step %d]" % (r["expr"], r["start_ms"], r["end_ms"], r["step_ms"]) for r in hard[:3]))
    if hard:
        gap_of = lambda r: oracle_gap(byid[r["id"]])
        worst = min(hard, key=lambda r: (bool(gap_of(r)), len(r["db"]["samples"]), len(r["expr"])))
        ck.violation({"property": "C17", "part": "engine", "kind": "a PromQL range query over the adapter differs from the same query over the same samples in a reference storage",
                      "expr": worst["expr"], "start_ms": worst["start_ms"], "end_ms": worst["end_ms"], "step_ms": worst["step_ms"],
                      "database": worst["db"], "got": worst.get("got"), "want": worst.get("want"),
                      "got_err": worst.get("got_err"), "want_err": worst.get("want_err"), "sqls": worst.get("sqls"),
                      "patterns_outside_oracle_table": gap_of(worst),
                      "replay": "harness promeng --cases <phase B input line> (checks/promeng.py builds the answers)"}, no_input=bool(gap_of(worst)))
    ck.coverage["evaluations"] += len(res)
    ck.coverage["distinct_nontrivial"] += nontrivial
    ck.coverage["rule"] += ("engine: generated PromQL range queries (bare / offset selectors, instant functions, aggregations, range functions with ranges 2 s..2 min, binary) "
                            "x step 1 s..60 s x start aligned to the step or not, over 2..5 series with samples every 1..15 s and holes; non-trivial = the reference result is not empty. ")
    ck.extra["promeng"] = {"queries": len(res), "equal": sum(1 for r in res if r.get("equal")), "explained": explained, "skipped": skipped}
