"""C18 -- schema initialisation survives failure at any statement and can simply be re-run.

translate/gen_scripts regenerates coq/gen/GenScripts.v from ctrl/qryn/sql/*.sql (split as getSQLFile does,
classified statement by statement).  props/C18.v: version_never_ahead, noop_when_current, rerun_converges
(generic in the statement semantics) and, over the regenerated lists, scripts_reexecutable /
rerun_converges_scripts.  Correspondence: harness/cmd/migrate runs the real maintenance.Update against a
fake ClickHouse connection with one injected failure per process start, restarts it, and the call logs and
final catalogue are compared inside Coq with model/Migrate.v (mismatches) and judged by the property's
oracle on the observations alone (spec_violations).
"""
import glob
import importlib.machinery
import importlib.util
import json
import os
import re

import vcheck
from vcheck import coq_string

HERE = os.path.dirname(os.path.abspath(__file__))
VERIF = os.path.dirname(HERE)
STREAM_ORDER = [1, 3, 2, 4, 5, 6]          # Migrate.all_streams
STREAM_FILE = {1: "log.sql", 3: "log_dist.sql", 2: "traces.sql", 4: "traces_dist.sql", 5: "profiles.sql", 6: "profiles_dist.sql"}
MAIN_CFGS = [("single", dict(cloud=False, dist=False, clustered=False)),
             ("cloud", dict(cloud=True, dist=False, clustered=False)),
             ("clustered", dict(cloud=False, dist=True, clustered=True)),
             ("cloud+clustered", dict(cloud=True, dist=True, clustered=True))]


# ---------------------------------------------------------------- error values for injected failures
# realistic ClickHouse server exceptions ("ch:<code>:<name>:<message>" -> *proto.Exception) and driver/network
# errors ("raw:<text>"); the model treats every failed call alike, so any code that reacts to one of these
# texts/codes by carrying on shows up in the observed call log
ERR_POOL = [
    "ch:159:DB::Exception:Watching task /clickhouse/task_queue/ddl/query-0000000042 is executing longer than distributed_ddl_task_timeout (=180) seconds. "
    "There are 1 unfinished hosts (0 of them are currently active), they are going to execute the query in background",
    "ch:57:DB::Exception:Table qdb18.time_series already exists. (TABLE_ALREADY_EXISTS)",
    "ch:60:DB::Exception:Table qdb18.time_series does not exist. (UNKNOWN_TABLE)",
    "ch:81:DB::Exception:Database qdb18 does not exist. (UNKNOWN_DATABASE)",
    "ch:44:DB::Exception:Cannot add column type: column with this name already exists. (ILLEGAL_COLUMN)",
    "ch:253:DB::Exception:Replica /clickhouse/tables/01/time_series/replicas/r1 already exists. (REPLICA_ALREADY_EXISTS)",
    "ch:999:DB::Exception:Coordination::Exception: Session expired (Session expired). (KEEPER_EXCEPTION)",
    "ch:241:DB::Exception:Memory limit (total) exceeded. (MEMORY_LIMIT_EXCEEDED)",
    "raw:read tcp 127.0.0.1:51234->127.0.0.1:9000: read: connection reset by peer",
    "raw:write tcp 127.0.0.1:51234->127.0.0.1:9000: write: broken pipe",
    "raw:EOF",
    "raw:driver: bad connection",
    "raw:context deadline exceeded",
    "raw:clickhouse: acquire conn timeout. you can increase the number of max open conn or the dial timeout",
]
LIT = re.compile(r'strings\.(?:Contains|HasPrefix|HasSuffix|EqualFold|Index)\(\s*[^,()]*(?:\([^()]*\))?[^,()]*,\s*"((?:[^"\\]|\\.)*)"')


def source_error_texts(repo):
    """every string literal that code under ctrl/ (and main.go) compares a text with via strings.Contains & co:
    an error carrying exactly that text is injected as well (so a newly added special case is exercised)"""
    found = []
    files = glob.glob(os.path.join(repo, "ctrl", "**", "*.go"), recursive=True) + [os.path.join(repo, "main.go")]
    for p in sorted(files):
        if p.endswith("_test.go") or not os.path.exists(p):
            continue
        src = open(p, errors="replace").read()
        if "rr" not in src:
            continue
        for m in LIT.finditer(src):
            try:
                lit = json.loads('"' + m.group(1) + '"')
            except ValueError:
                continue
            if len(lit) >= 4 and lit not in found:
                found.append(lit)
    return found


def error_pool(repo):
    pool = list(ERR_POOL)
    for lit in source_error_texts(repo):
        if not any(lit in e for e in pool):
            pool.append("raw:" + lit)
            pool.append("ch:1000:DB::Exception:" + lit)
    return pool


def load_translator():
    p = os.path.join(VERIF, "translate", "gen_scripts")
    loader = importlib.machinery.SourceFileLoader("gen_scripts_c18", p)
    spec = importlib.util.spec_from_loader("gen_scripts_c18", loader)
    mod = importlib.util.module_from_spec(spec)
    loader.exec_module(mod)
    return mod


# ---------------------------------------------------------------- statement ids
def canon(d, cloud):
    """canonical array of a translator structure as the Go side prints it for the expanded statement"""
    c = d["c"]
    if c == "CreateTable":
        repl = cloud if d["repl"] == "T" else bool(d["repl"])
        okey = ["timestamp_ns" if x == "{{.SAMPLES_ORDER_RUL}}" else x for x in d["okey"]]
        return [c, d["ine"], d["name"], d["cols"], okey, d["engine"], repl]
    if c == "CreateMV":
        return [c, d["ine"], d["name"], d["to"], d["srcs"], d["def"]]
    if c == "CreateView":
        return [c, d["ine"], d["name"], d["srcs"], d["def"]]
    if c == "DropTable":
        return [c, d["ie"], d["name"]]
    if c == "RenameTable":
        return [c, d["ie"], d["from"], d["to"]]
    if c == "AlterTable":
        cmds = []
        for a in d["cmds"]:
            cmds.append([a["a"], a["ine"], a["col"], a["alias"]] if a["a"] == "AddColumn" else [a["a"], a["key"]])
        return [c, d["name"], cmds]
    if c == "InsertInto":
        return [c, d["name"], d["key"]]
    return ["Unclassified"]


class Sids:
    def __init__(self, gen):
        self.table = {True: {}, False: {}}
        self.ids_of = {s["k"]: s["ids"] for s in gen["streams"]}
        for cloud in (True, False):
            for s in gen["streams"]:
                for d, sid in zip(s["structs"], s["ids"]):
                    if d["c"] != "Unclassified":
                        self.table[cloud].setdefault(json.dumps(canon(d, cloud)), sid)

    def of(self, stmt, cloud):
        return self.table[cloud].get(json.dumps(stmt), 0)


# ---------------------------------------------------------------- Coq rendering
RES = {"ok": "ROk", "err": "RErr", "fb": "RFBefore", "fa": "RFAfter", "fp": "RFPartial"}


def coq_event(e, sids, cloud):
    r = RES[e["r"]]
    t = e["t"]
    if t == "cv":
        return "OCreateVer %s" % r
    if t == "cvd":
        return "OCreateVerDist %s" % r
    if t == "rd":
        k = e.get("k", 0)
        return "OReadVer %d %d %s" % (k, e.get("v", 0), r) if k >= 0 else "OOther %s" % r
    if t == "iv":
        k = e.get("k", 0)
        return "OInsVer %d %d %s" % (k, e.get("v", 0), r) if k >= 0 else "OOther %s" % r
    if t == "s":
        return "OScript %d %s" % (sids.of(e["stmt"], cloud), r)
    return "OOther %s" % r


CTOR = {1: "SLog", 3: "SLogDist", 2: "STraces", 4: "STracesDist", 5: "SProfiles", 6: "SProfilesDist"}


def coq_log(log, sids, cloud, ids_of):
    """the events as Migrate.oitem terms; runs of (script i ok, version i+1 ok) pairs become OSeg (lossless)"""
    out, p = [], 0
    cur, i = None, 0
    seg = None                      # [k, from, n]

    def flush():
        nonlocal seg
        if seg:
            out.append("OSeg %s %d%%nat %d%%nat" % (CTOR[seg[0]], seg[1], seg[2]))
            seg = None
    while p < len(log):
        e = log[p]
        if e["t"] == "rd" and e["r"] == "ok":
            cur, i = e.get("k"), e.get("v", 0)
        if (e["t"] == "s" and e["r"] == "ok" and cur in ids_of and i < len(ids_of[cur]) and p + 1 < len(log)
                and sids.of(e["stmt"], cloud) == ids_of[cur][i] and ids_of[cur][i] != 0
                and log[p + 1]["t"] == "iv" and log[p + 1]["r"] == "ok" and log[p + 1].get("k") == cur and log[p + 1].get("v", 0) == i + 1):
            if seg and seg[0] == cur and seg[1] + seg[2] == i:
                seg[2] += 1
            else:
                flush()
                seg = [cur, i, 1]
            i += 1
            p += 2
            continue
        flush()
        out.append("OE (%s)" % coq_event(e, sids, cloud))
        p += 1
    flush()
    return "[" + "; ".join(out) + "]"


def coq_os(f):
    if not f:
        return "[]"
    pts = sorted([(f["n"], f["kind"], f.get("skip") or [])] + [(g["n"], g["kind"], g.get("skip") or []) for g in f.get("also") or []])
    out, pos = [], 0
    for n, kind, skip in pts:
        if n < pos:
            continue
        if f.get("dead_from") and n >= f["dead_from"]:
            break
        o = {"before": "OBefore", "after": "OAfter"}.get(kind) or "(OPartial [%s])" % "; ".join(coq_bool(b) for b in skip)
        out.append("fault_at %d%%nat %s" % (n - pos, o))
        pos = n + 1
    if f.get("dead_from"):
        out.append("repeat OOk %d%%nat ++ repeat OBefore 400%%nat" % max(0, f["dead_from"] - pos))
    return " ++ ".join(out)


def coq_strs(xs):
    return "[" + "; ".join(coq_string(x) for x in xs) + "]"


def coq_bool(b):
    return "true" if b else "false"


def coq_cat(final):
    """one host's catalogue"""
    objs = []
    for o in sorted(final["objs"], key=lambda o: o["name"].encode()):
        objs.append("(%s, {| o_kind := %s; o_engine := %s; o_repl := %s; o_cols := %s; o_okey := %s; o_to := %s; o_def := %d |})" % (
            coq_string(o["name"]), o["kind"], o["engine"], coq_bool(o["repl"]), coq_strs(o["cols"] or []), coq_strs(o["okey"] or []),
            coq_string(o["to"]), o["def"]))
    rows = ["(%s, %s)" % (coq_string(a), coq_string(b)) for a, b in final["rows"]]
    return "{| c_objs := [%s]; c_rows := [%s] |}" % ("; ".join(objs), "; ".join(rows))


def coq_vers(v):
    ks = [k for k in STREAM_ORDER if v.get(str(k))] + sorted(int(k) for k in v if int(k) not in STREAM_ORDER and int(k) >= 0)
    return "[" + "; ".join("(%d, %d)" % (k, v[str(k)]) for k in ks) + "]"


def coq_cfg(c):
    return "{| cloud := %s; dist := %s; clustered := %s |}" % (coq_bool(c["cloud"]), coq_bool(c["dist"]), coq_bool(c["clustered"]))


def eval_cases(ck, name, cases, sids):
    cats, defs = {}, []
    items = []
    for c in cases:
        cloud = c["cfg"]["cloud"]
        hosts = []
        for h in c["final"]["hosts"]:
            key = json.dumps([h["objs"], h["rows"]], sort_keys=True)
            if key not in cats:
                cats[key] = "cat_%d" % len(cats)
                defs.append("Definition %s : cat := %s." % (cats[key], coq_cat(h)))
            hosts.append(cats[key])
        runs = []
        for r in c["runs"]:
            runs.append("{| or_os := %s; or_ok := %s; or_items := %s |}" % (
                coq_os(r.get("fault")), coq_bool(r["ok"]), coq_log(r["log"], sids, cloud, sids.ids_of)))
        items.append("{| c_id := %d%%Z; c_cfg := %s; c_nhosts := %d%%nat; c_runs := [%s]; c_clean := true; c_hosts := [%s]; c_ver_tbl := %s; c_vd_tbl := %s; c_vers := %s; c_conn := [%s] |}" % (
            c["id"], coq_cfg(c["cfg"]), max(1, c.get("nhosts") or 1), ";\n    ".join(runs), "; ".join(hosts), coq_bool(c["final"]["ver_tbl"]), coq_bool(c["final"]["vd_tbl"]),
            coq_vers(c["final"]["vers"]), "; ".join("%d%%nat" % j for j in (c.get("conn") or []))))
    txt = ("From Coq Require Import List String NArith ZArith Bool.\n"
           "From Qryn Require Import model.Migrate gen.GenScripts.\nImport ListNotations.\n"
           "Open Scope string_scope.\nOpen Scope list_scope.\nOpen Scope N_scope.\n"
           + "\n".join(defs) + "\n"
           "Definition cases : list (case) := [\n  " + ";\n  ".join(items) + "].\n"
           "Definition M := Eval vm_compute in mismatches gen_scripts gen_oncluster gen_sids cases.\nPrint M.\n"
           "Definition V := Eval vm_compute in spec_violations gen_scripts gen_oncluster gen_sids cases.\nPrint V.\n")
    rc, out = ck.coq_eval(name, txt)
    if rc != 0:
        return None, None, out
    flat = " ".join(out.split())
    m = re.search(r"M = (.*?) : list Z", flat)
    v = re.search(r"V = (.*?) : list \(Z \* N\)", flat)
    if not m or not v:
        return None, None, out
    mism = [int(x) for x in re.findall(r"-?\d+", m.group(1))]
    viol = [(int(a), int(b)) for a, b in re.findall(r"\((-?\d+)(?:%Z)?, (\d+)(?:%N)?\)", v.group(1))]
    return mism, viol, out


def coq_sched(sched):
    out, run = [], None          # run = [who, n] of plain OOk entries
    def flush():
        nonlocal run
        if run:
            out.append("repeat (%s, OOk) %d%%nat" % (coq_bool(run[0]), run[1]))
            run = None
    for e in sched or []:
        w = bool(e["w"] & 1)
        kind = e.get("kind") or ""
        if kind == "":
            if run and run[0] == w:
                run[1] += 1
            else:
                flush()
                run = [w, 1]
            continue
        flush()
        o = {"before": "OBefore", "after": "OAfter"}.get(kind) or "OPartial [%s]" % "; ".join(coq_bool(b) for b in e.get("skip") or [])
        out.append("[(%s, %s)]" % (coq_bool(w), o))
    flush()
    return " ++ ".join(out) if out else "[]"


def eval_conc(ck, name, cases, sids):
    cats, defs, items = {}, [], []
    for c in cases:
        cloud = c["cfg"]["cloud"]
        hosts = []
        for h in c["final"]["hosts"]:
            key = json.dumps([h["objs"], h["rows"]], sort_keys=True)
            if key not in cats:
                cats[key] = "cat_%d" % len(cats)
                defs.append("Definition %s : cat := %s." % (cats[key], coq_cat(h)))
            hosts.append(cats[key])
        log = "; ".join("(%s, %s)" % (coq_bool(bool(e["w"])), coq_event(e, sids, cloud)) for e in c["log"])
        after = ["{| or_os := []; or_ok := %s; or_items := %s |}" % (coq_bool(r["ok"]), coq_log(r["log"], sids, cloud, sids.ids_of)) for r in c["after"]]
        items.append("{| cc_id := %d%%Z; cc_cfg := %s; cc_nhosts := %d%%nat; cc_sched := %s;\n     cc_log := [%s];\n     cc_pnil := %s; cc_qnil := %s; cc_after := [%s];\n"
                     "     cc_hosts := [%s]; cc_ver_tbl := %s; cc_vd_tbl := %s; cc_vers := %s |}" % (
                         c["id"], coq_cfg(c["cfg"]), max(1, c.get("nhosts") or 1), coq_sched(c["sched"]), log, coq_bool(c["nil"][0]), coq_bool(c["nil"][1]),
                         "; ".join(after), "; ".join(hosts), coq_bool(c["final"]["ver_tbl"]), coq_bool(c["final"]["vd_tbl"]), coq_vers(c["final"]["vers"])))
    txt = ("From Coq Require Import List String NArith ZArith Bool.\n"
           "From Qryn Require Import model.Migrate gen.GenScripts.\nImport ListNotations.\n"
           "Open Scope string_scope.\nOpen Scope list_scope.\nOpen Scope N_scope.\n"
           + "\n".join(defs) + "\n"
           "Definition cases : list (ccase) := [\n  " + ";\n  ".join(items) + "].\n"
           "Definition M := Eval vm_compute in conc_mismatches gen_scripts gen_oncluster gen_sids cases.\nPrint M.\n"
           "Definition V := Eval vm_compute in conc_violations gen_scripts gen_oncluster gen_sids cases.\nPrint V.\n")
    rc, out = ck.coq_eval(name, txt)
    if rc != 0:
        return None, None, out
    flat = " ".join(out.split())
    m = re.search(r"M = (.*?) : list Z", flat)
    v = re.search(r"V = (.*?) : list \(Z \* N\)", flat)
    if not m or not v:
        return None, None, out
    mism = [int(x) for x in re.findall(r"-?\d+", m.group(1))]
    viol = [(int(a), int(b)) for a, b in re.findall(r"\((-?\d+)(?:%Z)?, (\d+)(?:%N)?\)", v.group(1))]
    return mism, viol, out


CONC_CODE = {1: "the merged call log of the two starters breaks file order / never-ahead, or a script whose version is recorded runs again",
             2: "after the concurrent starters an undisturbed start does not complete",
             4: "after the concurrent starters the completed initialisation ends in a different schema / versions than an uninterrupted one",
             8: "a start on the up-to-date database executed migration statements",
             16: "a process wrote a version without having just seen the script of that version complete"}
# what the recorded finding `concurrent-starters` covers: a starter holding a stale version re-runs scripts the other one
# has passed (codes 1, 2, 4); a process recording a version it did not see complete (16) or a start on the
# up-to-date database running scripts (8) is never excused
CONC_KNOWN_BITS = 1 | 2 | 4


def concurrent_part(ck, sids, seed):
    """two concurrent starters: generated schedules + the corpus witness, compared with Migrate.conc_run and judged"""
    files = []
    co_out = os.path.join(ck.work, "conc.jsonl")
    rc, out = ck.go_run("migrate", ["--seed", seed, "--conc", ck.n(40, 600), "--out", co_out])
    if ck.obligation("harness migrate ran (two concurrent starters, generated schedules)", rc == 0, out[-1500:]):
        files.append(co_out)
    for p in sorted(glob.glob(os.path.join(VERIF, "corpus", "C18", "conc_*.jsonl"))):
        o = os.path.join(ck.work, "corpus_" + os.path.basename(p))
        rc, out = ck.go_run("migrate", ["--conc-cases", p, "--out", o])
        if ck.obligation("harness migrate ran (corpus %s)" % os.path.basename(p), rc == 0, out[-1500:]):
            files.append(o)
    cases = []
    for f in files:
        for l in open(f):
            if l.strip():
                c = json.loads(l)
                c["id"] = len(cases)
                c["sched"] = c.get("sched") or []
                cases.append(c)
    if not cases:
        return cases
    mism, viol = [], []
    shard = 150
    for k in range(0, len(cases), shard):
        m, v, out = eval_conc(ck, "C18_%s_%d_conc_%d" % (vcheck.repo_tag(), os.getpid(), k // shard), cases[k:k + shard], sids)
        if m is None:
            ck.obligation("concurrent cases evaluated inside Coq", False, out[-1500:])
            return cases
        mism += m
        viol += v
    panics = [c for c in cases if any(str(e).startswith("panic") for e in c["errs"])]
    ck.obligation("correspondence: model conc_run (merged call log, return values, the solo starts afterwards, final hosts, versions) = two real "
                  "maintenance.Update goroutines under the same schedule on %d cases" % len(cases), not mism and not panics,
                  "mismatching case ids: %s; panics: %s" % (mism[:10], [c["id"] for c in panics][:5]))
    known = ck.known_findings()
    new_viol, excused = [], 0
    for cid, bits in viol:
        if bits & ~CONC_KNOWN_BITS == 0 and "concurrent-starters" in known:
            excused += 1
        else:
            new_viol.append((cid, bits))
    if excused:
        ck.report_known("concurrent-starters", known["concurrent-starters"])
    ck.extra["concurrent"] = {"cases": len(cases), "histories_showing_the_known_finding": excused,
                              "stuck_for_good": sum(1 for _, b in viol if b & 2), "schema_differs": sum(1 for _, b in viol if b & 4)}
    ck.obligation("two concurrent starters: every process records a version only after it saw that script complete, a start on the up-to-date "
                  "database runs nothing (the other clauses are the recorded finding concurrent-starters)", not new_viol,
                  "violating (case id, code bits): %s" % new_viol[:10])
    if new_viol:
        cid, bits = min(new_viol, key=lambda x: len(cases[x[0]]["sched"]))
        c = cases[cid]
        ck.violation({"property": "C18", "kind": "; ".join(t for b, t in CONC_CODE.items() if bits & b), "cfg": c["cfg"], "nhosts": c.get("nhosts"),
                      "mode": c.get("class", ""), "sched": c["sched"], "returned_nil": c["nil"], "errs": c["errs"],
                      "last_calls": c["log"][-4:], "final_versions": c["final"]["vers"],
                      "replay": "write {\"cfg\":...,\"nhosts\":...,\"sched\":...} of this file as one JSON line and run: harness migrate --conc-cases <file>"})
    elif mism:
        c = min((cases[i] for i in mism), key=lambda c: len(c["sched"]))
        ck.violation({"property": "C18", "kind": "model/implementation disagree on two concurrent starters; the oracle still accepts what was observed",
                      "cfg": c["cfg"], "sched": c["sched"], "broken": "correspondence Migrate.conc_run vs two maintenance.Update goroutines"}, no_input=True)
    return cases


def coq_bevent(e):
    return "%s %s" % ("BCreateDb" if e["t"] == "cdb" else "BShowDb", RES[e["r"]])


def eval_boot(ck, name, cases, sids):
    cats, defs, items = {}, [], []
    for c in cases:
        cloud = c["cfg"]["cloud"]
        hosts = []
        for h in c["final"]["hosts"]:
            key = json.dumps([h["objs"], h["rows"]], sort_keys=True)
            if key not in cats:
                cats[key] = "cat_%d" % len(cats)
                defs.append("Definition %s : cat := %s." % (cats[key], coq_cat(h)))
            hosts.append(cats[key])
        runs = []
        for r in c["runs"]:
            nb = 0
            while nb < len(r["log"]) and r["log"][nb]["t"] in ("cdb", "sdb"):
                nb += 1
            runs.append("{| bo_os := %s; bo_ok := %s; bo_boot := [%s]; bo_items := %s |}" % (
                coq_os(r.get("fault")), coq_bool(r["ok"]), "; ".join(coq_bevent(e) for e in r["log"][:nb]),
                coq_log(r["log"][nb:], sids, cloud, sids.ids_of)))
        items.append("{| bc_id := %d%%Z; bc_cfg := {| b_cfg := %s; b_default := %s; b_ttl0 := %s |}; bc_nhosts := %d%%nat; bc_runs := [%s];\n"
                     "     bc_hosts := [%s]; bc_ver_tbl := %s; bc_vd_tbl := %s; bc_vers := %s; bc_exists := %s |}" % (
                         c["id"], coq_cfg(c["cfg"]), coq_bool(c.get("default", False)), coq_bool(c.get("ttl0", False)), max(1, c.get("nhosts") or 1),
                         ";\n    ".join(runs), "; ".join(hosts), coq_bool(c["final"]["ver_tbl"]), coq_bool(c["final"]["vd_tbl"]),
                         coq_vers(c["final"]["vers"]), coq_bool(c.get("exists", False))))
    txt = ("From Coq Require Import List String NArith ZArith Bool.\n"
           "From Qryn Require Import model.Migrate gen.GenScripts.\nImport ListNotations.\n"
           "Open Scope string_scope.\nOpen Scope list_scope.\nOpen Scope N_scope.\n"
           + "\n".join(defs) + "\n"
           "Definition cases : list (bcase) := [\n  " + ";\n  ".join(items) + "].\n"
           "Definition M := Eval vm_compute in boot_mismatches gen_scripts gen_oncluster gen_sids cases.\nPrint M.\n"
           "Definition V := Eval vm_compute in boot_violations gen_scripts gen_oncluster gen_sids cases.\nPrint V.\n")
    rc, out = ck.coq_eval(name, txt)
    if rc != 0:
        return None, None, out
    flat = " ".join(out.split())
    m = re.search(r"M = (.*?) : list Z", flat)
    v = re.search(r"V = (.*?) : list \(Z \* N\)", flat)
    if not m or not v:
        return None, None, out
    mism = [int(x) for x in re.findall(r"-?\d+", m.group(1))]
    viol = [(int(a), int(b)) for a, b in re.findall(r"\((-?\d+)(?:%Z)?, (\d+)(?:%N)?\)", v.group(1))]
    return mism, viol, out


def boot_part(ck, sids, seed, pool_file):
    """the bootstrap path: the real ctrl.Init (InitDB, ConnectV2, UpgradeAll, upgradeDB, Update) through the real clickhouse-go
    client against the fake server of harness/cmd/migrate/tcp.go, compared with Migrate.init and judged by the oracle"""
    bo_out = os.path.join(ck.work, "boot.jsonl")
    rc, out = ck.go_run("migrate", ["--seed", seed, "--boot", ck.n(20, 400), "--errtexts", pool_file, "--out", bo_out])
    if not ck.obligation("harness migrate ran (bootstrap: ctrl.Init over the fake ClickHouse TCP server)", rc == 0, out[-1500:]):
        return []
    cases = [json.loads(l) for l in open(bo_out) if l.strip()]
    srv = [(c["id"], c["srv_errs"][:2]) for c in cases if c.get("srv_errs")]
    ck.obligation("the fake TCP server understood every packet of the real client", not srv, "protocol problems (case id, messages): %s" % srv[:3])
    mism, viol = [], []
    shard = 200
    for k in range(0, len(cases), shard):
        m, v, out = eval_boot(ck, "C18_%s_%d_boot_%d" % (vcheck.repo_tag(), os.getpid(), k // shard), cases[k:k + shard], sids)
        if m is None:
            ck.obligation("bootstrap cases evaluated inside Coq", False, out[-1500:])
            return cases
        mism += m
        viol += v
    byid = {c["id"]: c for c in cases}
    ck.obligation("correspondence: model init (bootstrap calls, Update's call log, return value / panic, final hosts, versions, database exists) = "
                  "real ctrl.Init on %d cases" % len(cases), not mism, "mismatching case ids: %s" % mism[:10])
    ck.obligation("bootstrap: the property's oracle accepts every observed history of ctrl.Init", not viol, "violating (case id, code): %s" % viol[:10])

    def replay(c, kind, **kw):
        d = {"property": "C18", "kind": kind, "entry": "ctrl.Init over the fake TCP server", "cfg": c["cfg"], "nhosts": c.get("nhosts") or 1,
             "default": c.get("default", False), "ttl0": c.get("ttl0", False), "mode": c.get("class", ""), "faults": c["faults"],
             "runs": [{"fault": r.get("fault"), "returned_nil": r["ok"], "err": r.get("err", ""), "calls": len(r["log"]), "last_calls": r["log"][-3:]} for r in c["runs"]],
             "final_versions": c["final"]["vers"],
             "replay": "write {\"cfg\":...,\"nhosts\":...,\"default\":...,\"ttl0\":...,\"faults\":...} of this file as one JSON line and run: harness migrate --boot-cases <file>"}
        d.update(kw)
        return d
    if viol:
        cid, code = min(viol, key=lambda x: (len(byid[x[0]]["faults"] or []), sum(len(r["log"]) for r in byid[x[0]]["runs"])))
        ck.violation(replay(byid[cid], SPEC_CODE.get(code, "spec violation %d" % code)))
    elif mism:
        c = min((byid[i] for i in mism), key=lambda c: (len(c["faults"] or []), sum(len(r["log"]) for r in c["runs"])))
        ck.violation(replay(c, "model/implementation disagree on the bootstrap path; the property's oracle still accepts all observed histories",
                            broken="correspondence Migrate.init vs ctrl.Init"), no_input=True)
    return cases


SPEC_CODE = {1: "a version was recorded ahead of the scripts applied (e.g. for a script whose execution failed or completed on some hosts only), or a script was sent out of file order, "
                "or a script whose version is already recorded was run again, or a statement that is in none of the streams took effect",
             2: "a start without failures did not complete (initialisation stays broken after the earlier failure)",
             3: "the completed initialisation ended in a different schema / versions than an uninterrupted one",
             4: "a start on the up-to-date database executed migration statements"}


# ---------------------------------------------------------------- pieces of the check
def first_bad(ck):
    """ask the model which statement breaks the re-execution obligation, per main configuration"""
    lines = []
    for i, (_, c) in enumerate(MAIN_CFGS):
        lines.append("Definition B%d := Eval vm_compute in first_bad_streams cat stmt (exec_ch %s) gen_scripts cat_eqb (streams_of %s) cat0.\nPrint B%d." % (
            i, coq_bool(c["cloud"]), coq_cfg(c), i))
    txt = ("From Coq Require Import List String NArith ZArith Bool.\nFrom Qryn Require Import model.Migrate gen.GenScripts.\n"
           "Import ListNotations.\n" + "\n".join(lines) + "\n")
    for i, (_, c) in enumerate(MAIN_CFGS):
        lines.append("Definition C%d := Eval vm_compute in cl_first_bad_streams cat stmt (exec_ch %s) cat_eqb (cl_scripts gen_scripts gen_oncluster %s) (streams_of %s) cat0 cat0.\nPrint C%d." % (
            i, coq_bool(c["cloud"]), coq_cfg(c), coq_cfg(c), i))
    txt = ("From Coq Require Import List String NArith ZArith Bool.\nFrom Qryn Require Import model.Migrate gen.GenScripts.\n"
           "Import ListNotations.\n" + "\n".join(lines) + "\n")
    rc, out = ck.coq_eval("C18_%s_%d_first_bad" % (vcheck.repo_tag(), os.getpid()), txt)
    res = []
    if rc != 0:
        return res, out
    flat = " ".join(out.split())
    ctor_k = {"SLog": 1, "SLogDist": 3, "STraces": 2, "STracesDist": 4, "SProfiles": 5, "SProfilesDist": 6}
    for i, (name, c) in enumerate(MAIN_CFGS):
        m = re.search(r"B%d = Some \((\w+), (\d+), (true|false)\)" % i, flat)
        if m:
            res.append({"cfg_name": name, "cfg": c, "k": ctor_k[m.group(1)], "idx": int(m.group(2)), "not_reexecutable": m.group(3) == "true"})
        # the cluster obligation: (stream, (index, on the connected host?, accepted once but not re-executable?))
        m = re.search(r"C%d = Some \((\w+), \((\d+), (true|false), (true|false)\)\)" % i, flat)
        if m and m.group(3) == "false":
            res.append({"cfg_name": name, "cfg": c, "k": ctor_k[m.group(1)], "idx": int(m.group(2)), "not_reexecutable": m.group(4) == "true",
                        "other_host": True})
    return res, out


def call_index(log, k, idx):
    """call number of the idx-th script statement executed for stream k in a log"""
    cur, n = None, 0
    for pos, e in enumerate(log):
        if e["t"] == "rd":
            cur, n = e.get("k"), e.get("v", 0)
        elif e["t"] == "s" and cur == k:
            if n == idx:
                return pos
            n += 1
    return None


def run(ck):
    ck.trusted += [
        "C18: what ClickHouse does with each statement class when executed / re-executed (Migrate.exec_ch: IF [NOT] EXISTS guards, RENAME, "
        "ADD COLUMN, MODIFY ORDER BY prefix rule, view/MV source existence) is modelled, not observed -- no ClickHouse binary in the sandbox; "
        "each statement is atomic on one host; a cluster is a list of independent host catalogues: an ON CLUSTER statement runs on any subset of the hosts "
        "(caller sees an error unless all ran and accepted it), a statement without ON CLUSTER on the connected host only; a host that catches up "
        "later (ON CLUSTER timeout, 'executes in background') does so in DDL-queue order, i.e. before the re-sent statement -- covered as a smaller skip set; "
        "replication of data / metadata between replicas of one shard is not modelled",
        "C18: the statement classifier (translate/gen_scripts, ported in harness/cmd/migrate/classify.go); column types, codecs, partition keys, "
        "TTL and SETTINGS clauses are not part of the modelled schema (names, kinds, engines, columns, sorting keys, view definitions by digest are)",
        "C18: ver rows are written to the local table of the connected host (INSERT INTO ver has no ON CLUSTER): a Replicated ver shares them among the "
        "hosts of one shard, a plain ver keeps them on that host (such hosts are taken to be one shard each); SELECT FROM ver reads that place only, "
        "SELECT FROM ver_dist reads every shard; max(ver) of an empty table is 0.  The connected host may differ from start to start in the model and the fake; "
        "the generator varies it for the LAST start only (the one that must find the database up to date) -- a resumed start through another host "
        "spreads the statements without ON CLUSTER over several hosts, which the expected-schema clause does not describe",
    ]
    env = dict(os.environ)
    env["VERIF_REPO"] = vcheck.REPO
    rc, out = vcheck.sh([os.path.join(VERIF, "translate", "gen_scripts")], env=env, timeout=120)
    ck.checker_cmds.append("translate/gen_scripts")
    if not ck.obligation("translator gen_scripts ran", rc == 0, out[-1500:]):
        return
    gen = json.load(open(os.path.join(vcheck.COQ, "gen", "GenScripts.json")))
    sids = Sids(gen)
    total = sum(len(s["texts"]) for s in gen["streams"])
    uncl = [(s["file"], i) for s in gen["streams"] for i, d in enumerate(s["structs"]) if d["c"] == "Unclassified"]
    ck.extra["statements"] = {s["file"]: len(s["texts"]) for s in gen["streams"]}
    ck.obligation("every one of the %d statements is classified" % total, not uncl, "unclassified: %s" % uncl[:8])

    # ---- the harness and the split cross-check
    if not ck.go_build("migrate"):
        ck.obligation("harness migrate builds against the repository", False, ck.build_out[-1500:])
        ck.coq_props()
        return
    sp = os.path.join(ck.work, "split.jsonl")
    rc, out = ck.go_run("migrate", ["--split", "--out", sp])
    if ck.obligation("harness migrate --split ran", rc == 0, out[-1500:]):
        go_split = {json.loads(l)["k"]: json.loads(l) for l in open(sp)}
        diffs = []
        tr = load_translator()
        for s in gen["streams"]:
            g = go_split.get(s["k"], {}).get("stmts") or []
            if g == s["texts"]:
                continue
            # texts differ: still fine if they are the same statements (e.g. a trailing ';' kept or dropped)
            gs = [tr.classify(t, tr.Ctx()) for t in g]
            if gs != s["structs"] or any(d["c"] == "Unclassified" for d in gs):
                i = next((i for i, (a, b) in enumerate(zip(gs, s["structs"])) if a != b), min(len(g), len(s["texts"])))
                diffs.append("%s: Go getSQLFile gives %d statements, translator %d; first different statement #%d" % (s["file"], len(g), len(s["texts"]), i))
        ck.obligation("the translator's split yields the statements of getSQLFile (hook) on the six embedded scripts", not diffs, "; ".join(diffs))

    # ---- theorems
    props_ok = ck.coq_props()
    if props_ok and not ck.quick():
        ck.coqchk(["Qryn.props.C18"])

    # ---- cases: corpus, witnesses of a failed re-execution obligation, generated
    cases, nid = [], [0]

    def take(path, cls=None, base=0):
        got = [json.loads(l) for l in open(path) if l.strip()]
        for c in got:
            c["id"] = base + nid[0]
            nid[0] += 1
            if cls:
                c["class"] = cls
        return got

    # clean runs of the main configurations (also give the call positions used for targeted failures)
    cl_in = os.path.join(ck.work, "clean_in.jsonl")
    with open(cl_in, "w") as f:
        for name, c in MAIN_CFGS:
            f.write(json.dumps({"id": 0, "class": name + "/clean", "cfg": c, "faults": []}) + "\n")
    cl_out = os.path.join(ck.work, "clean.jsonl")
    rc, out = ck.go_run("migrate", ["--cases", cl_in, "--out", cl_out])
    if not ck.obligation("harness migrate ran (clean runs)", rc == 0, out[-1500:]):
        return
    clean = take(cl_out)
    cases += clean
    clean_by_cfg = {json.dumps(c["cfg"], sort_keys=True): c for c in clean}

    for p in sorted(glob.glob(os.path.join(VERIF, "corpus", "C18", "*.jsonl"))):
        o = os.path.join(ck.work, "corpus_" + os.path.basename(p))
        rc, out = ck.go_run("migrate", ["--cases", p, "--out", o])
        if ck.obligation("harness migrate ran (corpus %s)" % os.path.basename(p), rc == 0, out[-1500:]):
            cases += take(o, cls="corpus")

    witnesses = []
    if not props_ok:
        bad, bout = first_bad(ck)
        ck.extra["first_bad"] = bad
        w_in = os.path.join(ck.work, "witness_in.jsonl")
        with open(w_in, "w") as f:
            for b in bad:
                log = clean_by_cfg[json.dumps(b["cfg"], sort_keys=True)]["runs"][0]["log"]
                pos = call_index(log, b["k"], b["idx"])
                if pos is None:
                    continue
                w = {"id": 0, "class": "witness", "cfg": b["cfg"], "faults": [{"n": pos, "kind": "after"}] if b["not_reexecutable"] else [],
                     "why": "%s statement #%d: %s" % (STREAM_FILE[b["k"]], b["idx"], "not re-executable after itself" if b["not_reexecutable"] else "rejected in file order")}
                if b.get("other_host"):
                    # a host that only receives the ON CLUSTER statements: let the statement complete there and not on the connected host
                    w["nhosts"] = 2
                    w["why"] += " on a host other than the connected one"
                    if b["not_reexecutable"]:
                        w["faults"] = [{"n": pos, "kind": "partial", "skip": [True, False]}]
                witnesses.append(w)
                f.write(json.dumps(w) + "\n")
        if witnesses:
            w_out = os.path.join(ck.work, "witness.jsonl")
            rc, out = ck.go_run("migrate", ["--cases", w_in, "--out", w_out])
            if rc == 0:
                cases += take(w_out, cls="witness")

    pool = error_pool(vcheck.REPO)
    pool_file = os.path.join(ck.work, "errtexts.json")
    json.dump(pool, open(pool_file, "w"))
    ck.extra["error_values"] = {"count": len(pool), "from_source": source_error_texts(vcheck.REPO)}
    tg_out = os.path.join(ck.work, "targeted.jsonl")
    rc, out = ck.go_run("migrate", ["--seed", ck.seed, "--errtexts", pool_file, "--targeted", ck.n(1, 3), "--out", tg_out])
    if ck.obligation("harness migrate ran (failures with each error value)", rc == 0, out[-1500:]):
        cases += take(tg_out)

    pa_out = os.path.join(ck.work, "partial.jsonl")
    rc, out = ck.go_run("migrate", ["--seed", ck.seed, "--partial", ck.n(3, 1), "--out", pa_out])
    if ck.obligation("harness migrate ran (ON CLUSTER statements completing on some hosts only)", rc == 0, out[-1500:]):
        cases += take(pa_out)

    el_out = os.path.join(ck.work, "elsewhere.jsonl")
    rc, out = ck.go_run("migrate", ["--seed", ck.seed, "--elsewhere", ck.n(2, 12), "--out", el_out])
    if ck.obligation("harness migrate ran (the last start reaches the cluster through another host: replica of the same shard / other shard)", rc == 0, out[-1500:]):
        cases += take(el_out)

    gen_out = os.path.join(ck.work, "gen.jsonl")
    n = ck.n(200, 3000)
    rc, out = ck.go_run("migrate", ["--seed", ck.seed, "--n", n, "--errtexts", pool_file, "--out", gen_out])
    if not ck.obligation("harness migrate ran (generated cases)", rc == 0, out[-1500:]):
        return
    cases += take(gen_out)
    if not ck.quick():
        ex_out = os.path.join(ck.work, "exhaustive.jsonl")
        rc, out = ck.go_run("migrate", ["--exhaustive", "--errtexts", pool_file, "--out", ex_out], timeout=3000)
        if ck.obligation("harness migrate ran (exhaustive first-start failures)", rc == 0, out[-1500:]):
            cases += take(ex_out)

    panics = [c for c in cases if any(r.get("panic") for r in c["runs"])]
    for c in panics[:1]:
        ck.violation({"property": "C18", "kind": "panic inside maintenance.Update", "cfg": c["cfg"], "faults": c["faults"],
                      "panic": [r.get("panic") for r in c["runs"] if r.get("panic")][0], "replay": "harness migrate --cases <file with cfg+faults>"})
    unknown = {}
    for c in cases:
        for r in c["runs"]:
            for e in r["log"]:
                if (e["t"] == "s" and sids.of(e["stmt"], c["cfg"]["cloud"]) == 0) or e["t"] == "o":
                    unknown.setdefault(json.dumps(e.get("stmt")) + "|" + e.get("text", ""), c["id"])
    ck.obligation("every statement the real Update executed is a statement of the regenerated lists (classified alike by the Go and the Python classifier)",
                  not unknown, "unknown statements (structure|text -> first case id): %s" % list(unknown.items())[:4])

    mism, viol = [], []
    shard = 220
    # coq/cases is shared by concurrent runs (other VERIF_REPO): the file name carries repository tag and pid.
    # round 7: the shards are evaluated by up to 4 coqc processes side by side (results taken in order)
    from concurrent.futures import ThreadPoolExecutor
    with ThreadPoolExecutor(max_workers=4) as ex:
        parts = list(ex.map(lambda k: eval_cases(ck, "C18_%s_%d_cases_%d" % (vcheck.repo_tag(), os.getpid(), k // shard), cases[k:k + shard], sids),
                            range(0, len(cases), shard)))
    for m, v, out in parts:
        if m is None:
            ck.obligation("cases evaluated inside Coq", False, out[-1500:])
            return
        mism += m
        viol += v
    byid = {c["id"]: c for c in cases}
    ck.obligation("correspondence: model update (call logs, return values, final catalogue, versions) = real maintenance.Update on %d cases" % len(cases),
                  not mism and not panics, "mismatching case ids: %s" % mism[:10])
    known = ck.known_findings()
    new_viol = []
    for cid, code in viol:
        c = byid[cid]
        slug = violation_slug(c, code, sids, gen)
        if slug in known:
            ck.report_known(slug, known[slug])
        else:
            new_viol.append((cid, code, slug))
    ck.obligation("the property's oracle accepts every observed history (never ahead, converges, no-op when current)", not new_viol,
                  "violating (case id, code, slug): %s" % new_viol[:10])
    if new_viol:
        cid, code, slug = min(new_viol, key=lambda x: (len(byid[x[0]]["faults"] or []), sum(len(r["log"]) for r in byid[x[0]]["runs"])))
        c = byid[cid]
        ck.violation({"property": "C18", "kind": SPEC_CODE.get(code, "spec violation %d" % code), "slug": slug, "cfg": c["cfg"], "nhosts": c.get("nhosts") or 1,
                      "shards": c.get("shards") or "host i = shard i", "connected_host_per_start": c.get("conn") or "host 0 for every start",
                      "mode": c.get("class", ""), "faults": c["faults"], "failure_points": failure_points(c, sids, gen), "why": c.get("why", ""),
                      "runs": [{"fault": r.get("fault"), "returned_nil": r["ok"], "err": r.get("err", ""), "calls": len(r["log"]),
                                "last_calls": r["log"][-3:]} for r in c["runs"]],
                      "final_versions": c["final"]["vers"],
                      "explanation": "spec_code (model/Migrate.v) = %d on the observations of the real maintenance.Update against the fake ClickHouse" % code,
                      "replay": "write {\"cfg\":...,\"nhosts\":...,\"shards\":...,\"conn\":...,\"faults\":...} of this file as one JSON line and run: harness migrate --cases <file>"})
    elif mism:
        c = min((byid[i] for i in mism), key=lambda c: (len(c["faults"] or []), sum(len(r["log"]) for r in c["runs"])))
        ck.violation({"property": "C18", "kind": "model/implementation disagree; the property's oracle still accepts all observed histories",
                      "cfg": c["cfg"], "faults": c["faults"], "broken": "correspondence Migrate.update vs maintenance.Update"}, no_input=True)

    conc_cases = concurrent_part(ck, sids, ck.seed)
    boot_cases = boot_part(ck, sids, ck.seed, pool_file)

    # coq/gen is shared by all runs: make sure no concurrent run (other VERIF_REPO) replaced the lists meanwhile
    now = json.load(open(os.path.join(vcheck.COQ, "gen", "GenScripts.json")))
    ck.obligation("coq/gen/GenScripts.* still describe this repository at the end of the run", now.get("streams") == gen.get("streams"),
                  "GenScripts.json changed during the run (concurrent check with another VERIF_REPO?)")

    # ---- coverage
    hist, distinct, points = {}, set(), set()
    for c in cases:
        hist[c["class"]] = hist.get(c["class"], 0) + 1
        fs = [f for f in (c["faults"] or []) if f]
        if fs:
            distinct.add(json.dumps([c["cfg"], fs], sort_keys=True))
            for r in c["runs"]:
                f = r.get("fault")
                if f and f["n"] < len(r["log"]):
                    e = r["log"][f["n"]]
                    points.add((json.dumps(c["cfg"], sort_keys=True), e["t"], e.get("k", 0), json.dumps(e.get("stmt")), e.get("v", 0), f["kind"]))
    for c in conc_cases:
        hist[c["class"]] = hist.get(c["class"], 0) + 1
        distinct.add(json.dumps([c["cfg"], c["sched"]], sort_keys=True))
    for c in boot_cases:
        hist[c["class"]] = hist.get(c["class"], 0) + 1
        if c["faults"]:
            distinct.add(json.dumps(["boot", c["cfg"], c.get("nhosts"), c["faults"]], sort_keys=True))
    ck.coverage["evaluations"] += len(cases) + len(conc_cases) + len(boot_cases)
    ck.coverage["distinct_nontrivial"] += len(distinct)
    ck.coverage["rule"] += ("cases = configuration (single / cloud / clustered / cloud+clustered, rarely the two inconsistent mixes; 1-3 hosts when clustered, half of the multi-host ones laid out in 1-2 shards with the last start through a random host) x 0..5 interrupted starts, "
                            "each failing one database call (drawn among the calls that start would really make; 60% after the effect, 40% before; with several hosts 40% "
                            "'completed on a random subset of the hosts, caller gets the ON CLUSTER timeout'), then two undisturbed starts; "
                            "plus, per clustered configuration, one in three (thorough: every) script statements of a first start cut short on a random host subset, half of them again at the resume statement; "
                            "*/last-start-through-* = clustered configurations on 2-3 hosts in shards {0,1} {0,0,1} {0,1,1}, the last start connected to another replica of the shard / a host of another shard, after a clean or a once-interrupted initialisation; "
                            "*/resumed-start-through-* (round 8) = the same layouts, start 1 through host 0 interrupted at a random call, the next start through the other host, the following through host 0 again (every other history: a second interruption); "
                            "thorough tier adds every call x {before, after} of a first start in the four main configurations. "
                            "concurrent/* = two maintenance.Update goroutines on one fake database under a generated schedule (stale reader / lockstep / bursts, "
                            "1 call in 400 failing), killed when the schedule ends, then two undisturbed solo starts. "
                            "boot/* = the real ctrl.Init (InitDB + UpgradeAll) through the real clickhouse-go client against a fake native-protocol server: clean starts, "
                            "database default, ttl_days 0, every bootstrap call x {before, after} x {server exception, dropped connection} on a fresh and on a half-migrated "
                            "database, plus generated histories of 1-3 interrupted starts (exceptions, dropped connections, partial ON CLUSTER), then two undisturbed starts. "
                            "non-trivial = at least one injected failure or a concurrent schedule; distinct by (configuration, failure list / schedule). ")
    ck.extra["input_distribution"] = hist
    ck.extra["distinct_failure_points_hit"] = len(points)
    ck.add_samples([{"cfg": c["cfg"], "faults": c["faults"], "returned_nil": [r["ok"] for r in c["runs"]],
                     "calls": [len(r["log"]) for r in c["runs"]], "final_versions": c["final"]["vers"]} for c in cases if c["faults"]][:4])


def failure_points(c, sids, gen):
    """(stream, statement index, call kind, failure kind, error value) of every injected failure of a case"""
    out = []
    for r in c["runs"]:
        f = r.get("fault")
        if not f:
            continue
        for g in [f] + list(f.get("also") or []):
            if g["n"] >= len(r["log"]):
                continue
            e = r["log"][g["n"]]
            cur = None
            for x in r["log"][:g["n"] + 1]:
                if x["t"] == "rd":
                    cur = x.get("k")
            pt = {"call": g["n"], "kind": g["kind"], "error": g.get("err") or "plain error value", "call_type": e["t"],
                  "stream": STREAM_FILE.get(cur if e["t"] == "s" else e.get("k", cur), "-"), "result": e["r"]}
            if e["t"] == "s":
                sid = sids.of(e["stmt"], c["cfg"]["cloud"])
                for s in gen["streams"]:
                    if s["k"] == cur and sid in s["ids"]:
                        pt["statement_index"] = s["ids"].index(sid)
                pt["statement"] = e["stmt"][:3]
            elif e["t"] == "iv":
                pt["version"] = e.get("v", 0)
            out.append(pt)
    return out


def violation_slug(c, code, sids, gen):
    """names the failing history: where the first undisturbed start got stuck"""
    if code == 3 and (c.get("nhosts") or 1) >= 2 and c["cfg"].get("clustered"):
        # round 8: starts that APPLIED script statements went through different hosts: the statements without ON CLUSTER
        # are spread over several hosts (theorem resumed_start_through_another_host_refuted); anything else stays a violation
        conn = list(c.get("conn") or [])
        conn += [0] * (len(c["runs"]) - len(conn))
        used = {conn[i] for i, r in enumerate(c["runs"]) if any(e["t"] == "s" and e.get("r") in ("ok", "fa", "fp") for e in r["log"])}
        if len(used) >= 2:
            return "resumed-start-through-another-host"
    if code in (2, 3) and len(c["runs"]) >= 2:
        conv = c["runs"][-2]
        cur = None
        for e in conv["log"]:
            if e["t"] == "rd":
                cur = e.get("k")
        last = conv["log"][-1] if conv["log"] else None
        if last and last["t"] == "s" and last["r"] == "err" and cur in STREAM_FILE:
            sid = sids.of(last["stmt"], c["cfg"]["cloud"])
            for s in gen["streams"]:
                if s["k"] == cur and sid in s["ids"]:
                    return "stuck-%s-%d" % (STREAM_FILE[cur].replace(".sql", ""), s["ids"].index(sid))
    return "code%d" % code
