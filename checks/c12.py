"""C12 -- no query can crash, hang or leak work on the read side.

1. translate/gen_goroutines_reader regenerates coq/gen/GenGoroutinesReader.v from $VERIF_REPO/reader (every `go`
   statement, effective-recover status, census of fault-capable operations); props/C12.v proves
   inventory_ok over it (an unrecovered goroutine must be allow-listed with the operations its lemma covers).
2. props/C12.v: pipeline_terminates / pipeline_never_leaks (all interleavings, all chain lengths, all node
   behaviours), their instances for the real stages, the FixPeriodPlanner arithmetic, the refutation
   (unbounded number of points => allocation failure in an unrecovered goroutine).
3. Correspondence: harness/cmd/readfuzz drives the REAL reader router in child processes over a scripted
   database/sql driver; the modelled requests (stream 1: Loki range/instant in four pipeline shapes, Tempo trace by id;
   stream 2: labels, label values, series, Tempo tags / tag values / search / TraceQL -- model/ReadFwd.v, outcome class
   AND number of SQL statements) are evaluated inside Coq: model = observed (mismatches), and the property's oracle
   on the observed class (spec_violations). Stream 4: the Pyroscope read handlers (model/ReadProf.v: class AND statements).
   Stream 5: start / end / step of Loki query_range through the float path, undefined float -> int64 conversions
   (model/ReadConv.v). Mutated / random query bytes and the remaining read endpoints are checked
   for response + liveness + goroutine census only (a TEST, labelled so in the evidence).
"""
import hashlib
import json
import os
import re
import subprocess

import vcheck
from vcheck import coq_list, coq_Z

ROOT = os.path.dirname(os.path.dirname(os.path.abspath(__file__)))
CORPUS = os.path.join(ROOT, "corpus", "C12")

HEADER = ("From Coq Require Import List ZArith Bool.\nFrom Qryn Require Import model.Pipeline model.ReadPath.\n"
          "Import ListNotations.\nOpen Scope Z_scope.\n")


# ------------------------------------------------------------------------------ observations -> class codes
def obs_code(o):
    """0 2xx, 1 4xx, 2 5xx, 3 crash, 4 leak, 5 hang, 6 abort (handler panic: net/http closes the connection)"""
    if o["outcome"] == "skipped":
        return 8
    if o.get("followup"):
        return 10
    code = obs_code_single(o)
    if code in (0, 1, 2):
        # a history: the first later request that was not answered in an orderly way decides
        for st in o.get("steps") or []:
            k = obs_code_single(st)
            if k not in (0, 1, 2):
                return k
    return code


def obs_code_single(o):
    if o["outcome"] == "crash":
        return 3
    if o["outcome"] == "hang":
        return 5
    if o["outcome"] == "abort":
        return 6
    if o.get("leaked") or o.get("rows_open", 0) > 0:
        return 4
    st = o["status"]
    if 200 <= st < 300 or st == 101:   # 101: websocket upgrade of the live tail
        return 0
    if 400 <= st < 500:
        return 1
    if 500 <= st < 600:
        return 2
    return 7


CODE_NAME = {10: "stopped-serving", 8: "skipped", 0: "2xx", 1: "4xx", 2: "5xx", 3: "crash", 4: "leak", 5: "hang", 6: "abort", 7: "other-status", 9: "model-undecided"}


def coq_param(p):
    if p["k"] == "absent":
        return "PAbsent"
    if p["k"] == "bad":
        return "PBad"
    return "(PNum %s)" % coq_Z(p["v"])


SHAPES = {"log": "(Some ShLog)", "log_json": "(Some ShLogJson)", "rate": "(Some ShRate)", "agg_json": "(Some ShAggJson)",
          "parse_error": "None"}
ROWK = {"ok": "ROk", "bad": "RBad", "nojson": "RNoJson"}
SPANK = {"ok": "SpOk", "decode_err": "SpDecodeErr", "panic": "SpPanic", "unknown": "SpUnknownType"}


def case_to_coq(c):
    m = c["model"]
    if m["ep"] == "tempo_trace":
        subj = "STrace %s" % coq_list([SPANK[k] for k in (m.get("spans") or [])])
    else:
        rows = rows_to_coq(m)
        subj = "SLoki (%s)" % req_to_coq(m, rows)
    return "mkCase %d (%s) %d" % (c["id"], subj, obs_code(c["obs"]))


def req_to_coq(m, rows):
    return "mkReq %s %s %s %d %s %s %s %s %s %s %s %s" % (
        "true" if m["ep"] == "loki_instant" else "false", "true" if m["has_query"] else "false", SHAPES[m["shape"]],
        m["dur_s"], coq_param(m["start"]), coq_param(m["end"]), coq_param(m["step"]), coq_param(m["limit"]), rows,
        coq_Z(m["fail_after"]), "true" if m["query_err"] else "false", "true" if m.get("boot_fail") else "false")


def rows_to_coq(m):
    rws = m.get("rows") or []
    base = min([r["ts"] // 10**9 for r in rws] or [0])
    return "(let b := %s in %s)" % (coq_Z(base), coq_list(
        ["row_at b %d %d %d %d %s" % (r["fp"], r["ts"] // 10**9 - base, r["ts"] % 10**9, r["val"], ROWK[r["kind"]]) for r in rws]))


# ------------------------------------------------------------------------------ float -> int64 conversions (model/ReadConv.v)
CHEADER = ("From Coq Require Import List ZArith Bool.\nFrom Qryn Require Import model.Pipeline model.ReadPath model.ReadConv.\n"
           "Import ListNotations.\nOpen Scope Z_scope.\n")


def is_conv(c):
    return bool(c.get("model")) and c["model"].get("ep") == "conv"


def cparam_to_coq(p):
    return {"absent": "FpAbsent", "bad": "FpBad", "exact": "(FpNum (FExact %s))" % coq_Z(p.get("v", 0)), "undef": "(FpNum FUndef)"}[p["k"]]


def ccase_to_coq(c):
    m = c["model"]
    anyv = lambda p: coq_Z(p.get("v", 0)) if p["k"] == "undef" else "0"
    return "mkCC %d (%s) %s %s %s %s %s %s %d" % (c["id"], req_to_coq(m["base"], rows_to_coq(m["base"])), cparam_to_coq(m["cstart"]), cparam_to_coq(m["cend"]),
                                                  cparam_to_coq(m["cstep"]), anyv(m["cstart"]), anyv(m["cend"]), anyv(m["cstep"]), obs_code(c["obs"]))


def eval_ccases(ck, name, cases):
    txt = (CHEADER + "Definition cases : list ccase := [\n  " + ";\n  ".join(ccase_to_coq(c) for c in cases) + "].\n"
           "Definition P := Eval vm_compute in map cpredicted cases.\nPrint P.\n"
           "Definition MV := Eval vm_compute in (cmismatches cases, cspec_violations cases).\nPrint MV.\n")
    rc, out = ck.coq_eval(name, txt)
    if rc != 0:
        return None, out
    flat = " ".join(out.split())
    mp = re.search(r"\bP = (\[.*?\]|nil)\s*: list Z", flat)
    mv = re.search(r"\bMV = \((\[.*?\]|nil), (\[.*?\]|nil)\)", flat)
    if not mp or not mv:
        return None, out
    ints = lambda t: [int(x) for x in re.findall(r"-?\d+", t)]
    return {"P": ints(mp.group(1)), "M": ints(mv.group(1)), "V": ints(mv.group(2))}, out


def eval_cases(ck, name, cases):
    """the model's outcome class of every case, computed by Coq (vm_compute); mismatches / spec_violations /
    predicted_violations of model/ReadPath.v are evaluated on the same list"""
    txt = (HEADER + "Definition cases : list case := [\n  " + ";\n  ".join(case_to_coq(c) for c in cases) + "].\n"
           "Definition C := Eval vm_compute in map (fun c => code_of (predicted c)) cases.\nPrint C.\n"
           "Definition MVP := Eval vm_compute in (map (fun p => c_id (fst p)) (filter (fun p => negb (Z.eqb (snd p) (c_obs (fst p)))) (combine cases C)),\n"
           "  spec_violations cases, map (fun p => c_id (fst p)) (filter (fun p => negb (spec_ok (snd p))) (combine cases C))).\nPrint MVP.\n")
    rc, out = ck.coq_eval(name, txt)
    if rc != 0:
        return None, out
    flat = " ".join(out.split())
    res = {}
    mm = re.search(r"\bC = (\[.*?\]|nil)\s*: list Z", flat)
    m2 = re.search(r"\bMVP = \((\[.*?\]|nil), (\[.*?\]|nil), (\[.*?\]|nil)\)", flat)
    if not mm or not m2:
        return None, out
    ints = lambda t: [int(x) for x in re.findall(r"-?\d+", t)]
    res["C"] = ints(mm.group(1))
    res["M"], res["V"], res["P"] = ints(m2.group(1)), ints(m2.group(2)), ints(m2.group(3))
    return res, out


FEP = {"loki_labels": "FLokiLabels", "loki_values": "FLokiValues", "loki_series": "FLokiSeries", "prom_labels": "FPromLabels",
       "prom_values": "FPromValues", "prom_series": "FPromSeries", "tempo_tags": "FTempoTags", "tempo_values": "FTempoValues",
       "tempo_tags_v2": "FTempoTagsV2", "tempo_values_v2": "FTempoValuesV2", "tempo_search_tags": "FTempoSearchTags",
       "tempo_traceql": "FTempoTraceQL"}
SEL = {"none": "SelNone", "ok": "SelOk", "bad": "SelBad"}
FHEADER = ("From Coq Require Import List ZArith Bool.\nFrom Qryn Require Import model.Pipeline model.ReadPath model.ReadFwd.\n"
           "Import ListNotations.\nOpen Scope Z_scope.\n")


def frow_to_coq(k):
    if k == "ok":
        return "FOk"
    if k == "bad":
        return "FBad"
    _, ns, nd, nt = k.split(":")
    return "FTrace %s %s %s" % (ns, nd, nt)


def is_fwd(c):
    return bool(c.get("model")) and c["model"].get("ep") == "fwd"


def fcase_to_coq(c):
    m = c["model"]
    b = lambda x: "true" if x else "false"
    cx = coq_list(["None" if v is None else "Some %s" % coq_Z(v) for v in (m.get("cx") or [])])
    req = "mkF %s %s %s %s %s %s %s %s %s %s %s" % (
        FEP[m["fep"]], coq_param(m["start"]), coq_param(m["end"]), b(m.get("aux_bad")), SEL[m["sel"]],
        coq_list([frow_to_coq(k) for k in (m.get("rows") or [])]), coq_Z(m["fail_after"]), b(m.get("query_err")), cx,
        b(m.get("cx_err")), b(m.get("boot_fail")))
    # the statement count is compared whenever the request ended in a response (also when the client went away:
    # every statement of these endpoints is issued before the first byte is written)
    stmts = c["obs"].get("stmts", -1) if c["obs"]["outcome"] == "resp" else -1
    return "mkFC %d (%s) %d %s" % (c["id"], req, obs_code(c["obs"]), coq_Z(stmts))


def eval_fcases(ck, name, cases):
    """model/ReadFwd.v on the forwarding endpoints: predicted (class, statements) per case, mismatches, spec violations"""
    txt = (FHEADER + "Definition cases : list fcase := [\n  " + ";\n  ".join(fcase_to_coq(c) for c in cases) + "].\n"
           "Definition P := Eval vm_compute in map (fun c => let '(o, n) := fpredicted c in o * 1000 + n) cases.\nPrint P.\n"
           "Definition MV := Eval vm_compute in (fmismatches cases, fspec_violations cases).\nPrint MV.\n")
    rc, out = ck.coq_eval(name, txt)
    if rc != 0:
        return None, out
    flat = " ".join(out.split())
    mp = re.search(r"\bP = (\[.*?\]|nil)\s*: list Z", flat)
    mv = re.search(r"\bMV = \((\[.*?\]|nil), (\[.*?\]|nil)\)", flat)
    if not mp or not mv:
        return None, out
    ints = lambda t: [int(x) for x in re.findall(r"-?\d+", t)]
    return {"P": ints(mp.group(1)), "M": ints(mv.group(1)), "V": ints(mv.group(2))}, out


# ------------------------------------------------------------------------------ Prometheus query endpoints (model/ReadProm.v)
PHEADER = ("From Coq Require Import List ZArith Bool.\nFrom Qryn Require Import model.Pipeline model.ReadPath model.ReadProm.\n"
           "Import ListNotations.\nOpen Scope Z_scope.\n")


def is_prom(c):
    return bool(c.get("model")) and c["model"].get("ep") == "prom"


def pexpr_to_coq(e):
    t = e["t"]
    if t == "sel":
        return "PSel"
    if t == "mat":
        return "(PMat %s)" % coq_Z(e["r"])
    if t == "call":
        return "(PCall %s)" % pexpr_to_coq(e["a"])
    if t == "bin":
        return "(PBin %s %s)" % (pexpr_to_coq(e["a"]), pexpr_to_coq(e["b"]))
    return "(PSub %s %s %s)" % (pexpr_to_coq(e["a"]), coq_Z(e.get("r", 0)), coq_Z(e.get("s", 0)))


def pcase_to_coq(c):
    m = c["model"]
    q = {"missing": "PQMissing", "noparse": "PQNoParse"}.get(m["qkind"]) or "(PQ %s)" % pexpr_to_coq(m["expr"])
    return "mkPC %d (mkPR %s %s %s %s %s %s) %d" % (c["id"], "true" if m["instant"] else "false", coq_Z(m["now"]), coq_param(m["start"]),
                                                   coq_param(m["end"]), coq_param(m["step"]), q, obs_code(c["obs"]))


def eval_pcases(ck, name, cases):
    """model/ReadProm.v: what the controller decides (0/1/2 = answers itself, 7 = hands the query to the engine)"""
    txt = (PHEADER + "Definition cases : list pcase := [\n  " + ";\n  ".join(pcase_to_coq(c) for c in cases) + "].\n"
           "Definition P := Eval vm_compute in map ppredicted cases.\nPrint P.\n"
           "Definition MV := Eval vm_compute in (pmismatches cases, pspec_violations cases).\nPrint MV.\n")
    rc, out = ck.coq_eval(name, txt)
    if rc != 0:
        return None, out
    flat = " ".join(out.split())
    mp = re.search(r"\bP = (\[.*?\]|nil)\s*: list Z", flat)
    mv = re.search(r"\bMV = \((\[.*?\]|nil), (\[.*?\]|nil)\)", flat)
    if not mp or not mv:
        return None, out
    ints = lambda t: [int(x) for x in re.findall(r"-?\d+", t)]
    return {"P": ints(mp.group(1)), "M": ints(mv.group(1)), "V": ints(mv.group(2))}, out


# ------------------------------------------------------------------------------ Pyroscope read handlers (model/ReadProf.v)
PFHEADER = ("From Coq Require Import List NArith ZArith Bool.\nFrom Qryn Require Import model.Pprof model.ProfTree model.ProfDiff model.ReadProf.\n"
            "Import ListNotations.\nOpen Scope Z_scope.\n")
PFEP = {"profile_types": "EpProfileTypes", "label_names": "EpLabelNames", "label_values": "EpLabelValues", "merge_stacktraces": "EpMergeStacktraces",
        "select_series": "EpSelectSeries", "merge_profile": "EpMergeProfile", "series": "EpSeries", "stats": "EpStats", "settings": "EpSettings",
        "analyze": "EpAnalyze", "render_diff": "EpRenderDiff"}
PFSEL = {"ok": "PsOk", "noparse": "PsNoParse", "noplan": "PsNoPlan"}
PFROW = {"ok": "PrOk", "null": "PrNull", "short": "PrShortType", "badpayload": "PrBadPayload"}


def is_prof(c):
    return bool(c.get("model")) and c["model"].get("ep") == "prof"


def s64(u):
    """a uint64 id as the N of the model (ids are compared only)"""
    return coq_Z(u)


def pfrow_to_coq(r):
    if r["k"] != "tree":
        return PFROW[r["k"]]
    rows = coq_list(["trow %s %s %s %s %s" % (s64(t["p"]), s64(t["f"]), s64(t["i"]), coq_Z(t["s"]), coq_Z(t["t"])) for t in (r.get("tree") or [])])
    fns = coq_list(["tfn %s %s" % (s64(f[0]), coq_Z(f[1])) for f in (r.get("fns") or [])])
    return "(PrTree %s %s)" % (rows, fns)


def pfside_to_coq(sd):
    return "(mkSide %s %s %s %s)" % (PFSEL[sd["sel"]], coq_list([pfrow_to_coq(r) for r in (sd.get("rows") or [])]), coq_Z(sd["fail_after"]),
                                     "true" if sd.get("query_err") else "false")


def pfcase_to_coq(c):
    m = c["model"]
    b = lambda x: "true" if x else "false"
    req = "mkPf %s %s %s %s %s %s %s %s %s" % (PFEP[m["pep"]], b(m["body_ok"]), b(m["type_ok"]), b(m["types_equal"]), pfside_to_coq(m["left"]),
                                               pfside_to_coq(m["right"]), coq_Z(m["start"]), coq_Z(m["end"]), coq_Z(m["step"]))
    stmts = c["obs"].get("stmts", -1) if c["obs"]["outcome"] == "resp" else -1
    return "mkPfC %d (%s) %d %s" % (c["id"], req, obs_code(c["obs"]), coq_Z(stmts))


def eval_pfcases(ck, name, cases):
    """model/ReadProf.v: predicted (class, statements) per case, mismatches, spec violations"""
    txt = (PFHEADER + "Definition cases : list pfcase := [\n  " + ";\n  ".join(pfcase_to_coq(c) for c in cases) + "].\n"
           "Definition P := Eval vm_compute in map (fun c => let '(o, n) := pfpredicted c in o * 1000 + n) cases.\nPrint P.\n"
           "Definition MV := Eval vm_compute in (pfmismatches cases, pfspec_violations cases).\nPrint MV.\n")
    rc, out = ck.coq_eval(name, txt)
    if rc != 0:
        return None, out
    flat = " ".join(out.split())
    mp = re.search(r"\bP = (\[.*?\]|nil)\s*: list Z", flat)
    mv = re.search(r"\bMV = \((\[.*?\]|nil), (\[.*?\]|nil)\)", flat)
    if not mp or not mv:
        return None, out
    ints = lambda t: [int(x) for x in re.findall(r"-?\d+", t)]
    return {"P": ints(mp.group(1)), "M": ints(mv.group(1)), "V": ints(mv.group(2))}, out


# ------------------------------------------------------------------------------ histories through StableSqlxDBWrapper (model/ReadPool.v)
PLHEADER = ("From Coq Require Import List ZArith Bool.\nFrom Qryn Require Import model.ReadPool.\n"
            "Import ListNotations.\nOpen Scope Z_scope.\n")
PLEV = {"ok": "EvOk", "gone": "EvOk", "rowsfail": "EvOk", "dberr": "EvDbErr", "stall": "EvGaveUp"}
BAD_CODES = (3, 4, 5, 6, 7, 10)


def is_pool(c):
    return bool(c.get("model")) and c["model"].get("ep") == "pool"


def pool_step_obs(c):
    """(class code, pool rebuilds) per answered request of the history; a healthy probe that is not served after the last
    request counts against the last request"""
    o = c["obs"]
    res = [(obs_code_single(x), x.get("rebuilds", 0)) for x in [o] + (o.get("steps") or [])]
    if o.get("followup") and res:
        res[-1] = (10, res[-1][1])
    return res


def plcase_to_coq(c):
    return "mkPlC %d %s %s" % (c["id"], coq_list([PLEV[e] for e in c["model"]["events"]]),
                               coq_list(["(%d, %s)" % (k, coq_Z(r)) for k, r in pool_step_obs(c)]))


def eval_plcases(ck, name, cases):
    """model/ReadPool.v: predicted (answered, rebuilds) per request of each history, mismatches, spec violations"""
    txt = (PLHEADER + "Definition cases : list pl_case := [\n  " + ";\n  ".join(plcase_to_coq(c) for c in cases) + "].\n"
           "Definition P := Eval vm_compute in map (fun c => fold_right (fun (p : bool * Z) (acc : Z) => acc * 100 + (if fst p then 10 else 0) + snd p) 1 (pl_predicted c)) cases.\nPrint P.\n"
           "Definition MV := Eval vm_compute in (pl_mismatches cases, pl_spec_violations cases).\nPrint MV.\n")
    rc, out = ck.coq_eval(name, txt)
    if rc != 0:
        return None, out
    flat = " ".join(out.split())
    mp = re.search(r"\bP = (\[.*?\]|nil)\s*: list Z", flat)
    mv = re.search(r"\bMV = \((\[.*?\]|nil), (\[.*?\]|nil)\)", flat)
    if not mp or not mv:
        return None, out
    ints = lambda t: [int(x) for x in re.findall(r"-?\d+", t)]
    return {"P": ints(mp.group(1)), "M": ints(mv.group(1)), "V": ints(mv.group(2))}, out


def pool_pred_text(code):
    """decode the per-request predictions packed by eval_plcases (first request = lowest two digits)"""
    res = []
    while code > 1:
        d = code % 100
        res.append("%s/%d rebuilds" % ("answered" if d >= 10 else "NOT answered", d % 10))
        code //= 100
    return res


def history_steps(c):
    top = {k: v for k, v in c.items() if k not in ("then", "obs", "model")}
    return [top] + [dict(x) for x in (c.get("then") or [])]


def history_of(steps, events, eps, cid, cls):
    top = dict(steps[0])
    top["then"] = [dict(x, id=cid) for x in steps[1:]]
    top["id"] = cid
    top["class"] = cls
    top["model"] = {"ep": "pool", "events": list(events), "eps": list(eps)}
    for x in [top] + top["then"]:
        x.pop("obs", None)
    return top


def shrink_history(ck, c):
    """delta-debugging over the requests of a violating history: drop one request at a time while it still violates"""
    best = c
    for rnd in range(5):
        steps, evs, eps = history_steps(best), best["model"]["events"], best["model"].get("eps") or [""] * len(best["model"]["events"])
        if len(steps) <= 1:
            break
        cands = []
        for k in range(len(steps)):
            cands.append(history_of(steps[:k] + steps[k + 1:], evs[:k] + evs[k + 1:], eps[:k] + eps[k + 1:], best["id"] * 10 + k, best["class"]))
        pth = os.path.join(ck.work, "shrink_in_%d.jsonl" % rnd)
        with open(pth, "w") as f:
            for x in cands:
                f.write(json.dumps(x) + "\n")
        res = run_harness(ck, ["--cases", pth, "--batch", 1, "--par", 8], "shrink_%d" % rnd) or []
        viol = [x for x in res if x.get("obs") and obs_code(x["obs"]) in BAD_CODES]
        if not viol:
            break
        best = min(viol, key=lambda x: len(x.get("then") or []))
    return best


FASTFILL_TEXT = "func fastFill(v []float64, val float64) { v[0] = val l := 1 for ; l < len(v); l *= 2 { copy(v[l:], v[:l]) } }"


def is_labeldoc(c):
    return "/labeldoc-" in c.get("class", "")


def json_takes(t):
    """would encoding/json decode the row into a map[string]string (then storedLabels' fallback is not reached)"""
    try:
        d = json.loads(t)
    except ValueError:
        return False
    return isinstance(d, dict) and all(isinstance(v, str) for v in d.values())


def eval_ldcases(ck, name, cases, qps=(), ffs=()):
    """model/ReadLabelDoc.v on the rows encoding/json refuses (byte codes): no row panics, and JSON documents + documents the
    fallback decodes = series answered"""
    items = []
    for k, c in enumerate(cases):
        texts = [cell.get("s") or "" for r in c["script"][0]["rows"] for cell in r]
        rest = [t for t in texts if not json_takes(t)]
        items.append("mkLD %d %s %d %d" % (k, coq_list([coq_list([str(b) for b in t.encode("utf-8")]) for t in rest]), len(texts) - len(rest), c["obs"].get("items", 0)))
    txt = ("From Coq Require Import List.\nFrom Qryn Require Import model.ReadLabelDoc.\nImport ListNotations.\n"
           "Definition cases : list ldcase := [\n  " + ";\n  ".join(items) + "].\n"
           "Definition P := Eval vm_compute in map (fun c => (if fst (ld_predicted c) then 0 else 1000) + snd (ld_predicted c)) cases.\nPrint P.\n"
           "Definition M := Eval vm_compute in ld_mismatches cases.\nPrint M.\n")
    # round 8: what the real strconv.QuotedPrefix answered on sampled texts (0 = error, else len(q)) against qp_scan and the
    # contract of the termination theorem (same Coq file: one start-up)
    qitems = ["mkQP %d %s %d" % (k, coq_list([str(b) for b in bytes.fromhex(s["hex"])]), s["real"]) for k, s in enumerate(qps)]
    txt += ("Definition qpcases : list qpcase := [\n  " + ";\n  ".join(qitems) + "].\n"
            "Definition QM := Eval vm_compute in qp_mismatches qpcases.\nPrint QM.\n"
            "Definition QC := Eval vm_compute in qp_contract_violations qpcases.\nPrint QC.\n")
    # round 8: the fastFill trials through the real FixPeriodPlanner against model/ReadFastFill.v
    fitems = ["mkFF %d %d %d %s" % (k, f["a"], f["n"], coq_list([str(x - f["a"]) if 0 <= x - f["a"] < 250 else "255" for x in f["observed"]])) for k, f in enumerate(ffs)]
    txt = txt.replace("From Qryn Require Import model.ReadLabelDoc.", "From Qryn Require Import model.ReadLabelDoc model.ReadFastFill.")
    txt += ("Definition ffcases : list ffcase := [\n  " + ";\n  ".join(fitems) + "].\n"
            "Definition FM := Eval vm_compute in ff_mismatches ffcases.\nPrint FM.\n")
    rc, out = ck.coq_eval(name, txt)
    if rc != 0:
        return None, out
    flat = " ".join(out.split())
    mp = re.search(r"\bP = (\[.*?\]|nil)\s*: list nat", flat)
    mm = re.search(r"\bM = (\[.*?\]|nil)\s*: list nat", flat)
    if not mp or not mm:
        return None, out
    ints = lambda t: [int(x) for x in re.findall(r"\d+", t)]
    mq = re.search(r"\bQM = (\[.*?\]|nil)\s*: list nat", flat)
    mc = re.search(r"\bQC = (\[.*?\]|nil)\s*: list nat", flat)
    mf = re.search(r"\bFM = (\[.*?\]|nil)\s*: list nat", flat)
    if not mq or not mc or not mf:
        return None, out
    return {"P": ints(mp.group(1)), "M": ints(mm.group(1)), "QM": ints(mq.group(1)), "QC": ints(mc.group(1)), "FM": ints(mf.group(1))}, out


def shrink_rows(ck, c, still_bad):
    """a violating request over scripted label documents: find ONE row that violates on its own (each candidate in its
    own child process); the replay is then the request with that row's text as the whole result set"""
    rows = [r for rs in c.get("script") or [] for r in rs.get("rows") or []]
    seen, cands = set(), []
    for k, row in enumerate(rows):
        key = json.dumps(row, sort_keys=True)
        if key in seen:
            continue
        seen.add(key)
        x = {kk: v for kk, v in c.items() if kk not in ("obs", "expect_items")}
        x["id"] = c["id"] * 1000 + k
        x["script"] = [dict(c["script"][0], rows=[row])]
        x["model"] = dict(c["model"], rows=["ok"])
        cands.append(x)
    pth = os.path.join(ck.work, "shrink_rows_in.jsonl")
    with open(pth, "w") as f:
        for x in cands:
            f.write(json.dumps(x) + "\n")
    res = run_harness(ck, ["--cases", pth, "--batch", 1, "--par", 8], "shrink_rows") or []
    viol = [x for x in res if x.get("obs") and still_bad(x)]
    if not viol:
        return c
    return min(viol, key=lambda x: len(json.dumps(x["script"][0]["rows"])))


# ------------------------------------------------------------------------------ harness
def run_harness(ck, args, tag):
    outp = os.path.join(ck.work, tag + ".jsonl")
    if os.path.exists(outp):
        os.remove(outp)
    rc, out = ck.go_run("readfuzz", list(args) + ["--out", outp], timeout=1500)
    if rc != 0 or not os.path.exists(outp):
        ck.obligation("harness readfuzz ran (%s)" % tag, False, out[-1500:])
        return None
    return [json.loads(l) for l in open(outp)]


def strip(c):
    """what goes into a replay file: the request, the script, the observation"""
    d = {k: c[k] for k in ("class", "method", "path", "params", "script") if k in c}
    for k in ("accept", "body", "body_hex", "ctype", "model", "wait_ms", "abort_after", "tcp", "ws", "boot", "cold", "hang_up", "then", "max_conns", "expect_items"):
        if k in c and c[k] not in (None, "", False, {}) :
            d[k] = c[k]
    d["id"] = c["id"]
    d["observed"] = dict(c["obs"], **{"class": CODE_NAME.get(obs_code(c["obs"]), "?")})
    return d


def size_of(c):
    if c.get("then"):
        return 1000 * (1 + len(c["then"]))
    return sum(len(rs.get("rows") or []) for rs in c.get("script") or []) * 50 + len(json.dumps(c.get("params")))


def faulted_case(c):
    """mirrors faulted() of the harness: after such a request the process must answer a refused statement and the healthy probes"""
    if c.get("abort_after") is not None or c.get("hang_up") or (c.get("boot") or {}).get("settings") or (c.get("boot") or {}).get("tables"):
        return True
    if any(rs.get("query_err") or rs.get("fail_after", -1) >= 0 or rs.get("stall") for rs in c.get("script") or []):
        return True
    return any(faulted_case(x) for x in c.get("then") or [])


FINDING_SUBQUERY = "promql-subquery-steps-unbounded"
FINDING_SUBQUERY_QUERIES = ()   # fixed by 234ea6b: the witness is a corpus case of the modelled Prometheus stream now


def is_finding_range(c):
    """a recorded finding's witness: corpus class finding/<id>, or a generated request with exactly the recorded input"""
    return finding_id(c) is not None


def finding_id(c):
    cl = c.get("class", "")
    if cl.startswith("finding/"):
        return cl.split("/")[1].split("+")[0]
    if cl.startswith("test/prom_instant_wide") and any(p["k"] == "query" and p["v"] in FINDING_SUBQUERY_QUERIES for p in c.get("params") or []):
        return FINDING_SUBQUERY
    return None


def test_oracle(c):
    """test-only stream: response + liveness + census; the Prometheus range controller rejects step <= 0"""
    code = obs_code(c["obs"])
    if code == 10:
        return "a healthy request sent after this one was not served: " + c["obs"]["followup"]
    if code in (3, 4, 5, 6, 7):
        return "no orderly HTTP response: " + CODE_NAME[code]
    if c.get("ws") and c["obs"].get("ws_end"):
        o = c["obs"]
        # live tail: one ping and at most one answer per second; an empty message is not a JSON document
        if o.get("ws_empty", 0) > 0 or o.get("ws_msgs", 0) > 3 * (o.get("ms", 0) // 1000 + 1) + 3:
            return "live tail floods the client: %d websocket messages (%d empty) in %d ms" % (o.get("ws_msgs", 0), o.get("ws_empty", 0), o.get("ms", 0))
        if ("ws_tail_db_error" in c["class"] or "ws_tail_bad_cell" in c["class"]) and o["ws_end"] != "server-closed":
            return "live tail: the tail goroutine ended after a database error but the session was not ended by the server (%s)" % o["ws_end"]
    if c["class"].startswith("test/prom_range"):
        step = [p["v"] for p in c["params"] if p["k"] == "step"]
        if step and re.fullmatch(r"-?\d+(\.\d+)?s?", step[0]) and float(step[0].rstrip("s")) <= 0:
            if c["obs"]["status"] != 400:
                return "Prometheus query_range accepted step=%s (status %d, expected 400)" % (step[0], c["obs"]["status"])
    return None


GENERATED_THEOREMS = ("reader_unrecovered_goroutines_accounted", "handler_loops_receive_until_close", "locks_released_on_every_path",
                      "sending_goroutines_close_on_every_path", "channel_ops_accounted", "no_request_asks_for_a_connection_while_holding_one")


def props_split(ck):
    """props/C12.v does not compile (normally: one of the two obligations over the regenerated inventory fails).
    Do not let that take the other theorems down: evaluate the inventory obligations on their own (naming the
    offending sites) and re-check the remaining theorems from a copy of the file without those two."""
    src = open(os.path.join(vcheck.COQ, "props", "C12.v")).read()
    ck.obligations = [o for o in ck.obligations if not o[0].startswith("theorem ")]
    ok_deps, _ = ck.coq_make(["proofs/ReadPathProofs.vo", "gen/GenGoroutinesReader.vo"])
    txt = ("From Coq Require Import List String.\nFrom Qryn Require Import model.ReaderGoroutines model.ReaderFlow model.ReadConn gen.GenGoroutinesReader.\n"
           "Eval vm_compute in (unaccounted reader_goroutines, stale reader_goroutines, map (recovers_at reader_goroutines) must_recover).\n"
           "Eval vm_compute in (unaccounted_loops reader_loops).\n"
           "Eval vm_compute in (unaccounted_locks reader_locks).\n"
           "Eval vm_compute in (failing_flows reader_lock_flows).\n"
           "Eval vm_compute in (stale_reviews reader_lock_flows, Nat.eqb (total_acq reader_lock_flows) (List.length reader_locks)).\n"
           "Eval vm_compute in (failing_flows reader_close_flows).\n"
           "Eval vm_compute in (unaccounted_chanops reader_chanops).\n"
           "Eval vm_compute in (failing_cflows reader_conn_flows).\n"
           "Eval vm_compute in (unaccounted_qsites reader_query_sites, Nat.eqb (total_cacq reader_conn_flows) (bound_sites reader_query_sites), unaccounted_lends reader_untracked_lends, stale_exit_reviews reader_conn_flows).\n")
    rc, out = ck.coq_eval("C12_inventory", txt)
    flat = " ".join(out.split())
    parts = re.findall(r"= (.*?) : (?:list|\()", " " + flat)
    ck.obligation("theorem reader_unrecovered_goroutines_accounted", rc == 0 and "= (nil, nil, true :: true :: nil)" in flat,
                  "(unaccounted goroutines, allow-listed sites that disappeared, must-recover sites recovering) " + (parts[0][:900] if parts else flat[:900]))
    ck.obligation("theorem handler_loops_receive_until_close", rc == 0 and len(parts) > 1 and parts[1].strip() == "nil",
                  "handler loops that can leave before their channel is closed and are not allow-listed: " + (parts[1][:900] if len(parts) > 1 else flat[-600:]))
    ck.obligation("theorem locks_released_on_every_path", rc == 0 and len(parts) > 4 and parts[2].strip() == "nil" and parts[3].strip() == "nil" and parts[4].strip().startswith("(nil, true"),
                  "Lock()/RLock() statements that some way out of their region does not give back: %s; control-flow models with a path that keeps / double-locks / double-unlocks the mutex: %s; (stale reviewed entries, every Lock statement is in a model): %s" % (
                      parts[2][:600] if len(parts) > 2 else flat[-600:], parts[3][:600] if len(parts) > 3 else "?", parts[4][:300] if len(parts) > 4 else "?"))
    ck.obligation("theorem sending_goroutines_close_on_every_path", rc == 0 and len(parts) > 5 and parts[5].strip() == "nil",
                  "goroutine bodies with a path on which a channel they send on is not closed exactly once: " + (parts[5][:900] if len(parts) > 5 else flat[-600:]))
    ck.obligation("theorem channel_ops_accounted", rc == 0 and len(parts) > 6 and parts[6].strip() == "nil",
                  "goroutine bodies whose channel operations differ from the reviewed ones (or a select without Done/default, or sends without close): " + (parts[6][:900] if len(parts) > 6 else flat[-600:]))
    ck.obligation("theorem no_request_asks_for_a_connection_while_holding_one", rc == 0 and len(parts) > 8 and parts[7].strip() == "nil" and parts[8].strip().startswith("(nil, true, nil, nil"),
                  "function bodies with a path on which a connection is asked for (a statement, or a call that may issue one) while a result set of the body is still open / lent to a goroutine, or that can be left with the variable holding a connection the caller does not know about (file, function, unit, variable): %s; (statement sites outside every flow, every bound site is an acquisition of a flow, lending calls whose channel is not tracked, stale reviewed exits): %s" % (
                      parts[7][:900] if len(parts) > 7 else flat[-600:], parts[8][:400] if len(parts) > 8 else "?"))
    rest = src
    for t in GENERATED_THEOREMS:
        rest = re.sub(r"Theorem %s\b.*?Print Assumptions %s\.\n" % (t, t), "", rest, flags=re.S)
    thms = re.findall(r"^\s*(?:Theorem|Corollary)\s+([A-Za-z_][\w']*)", rest, re.M)
    rc, out = ck.coq_eval("C12_props_rest", rest)
    verdicts = vcheck.parse_assumptions(out)
    allok = rc == 0 and len(verdicts) >= len(thms)
    for i, t in enumerate(thms):
        if allok:
            kind, ax = verdicts[i]
            ck.obligation("theorem " + t, kind == "closed" or not [a for a in ax if a.split(".")[-1] not in vcheck.ALLOWED_AXIOMS],
                          "closed under the global context" if kind == "closed" else "axioms: " + ", ".join(ax))
        else:
            ck.obligation("theorem " + t, False, "does not compile even without the inventory obligations: " + out[-600:])
    return False


def gen_and_props(ck):
    # ---- 1. translator
    rc, out = vcheck.sh([os.path.join(ROOT, "translate", "gen_goroutines_reader")], cwd=ROOT, timeout=300,
                        env=dict(os.environ, C12GEN_LOCKED="1"))   # we hold the lock ourselves
    ck.checker_cmds.append("translate/gen_goroutines_reader")
    gen = os.path.join(vcheck.COQ, "gen", "GenGoroutinesReader.v")
    ck.obligation("translator gen_goroutines_reader ran on %s" % vcheck.REPO, rc == 0 and os.path.exists(gen), out[-1500:])
    ngor = len(re.findall(r"g_file :=", open(gen).read())) if os.path.exists(gen) else 0
    ck.extra["goroutines_in_reader"] = ngor
    mcs = re.search(r"reader_closure_stats : list nat := \[(\d+); (\d+); (\d+); (\d+); (\d+)\]", open(gen).read()) if os.path.exists(gen) else None
    if mcs:
        ck.extra["may_panic_callee_closure"] = dict(zip(["reader_functions", "may_panic_when_called", "calls_resolved_with_certainty_in_flow_models",
                                                         "of_them_to_functions_that_cannot_panic", "safe_listed_names_overridden_by_a_reader_method"], map(int, mcs.groups())))
    # ---- 2. theorems (the first one is the inventory obligation over the regenerated file)
    props_ok = ck.coq_props()
    if not props_ok:
        props_ok = props_split(ck)
    if not ck.quick() and props_ok:
        ck.coqchk(["Qryn.props.C12"])
    return props_ok


def run(ck):
    ck.trusted += [
        "C12: the PromQL engine, the participle parsers, fastjson/protobuf decoders and database/sql are exercised by the harness, not modelled",
        "C12: the LTS abstracts label maps, message text and float values; one LTS message per rows.Next(); real-time bounds are not proved (termination = no infinite schedule)",
        "C12: allocation of more than 2^27 float64 is modelled as a failure (unreachable for accepted requests since the caps of 5180be1: theorem accepted_requests_have_safe_context); int64 wrap-around is modelled for the matrix window (d660aeb) and the subquery sums; an undefined float -> int64 conversion is ANY integer in the theorems, the platform's value in the tie",
        "C12: the PromQL engine's evaluator windows (a subquery is evaluated over the query window + its range + the ranges around it; one point reserved per step and series) are transcribed from the vendored promql/engine.go; PromQL durations are whole milliseconds",
        "C12: translate/goinv_reader's control-flow models: may-panic = index, slice, dereference, assertion, division, send, and calls: a call resolved by name to a function of the reader packages (plain identifier of the package, or pkg.F through an import of a reader package) is judged by the callee closure (least fixpoint; a callee that starts with an effective recover does not propagate), any other call may panic unless its name is on a small safe list and no reader method of that name can panic; resolution is by name, without go/types; a deferred closure containing the release counts as a deferred release; one model per function body / literal (a lock handed to a callee is not followed)",
        "C12: Pyroscope handlers: the participle selector parser, protobuf / JSON body decoding, the pprof payload merger (property C16 models it) and the SQL planners are exercised, abstracted in model/ReadProf.v to parses / plans / fails; result sets are typed as the statement's columns (a wrongly typed cell inside an array or tuple is not generated: ClickHouse cannot return it)",
        "C12: float -> int64: which doubles make the conversion undefined (NaN, infinities, |f| >= 2^63) and the value this platform produces are computed by the harness with the controller's own expressions (getRequiredNs, parseDuration); ReadConv.v models Loki query_range only at nanosecond granularity with exact arithmetic for the aligned window (_to/d*d+d can wrap in int64 within d of MaxInt64)",
        "C12: the live-tail LTS abstracts one tick's pipeline to its result (answer / error message / return) -- that pipeline is theorem tail_tick_pipeline_terminates -- and assumes time does not pass while a channel operation is ready (Go's select picks among the ready cases)",
        "C12: a Scan error in TempoService.Tags / Values / Search returns without rows.Close(): the result set is released by database/sql (Rows.awaitDone) when net/http cancels the request context -- modelled as the drainer of that cell",
        "C12: StableSqlxDBWrapper: sync.RWMutex is modelled as a writer-preferring read/write lock (RLock waits while a writer is active or announced, Lock announces one writer at a time and waits for the readers; the reader hand-off inside Unlock is one of the model's schedules); that every unit of sqlxWrap.go performs well-bracketed sections (pl_ok) rests on locks_released_on_every_path over the generated flows plus the reading of QueryCtx (the closure returns before the write lock is asked for); the harness counts pool rebuilds in the GetDB callback it hands to the real wrapper and cancels the request context itself when a scripted statement stalls",
        "C12: connection pool: database/sql is modelled as a counter of connections (a statement takes one and blocks while none is free; the result set gives it back at Close() or when Next() returns false; a goroutine reading a result set gives it back when the channel it feeds is closed); translate/goinv_reader/connflow.go decides by name which calls may issue a statement (least fixpoint over the call graph; QueryCtx / QueryContext / Queryx = a statement, ExecCtx / ExecContext / Exec / Conn / Begin = ask-and-give-back, Exec also being the PromQL engine calling back into the reader's Queryable) and which of them lend (may issue a statement and return a channel); method calls are resolved by the receiver's written type where the unit shows it, else by name and argument count; one flow per variable and body: a result set stored in a struct field, passed to a callee or returned is followed only as far as the reviewed list says; that the per-body discipline gives the per-request discipline kn_ok of the pool theorem is argued, not proved: per body the exit-state obligation shows that a callee's connection is given back before it returns, left to a registered deferred Close, or lent through the channel / result set it returns; a return with a non-nil error is taken to end the request (context cancelled, database/sql takes the connection back) and `v, err := call; if err != nil {..}` to enter the error branch exactly when nothing was acquired; four bodies are reviewed exits (ReadConn.exit_reviewed); the harness sets the pool size with SetMaxOpenConns on the pool behind the real wrapper",
        "C12: goroutine census (runtime.Stack) and the child-process crash/hang detection of harness/cmd/readfuzz",
        "C12: go/ast translator translate/goinv_reader (recover status, operation census by name-based call following inside a package)",
    ]
    # ---- 1+2. translator, theorems, coqchk: one critical section. coq/gen/GenGoroutinesReader.v is a single file of the
    # shared Coq project; a concurrent C12 run against another tree (VERIF_REPO=<scratch>) would swap it under our feet.
    with vcheck.Lock("c12gen"):
        props_ok = gen_and_props(ck)
    # ---- 3. harness
    if not ck.go_build("readfuzz"):
        ck.obligation("harness readfuzz builds against %s" % vcheck.REPO, False, ck.build_out[-1500:])
        return
    if ck.replay:
        obj = json.load(open(ck.replay))
        cs = obj.get("cases") or ([obj["case"]] if "case" in obj else [])
        p = os.path.join(ck.work, "replay_in.jsonl")
        with open(p, "w") as f:
            for c in cs:
                c = dict(c)
                c.pop("observed", None)
                f.write(json.dumps(c) + "\n")
        res = run_harness(ck, ["--cases", p], "replay") or []
        for c in res:
            print("REPLAY id=%s class=%s observed=%s %s" % (c["id"], c["class"], CODE_NAME.get(obs_code(c["obs"])), json.dumps(c["obs"])))
            if obs_code(c["obs"]) in (3, 4, 5, 6, 7, 10) or (c.get("expect_items") is not None and obs_code(c["obs"]) == 0 and c["obs"].get("items") != c["expect_items"]):
                ck.violation({"property": "C12", "kind": "replayed case still violates", "case": strip(c)})
        return
    cases = []
    for fn in sorted(os.listdir(CORPUS)) if os.path.isdir(CORPUS) else []:
        if fn.endswith(".jsonl"):
            res = run_harness(ck, ["--cases", os.path.join(CORPUS, fn)], "corpus_" + fn[:-6])
            if res is None:
                return
            cases += res
    n = ck.n(600, 12000)
    res = run_harness(ck, ["--seed", ck.seed, "--n", n, "--budget-s", ck.n(150, 3000)], "gen")
    if res is None:
        return
    cases += res
    skipped = [c for c in cases if c["obs"]["outcome"] == "skipped"]
    cases = [c for c in cases if c["obs"]["outcome"] != "skipped"]
    ck.extra["skipped_for_time"] = len(skipped)
    fwd = [c for c in cases if is_fwd(c)]
    prom = [c for c in cases if is_prom(c)]
    profc = [c for c in cases if is_prof(c)]
    convc = [c for c in cases if is_conv(c)]
    poolc = [c for c in cases if is_pool(c)]
    modelled = [c for c in cases if c.get("model") and not is_fwd(c) and not is_prom(c) and not is_prof(c) and not is_conv(c) and not is_pool(c)]
    testonly = [c for c in cases if not c.get("model")]
    known = ck.known_findings()

    # ---- 4. modelled stream, inside Coq
    byid = {c["id"]: c for c in modelled}
    M, V, P, C = [], [], [], []
    shard = 60
    from concurrent.futures import ThreadPoolExecutor
    jobs = [(k // shard, modelled[k:k + shard]) for k in range(0, len(modelled), shard)]
    with ThreadPoolExecutor(max_workers=8) as ex:
        results = list(ex.map(lambda j: eval_cases(ck, "C12_cases_%d" % j[0], j[1]), jobs))
    for r, out in results:
        if r is None:
            ck.obligation("modelled cases evaluated inside Coq", False, out[-1500:])
            return
        M += r["M"]; V += r["V"]; P += r["P"]; C += r["C"]
    pred = dict(zip([c["id"] for c in modelled], C))
    # the recorded finding: the model predicts the violation (allocation failure) and the implementation shows it
    finding_hits = [i for i in V if i in P and pred[i] == 3 and obs_code(byid[i]["obs"]) in (3, 5)]
    if finding_hits and "matrix-range-unbounded" in known:
        w = min((byid[i] for i in finding_hits), key=size_of)
        ck.report_known("matrix-range-unbounded", "%d generated matrix requests with an unbounded number of points end in an allocation failure of an unrecovered goroutine, as the model predicts; e.g. %s" % (
            len(finding_hits), " ".join("%s=%s" % (p["k"], p["v"]) for p in w["params"])))
    unexplained = [i for i in V if not (i in finding_hits and "matrix-range-unbounded" in known)]
    # a model-predicted violation that the implementation does not show is a mismatch (in M) and handled below
    real_mism = [i for i in M if i not in V or i in unexplained]
    ck.obligation("correspondence: model_outcome = observed outcome class on %d modelled requests" % len(modelled),
                  not [i for i in M if not (i in finding_hits and obs_code(byid[i]["obs"]) == 5)],
                  "mismatching ids %s" % [(i, CODE_NAME.get(pred[i]), CODE_NAME.get(obs_code(byid[i]["obs"]))) for i in M[:8]])
    ck.obligation("spec oracle: every modelled request ends in an HTTP response with nothing left behind (recorded findings excepted)",
                  not unexplained, "violating ids %s" % unexplained[:10])
    if unexplained:
        w = min((byid[i] for i in unexplained), key=size_of)
        ck.violation({"property": "C12", "kind": "request does not end in an orderly HTTP response: " + CODE_NAME[obs_code(w["obs"])],
                      "model_predicted": CODE_NAME.get(pred[w["id"]]), "case": strip(w),
                      "others": len(unexplained) - 1, "replay": "bin/check C12 --replay <this file>"})
    else:
        mm = [i for i in M if i not in V]
        if mm:
            w = min((byid[i] for i in mm), key=size_of)
            ck.violation({"property": "C12", "kind": "model and implementation disagree on the outcome class (both orderly)",
                          "model_predicted": CODE_NAME.get(pred[w["id"]]), "case": strip(w), "broken": "correspondence ReadPath.model_outcome vs reader router"},
                         no_input=True)

    # ---- 4b. forwarding endpoints (labels, series, Tempo tags / search, TraceQL), inside Coq: class AND statement count
    fbyid = {c["id"]: c for c in fwd}
    fjobs = [(k // 100, fwd[k:k + 100]) for k in range(0, len(fwd), 100)]
    with ThreadPoolExecutor(max_workers=6) as ex:
        fres = list(ex.map(lambda j: eval_fcases(ck, "C12_fcases_%d" % j[0], j[1]), fjobs))
    FM, FV, FP = [], [], []
    for r, out in fres:
        if r is None:
            ck.obligation("forwarding-endpoint cases evaluated inside Coq", False, out[-1500:])
            return
        FM += r["M"]; FV += r["V"]; FP += r["P"]
    fpred = dict(zip([c["id"] for c in fwd], FP))
    show = lambda i: (i, fbyid[i]["class"], "model %s/%d stmts" % (CODE_NAME.get(fpred[i] // 1000), fpred[i] % 1000),
                      "observed %s/%s stmts" % (CODE_NAME.get(obs_code(fbyid[i]["obs"])), fbyid[i]["obs"].get("stmts")))
    ck.obligation("correspondence: fwd_outcome = (observed outcome class, SQL statements issued) on %d requests of the label / series / Tempo tag, search and TraceQL endpoints" % len(fwd),
                  not FM, "mismatching %s" % [show(i) for i in FM[:6]])
    ck.obligation("spec oracle: every request of the forwarding endpoints ends in an HTTP response with nothing left behind",
                  not FV, "violating %s" % [show(i) for i in FV[:6]])
    # series endpoints over stored label documents cut at every byte position: the answer holds exactly the complete documents
    ldoc = [c for c in fwd if is_labeldoc(c)]
    judged = [c for c in ldoc if c.get("expect_items") is not None and obs_code(c["obs"]) == 0]
    wrong_items = [c for c in judged if c["obs"].get("items") != c["expect_items"]]
    ck.obligation("series endpoints over %d requests / %d stored label documents (JSON and strconv.Quote forms cut at every byte position, one-byte mutants): "
                  "the answer is a JSON document holding exactly the complete documents among the rows" % (len(ldoc), sum(len(c["script"][0]["rows"]) for c in ldoc)),
                  not wrong_items, "wrong %s" % [(c["id"], c["class"], "series answered %s, complete documents %s" % (c["obs"].get("items"), c["expect_items"])) for c in wrong_items[:5]])
    # ... and what the Coq model of the decoder says about the same rows (cut documents and corpus; not the mutants: the model's
    # QuotedPrefix does not validate escapes)
    tied = [c for c in judged if "labeldoc-mutant" not in c["class"] and c["obs"].get("items") is not None and c["obs"]["items"] >= 0]
    # round 8: the hypothesis of the termination theorem (stored_label_decoder_terminates) on the REAL strconv.QuotedPrefix: every
    # suffix of every row of this run's label-document requests; a sample of the answers goes to Coq next to the cases
    qprep = run_harness(ck, ["--qpcontract", "--seed", ck.seed, "--n", ck.n(100, 3000)], "qpcontract") if ldoc else None
    qp = qprep[0] if qprep else {"rows": 0, "calls": 0, "accepted": 0, "min_len": -1, "max_len": 0, "violations": [], "samples": []}
    if ldoc:
        ck.obligation("strconv.QuotedPrefix meets the contract of the termination theorem (err == nil -> q is a prefix of s, 2 <= len(q) <= len(s)) on all %d suffixes "
                      "of the %d distinct label-document rows of this run (%d accepted, prefixes of %d..%d bytes)" % (qp["calls"], qp["rows"], qp["accepted"], qp["min_len"], qp["max_len"]),
                      bool(qprep) and not qp["violations"] and qp["accepted"] > 0 and qp["min_len"] >= 2, "violations %s" % qp["violations"][:5])
        ck.extra["quoted_prefix_contract"] = {k: qp[k] for k in ("rows", "calls", "accepted", "min_len", "max_len")}
        ck.extra["quoted_prefix_contract"]["samples_in_coq"] = len(qp["samples"])
        ck.extra["quoted_prefix_contract"]["samples_accepted"] = sum(1 for s in qp["samples"] if s["real"])
    # the text model/ReadFastFill.v was transcribed from (quoted in its header): a change of fastFill must be followed by the model
    try:
        src = open(os.path.join(vcheck.REPO, "reader/logql/logql_transpiler_v2/planner_from_fix.go")).read()
        i = src.index("func fastFill(")
        body = " ".join(src[i:src.index("\n}\n", i) + 2].split())
    except (OSError, ValueError):
        body = ""
    ck.obligation("text tie: fastFill in planner_from_fix.go is the function model/ReadFastFill.v transcribes (v[0] = val; l := 1; for ; l < len(v); l *= 2 { copy(v[l:], v[:l]) })",
                  body == FASTFILL_TEXT, "found: %s" % body[:300])
    # round 8, second item: fastFill through the real FixPeriodPlanner (in-process trials; a panic of the planner's unrecovered
    # goroutine ends that process: the last progress line names the trial)
    ffp = os.path.join(ck.work, "fastfill.jsonl")
    if os.path.exists(ffp):
        os.remove(ffp)
    frc, fout = ck.go_run("readfuzz", ["--fastfill", "--n", ck.n(33, 65), "--out", ffp], timeout=300)
    ffs = [json.loads(l) for l in open(ffp)] if frc == 0 and os.path.exists(ffp) else []
    if frc != 0:
        last = [l for l in fout.splitlines() if l.startswith("fastfill trial")]
        pan = [l for l in fout.splitlines() if l.startswith("panic:") or "planner_from_fix.go" in l]
        ck.obligation("fastFill trials through the real FixPeriodPlanner ran to the end", False, fout[-600:])
        ck.violation({"property": "C12", "kind": "the goroutine of FixPeriodPlanner (no recover) ended the process: crash",
                      "trial": last[-1] if last else "?", "panic": " || ".join(pan[:4])[:400],
                      "replay": "readfuzz --fastfill (deterministic trials; the named one is the last line before the panic)"})
    ldres, ldout = eval_ldcases(ck, "C12_ldcases", tied, qp["samples"], ffs) if (tied or ffs) else ({"P": [], "M": [], "QM": [], "QC": [], "FM": []}, "")
    if ldres is None:
        ck.obligation("label-document cases evaluated inside Coq", False, ldout[-1500:])
        return
    if ffs:
        ck.obligation("correspondence: ReadFastFill.ff_predicted (the slice through the model's fastFill: every cell holds the value) = cells of the answer holding the value, "
                      "on %d trials through the real FixPeriodPlanner (slice lengths %d..%d, windows cut by the end of the series included)" % (
                          len(ffs), min(f["n"] for f in ffs), max(f["n"] for f in ffs)),
                      not ldres["FM"], "mismatching %s" % [(ffs[k]["id"], "slice [%d:%d]" % (ffs[k]["a"], ffs[k]["a"] + ffs[k]["n"]), ffs[k].get("err", ""), "observed %s" % ffs[k]["observed"][:12]) for k in ldres["FM"][:4]])
        ck.extra["fastfill_trials"] = {"trials": len(ffs), "slice_lengths": sorted(set(f["n"] for f in ffs))[:3] + ["..", max(f["n"] for f in ffs)],
                                       "cut_by_series_end": sum(1 for f in ffs if f["total"] != 200)}
        if ldres["FM"]:
            w = min((ffs[k] for k in ldres["FM"]), key=lambda f: f["n"])
            ck.violation({"property": "C12", "kind": "fastFill through the real FixPeriodPlanner: " + (w.get("err") or "cells holding the value differ from the model's"),
                          "trial": w, "model_predicted": "cells %d..%d" % (w["a"], w["a"] + w["n"] - 1), "others": len(ldres["FM"]) - 1,
                          "replay": "readfuzz --fastfill (deterministic trials; this is trial id %d: one entry at %d.5 s, range %d s, step 1 s, %d cells from the epoch)" % (
                              w["id"], w["a"], max(w["n"] - 1, 1), w["total"])})
    if tied:
        unhex = lambda k: bytes.fromhex(qp["samples"][k]["hex"]).decode("utf-8", "backslashreplace")
        ck.obligation("correspondence: ReadLabelDoc.qp_scan = len(strconv.QuotedPrefix(s)) (0 = refused) and qp_contract_ok, inside Coq, on %d texts cut from the documents "
                      "at a double quote (%d accepted)" % (len(qp["samples"]), sum(1 for s in qp["samples"] if s["real"])),
                      not ldres["QM"] and not ldres["QC"],
                      "scanner differs on %s; contract broken on %s" % ([(unhex(k), qp["samples"][k]["real"]) for k in ldres["QM"][:5]], [unhex(k) for k in ldres["QC"][:5]]))
    ck.obligation("correspondence: ReadLabelDoc.stored_labels_fallback (no row panics; JSON documents + documents the fallback decodes) = series answered, on %d series requests / %d rows" % (
                      len(tied), sum(len(c["script"][0]["rows"]) for c in tied)),
                  not ldres["M"], "mismatching %s" % [(tied[k]["id"], tied[k]["class"], "model %d" % ldres["P"][k], "observed %s" % tied[k]["obs"].get("items")) for k in ldres["M"][:6]])
    if ldres["M"] and not FV and not wrong_items:
        w = min((tied[k] for k in ldres["M"]), key=size_of)
        ck.violation({"property": "C12", "kind": "model and implementation disagree on the number of series decoded from the stored label documents",
                      "model_predicted": ldres["P"][tied.index(w)], "case": strip(w), "others": len(ldres["M"]) - 1,
                      "broken": "correspondence ReadLabelDoc.stored_labels_fallback vs service.storedLabels"}, no_input=True)
    if FV:
        w = min((fbyid[i] for i in FV), key=size_of)
        extra = {}
        if is_labeldoc(w):
            w = shrink_rows(ck, w, lambda x: obs_code(x["obs"]) in BAD_CODES)
            extra = {"row_text": [cell.get("s") for r in w["script"][0]["rows"] for cell in r], "panic": w["obs"].get("panic", "")[:300]}
        ck.violation(dict({"property": "C12", "kind": "request does not end in an orderly HTTP response: " + CODE_NAME[obs_code(w["obs"])],
                      "model_predicted": CODE_NAME.get(fpred.get(w["id"], 1) // 1000), "case": strip(w), "others": len(FV) - 1,
                      "replay": "bin/check C12 --replay <this file>"}, **extra))
    elif wrong_items:
        w = min(wrong_items, key=size_of)
        ck.violation({"property": "C12", "kind": "series request over stored label documents: %s series answered, %s complete documents among the rows (json_ok=%s)" % (
                          w["obs"].get("items"), w["expect_items"], w["obs"].get("json_ok")),
                      "case": strip(w), "others": len(wrong_items) - 1, "replay": "bin/check C12 --replay <this file>"})
    elif FM:
        w = min((fbyid[i] for i in FM), key=size_of)
        ck.violation({"property": "C12", "kind": "model and implementation disagree on (outcome class, statements issued); both orderly",
                      "model_predicted": "%s, %d statements" % (CODE_NAME.get(fpred[w["id"]] // 1000), fpred[w["id"]] % 1000), "case": strip(w),
                      "others": len(FM) - 1, "broken": "correspondence ReadFwd.fwd_outcome vs reader router"}, no_input=True)

    # ---- 4c. Prometheus query endpoints, inside Coq: the controller's decision; the engine's answer must be 2xx or 5xx
    pbyid = {c["id"]: c for c in prom}
    pjobs = [(k // 150, prom[k:k + 150]) for k in range(0, len(prom), 150)]
    with ThreadPoolExecutor(max_workers=6) as ex:
        pres = list(ex.map(lambda j: eval_pcases(ck, "C12_pcases_%d" % j[0], j[1]), pjobs))
    PM, PV, PP = [], [], []
    for r, out in pres:
        if r is None:
            ck.obligation("Prometheus query cases evaluated inside Coq", False, out[-1500:])
            return
        PM += r["M"]; PV += r["V"]; PP += r["P"]
    ppred = dict(zip([c["id"] for c in prom], PP))
    PNAME = dict(CODE_NAME)
    PNAME[7] = "engine (2xx or 5xx)"
    pshow = lambda i: (i, pbyid[i]["class"], [p["v"] for p in pbyid[i]["params"] if p["k"] == "query"][:1], "model " + PNAME.get(ppred[i], "?"),
                       "observed %s %s" % (CODE_NAME.get(obs_code(pbyid[i]["obs"])), pbyid[i]["obs"].get("body_head", "")[:80]))
    ck.obligation("correspondence: prom_outcome = what the Prometheus query / query_range controllers answer (400 / 500 themselves, else the engine: 2xx or 5xx) on %d requests" % len(prom),
                  not PM, "mismatching %s" % [pshow(i) for i in PM[:5]])
    ck.obligation("spec oracle: every Prometheus query request ends in an HTTP response with nothing left behind",
                  not PV, "violating %s" % [pshow(i) for i in PV[:5]])
    if PV:
        w = min((pbyid[i] for i in PV), key=size_of)
        ck.violation({"property": "C12", "kind": "request does not end in an orderly HTTP response: " + CODE_NAME[obs_code(w["obs"])],
                      "model_predicted": PNAME.get(ppred[w["id"]]), "case": strip(w), "others": len(PV) - 1, "replay": "bin/check C12 --replay <this file>"})
    elif PM:
        w = min((pbyid[i] for i in PM), key=size_of)
        ck.violation({"property": "C12", "kind": "model and implementation disagree on what the Prometheus controller decides; both orderly",
                      "model_predicted": PNAME.get(ppred[w["id"]]), "case": strip(w), "others": len(PM) - 1,
                      "broken": "correspondence ReadProm.prom_outcome vs reader router"}, no_input=True)

    # ---- 4d. Pyroscope read handlers, inside Coq: class AND statement count
    fbyid4 = {c["id"]: c for c in profc}
    fjobs4 = [(k // 150, profc[k:k + 150]) for k in range(0, len(profc), 150)]
    with ThreadPoolExecutor(max_workers=6) as ex:
        fres4 = list(ex.map(lambda j: eval_pfcases(ck, "C12_pfcases_%d" % j[0], j[1]), fjobs4))
    QM, QV, QP = [], [], []
    for r, out in fres4:
        if r is None:
            ck.obligation("Pyroscope cases evaluated inside Coq", False, out[-1500:])
            return
        QM += r["M"]; QV += r["V"]; QP += r["P"]
    qpred = dict(zip([c["id"] for c in profc], QP))
    qshow = lambda i: (i, fbyid4[i]["class"], "model %s/%d stmts" % (CODE_NAME.get(qpred[i] // 1000), qpred[i] % 1000),
                       "observed %s/%s stmts %s" % (CODE_NAME.get(obs_code(fbyid4[i]["obs"])), fbyid4[i]["obs"].get("stmts"),
                                                    (fbyid4[i]["obs"].get("panic") or fbyid4[i]["obs"].get("body_head") or "")[:90]))
    ck.obligation("correspondence: prof_outcome = (observed outcome class, SQL statements issued) on %d requests of the Pyroscope read handlers" % len(profc),
                  not QM, "mismatching %s" % [qshow(i) for i in QM[:6]])
    ck.obligation("spec oracle: every request of the Pyroscope read handlers ends in an HTTP response with nothing left behind",
                  not QV, "violating %s" % [qshow(i) for i in QV[:6]])
    if QV:
        w = min((fbyid4[i] for i in QV), key=size_of)
        ck.violation({"property": "C12", "kind": "request does not end in an orderly HTTP response: " + CODE_NAME[obs_code(w["obs"])],
                      "model_predicted": CODE_NAME.get(qpred[w["id"]] // 1000), "case": strip(w), "others": len(QV) - 1,
                      "replay": "bin/check C12 --replay <this file>"})
    elif QM:
        w = min((fbyid4[i] for i in QM), key=size_of)
        ck.violation({"property": "C12", "kind": "model and implementation disagree on (outcome class, statements issued); both orderly",
                      "model_predicted": "%s, %d statements" % (CODE_NAME.get(qpred[w["id"]] // 1000), qpred[w["id"]] % 1000), "case": strip(w),
                      "others": len(QM) - 1, "broken": "correspondence ReadProf.prof_outcome vs reader router"}, no_input=True)

    # ---- 4e. float -> int64 conversions of start / end / step (Loki query_range), inside Coq
    cbyid = {c["id"]: c for c in convc}
    cjobs = [(k // 60, convc[k:k + 60]) for k in range(0, len(convc), 60)]
    with ThreadPoolExecutor(max_workers=6) as ex:
        cres = list(ex.map(lambda j: eval_ccases(ck, "C12_ccases_%d" % j[0], j[1]), cjobs))
    CM, CV, CP = [], [], []
    for r, out in cres:
        if r is None:
            ck.obligation("conversion cases evaluated inside Coq", False, out[-1500:])
            return
        CM += r["M"]; CV += r["V"]; CP += r["P"]
    cpred = dict(zip([c["id"] for c in convc], CP))
    cshow = lambda i: (i, cbyid[i]["class"], [(p["k"], p["v"]) for p in cbyid[i]["params"] if p["k"] in ("start", "end", "step")],
                       "model " + CODE_NAME.get(cpred[i], "?"), "observed %s %s" % (CODE_NAME.get(obs_code(cbyid[i]["obs"])), (cbyid[i]["obs"].get("body_head") or "")[:80]))
    ck.obligation("correspondence: range_outcome_ns (start / end / step through the float path; undefined conversions = the value this platform produced) = observed outcome class on %d requests" % len(convc),
                  not CM, "mismatching %s" % [cshow(i) for i in CM[:6]])
    ck.obligation("spec oracle: every request with out-of-range / NaN / infinite start, end or step ends in an HTTP response with nothing left behind",
                  not CV, "violating %s" % [cshow(i) for i in CV[:6]])
    if CV:
        w = min((cbyid[i] for i in CV), key=size_of)
        ck.violation({"property": "C12", "kind": "request does not end in an orderly HTTP response: " + CODE_NAME[obs_code(w["obs"])],
                      "model_predicted": CODE_NAME.get(cpred[w["id"]]), "case": strip(w), "others": len(CV) - 1, "replay": "bin/check C12 --replay <this file>"})
    elif CM:
        w = min((cbyid[i] for i in CM), key=size_of)
        ck.violation({"property": "C12", "kind": "model and implementation disagree on the outcome class (both orderly)",
                      "model_predicted": CODE_NAME.get(cpred[w["id"]]), "case": strip(w), "others": len(CM) - 1,
                      "broken": "correspondence ReadConv.range_outcome_ns vs reader router"}, no_input=True)

    # ---- 4f. histories through the real StableSqlxDBWrapper, inside Coq: per request answered + pool rebuilds
    lbyid = {c["id"]: c for c in poolc}
    ljobs = [(k // 60, poolc[k:k + 60]) for k in range(0, len(poolc), 60)]
    with ThreadPoolExecutor(max_workers=6) as ex:
        lres = list(ex.map(lambda j: eval_plcases(ck, "C12_plcases_%d" % j[0], j[1]), ljobs))
    LM, LV, LP = [], [], []
    for r, out in lres:
        if r is None:
            ck.obligation("pool-history cases evaluated inside Coq", False, out[-1500:])
            return
        LM += r["M"]; LV += r["V"]; LP += r["P"]
    lpred = dict(zip([c["id"] for c in poolc], LP))
    lshow = lambda i: (i, lbyid[i]["model"]["events"], "model " + ", ".join(pool_pred_text(lpred[i])),
                       "observed " + ", ".join("%s/%d rebuilds" % (CODE_NAME.get(k), r) for k, r in pool_step_obs(lbyid[i])))
    ck.obligation("correspondence: pl_history (every request answered, one pool rebuild per failed statement) = what the real StableSqlxDBWrapper did on %d histories (%d requests) of healthy / refused / given-up-mid-statement / client-gone / connection-lost requests" % (
        len(poolc), sum(len(c["model"]["events"]) for c in poolc)), not LM, "mismatching %s" % [lshow(i) for i in LM[:4]])
    ck.obligation("spec oracle: every request of every history is answered, whatever the earlier requests of the same process met",
                  not LV, "violating %s" % [lshow(i) for i in LV[:4]])
    if LV:
        w = min((lbyid[i] for i in LV), key=size_of)
        w = shrink_history(ck, w)
        so = pool_step_obs(w)
        ck.violation({"property": "C12", "kind": "a request of a history is not answered in an orderly way: request %d of %d (%s) after the events %s" % (
                          len(so), len(w["model"]["events"]), CODE_NAME.get(so[-1][0]), w["model"]["events"][:len(so)]),
                      "model_predicted": "every request answered (theorem every_history_through_the_wrapper_is_answered)", "case": strip(w), "others": len(LV) - 1,
                      "replay": "bin/check C12 --replay <this file>"})
    elif LM:
        w = min((lbyid[i] for i in LM), key=size_of)
        ck.violation({"property": "C12", "kind": "model and implementation disagree on (answered, pool rebuilds) per request of a history; all answered",
                      "model_predicted": pool_pred_text(lpred[w["id"]]), "case": strip(w), "others": len(LM) - 1,
                      "broken": "correspondence ReadPool.pl_history vs dsn.StableSqlxDBWrapper"}, no_input=True)

    # ---- 5. test-only stream
    bad = []
    for c in testonly:
        if is_finding_range(c):
            code, fid = obs_code(c["obs"]), finding_id(c)
            if code in (3, 5) and fid in known:
                ck.report_known(fid, "%s %s: %s %s" % (c["path"], " ".join("%s=%s" % (p["k"], p["v"]) for p in c["params"]),
                                                       CODE_NAME[code], c["obs"].get("panic", "")[:120]))
            elif code in (3, 4, 5, 6, 10):
                bad.append((c, "finding witness violates but is not listed (or violates in another way): " + CODE_NAME[code]))
            continue
        why = test_oracle(c)
        if why:
            bad.append((c, why))
    ck.obligation("test (not a proof): %d corpus / mutated / random requests on every read endpoint end in a response, no crash, hang or leftover goroutine" % len(testonly),
                  not bad, "; ".join("%s: %s" % (c["class"], w) for c, w in bad[:5]))
    if bad:
        c, why = min(bad, key=lambda t: size_of(t[0]))
        ck.violation({"property": "C12", "kind": why, "case": strip(c), "others": len(bad) - 1, "replay": "bin/check C12 --replay <this file>"})

    ck.obligation("every generated request was evaluated within the time budget (requests are skipped only once hangs/leaks have been established)",
                  not skipped or bool(ck.violations), "%d requests skipped" % len(skipped))
    # ---- 6. evidence
    hist, outc = {}, {}
    distinct = set()
    for c in cases:
        hist[c["class"]] = hist.get(c["class"], 0) + 1
        k = CODE_NAME.get(obs_code(c["obs"]), "?")
        outc[k] = outc.get(k, 0) + 1
        nrows = sum(len(rs.get("rows") or []) for rs in c.get("script") or [])
        # non-trivial: the request got past parameter validation and query planning, i.e. a statement was issued
        if c["obs"].get("queries", 0) > 0 or c["obs"]["outcome"] != "resp":
            distinct.add(hashlib.sha1(json.dumps([c["path"], c["params"], c.get("body"), c["script"]], sort_keys=True).encode()).hexdigest())
    ck.coverage["evaluations"] += len(cases)
    ck.coverage["distinct_nontrivial"] += len(distinct)
    ck.coverage["rule"] += ("requests served by the real reader router in child processes; modelled: Loki query_range/query in 4 pipeline shapes + parse errors with "
                            "start/end/step/limit absent, malformed, zero, negative, reversed, sub-millisecond, huge, result sets of 0..320 rows with conversion errors, early end, "
                            "failing statement, non-JSON lines, fingerprint 0, rows outside the statement's window, windows at and beyond the point / range-window caps; Tempo trace by id with undecodable / panicking / unknown payloads; "
                            "forwarding endpoints (Loki / Prometheus labels, label values, series, Tempo tags, tag values v1/v2, search by tags, TraceQL search: class and statements issued compared with the model); Pyroscope handlers (JSON / protobuf bodies, typed result sets with NULL cells, short type ids, garbage payloads, cyclic trees: class and statements compared with the model); Loki range requests with NaN / infinite / out-of-range / exponent-form start, end, step (class compared with the model); test-only: the other endpoint families with "
                            "valid, mutated and random query bytes and random result sets. non-trivial = a SQL statement was issued (or the request did not end in a response); distinct by request+script content. ")
    ck.extra["input_distribution"] = hist
    ck.extra["observed_outcomes"] = outc
    ck.extra["modelled_requests"] = len(modelled) + len(fwd) + len(prom) + len(profc) + len(convc) + sum(len(c["model"]["events"]) for c in poolc)
    ck.extra["connection_pool_size_of_the_request"] = {str(k or 64): sum(1 for c in cases if (c.get("max_conns") or 0) == k) for k in sorted({c.get("max_conns") or 0 for c in cases})}
    heavy = [c for c in fwd if c["model"]["fep"] in ("tempo_traceql", "tempo_tags_v2", "tempo_values_v2") and c["obs"].get("stmts", 0) >= 2]
    ck.extra["requests_with_two_or_more_statements_on_a_pool_of_one"] = sum(1 for c in cases if c.get("max_conns") == 1 and c["obs"].get("stmts", 0) >= 2)
    ck.extra["complex_traceql_requests_on_a_pool_of_one"] = sum(1 for c in heavy if c.get("max_conns") == 1 and c["obs"].get("stmts", 0) >= 3)
    mq = re.search(r"reader_may_query_count : nat := (\d+)", open(os.path.join(vcheck.COQ, "gen", "GenGoroutinesReader.v")).read())
    ck.extra["connection_flows"] = {"functions_that_may_issue_a_statement": int(mq.group(1)) if mq else -1,
                                    "flows": len(re.findall(r"cf_file :=", open(os.path.join(vcheck.COQ, "gen", "GenGoroutinesReader.v")).read())),
                                    "statement_sites": len(re.findall(r"q_file :=", open(os.path.join(vcheck.COQ, "gen", "GenGoroutinesReader.v")).read()))}
    ck.extra["pool_histories"] = len(poolc)
    ck.extra["pool_history_lengths"] = {str(k): sum(1 for c in poolc if len(c["model"]["events"]) == k) for k in sorted({len(c["model"]["events"]) for c in poolc})}
    ck.extra["pool_events"] = {}
    for c in poolc:
        for ep, ev in zip(c["model"].get("eps") or [], c["model"]["events"]):
            ck.extra["pool_events"][ev] = ck.extra["pool_events"].get(ev, 0) + 1
    ck.extra["pool_histories_with_gave_up_before_db_error"] = sum(1 for c in poolc if any(
        e == "stall" and "dberr" in c["model"]["events"][k + 1:] for k, e in enumerate(c["model"]["events"])))
    ck.extra["pool_rebuilds_observed"] = sum(r for c in poolc for _, r in pool_step_obs(c))
    ck.extra["requests_followed_by_the_db_error_probe"] = sum(1 for c in cases if faulted_case(c))
    ck.extra["modelled_conversion_requests"] = len(convc)
    ck.extra["conversion_kinds"] = {}
    for c in convc:
        for nm in ("cstart", "cend", "cstep"):
            p = c["model"][nm]
            if p.get("t"):
                k = "%s %s -> %s%s" % (nm[1:], p["t"], p["k"], (" %d" % p["v"]) if p["k"] in ("exact", "undef") else "")
                ck.extra["conversion_kinds"][k] = ck.extra["conversion_kinds"].get(k, 0) + 1
    ck.extra["conversion_model_decisions"] = {CODE_NAME.get(k, str(k)): CP.count(k) for k in sorted(set(CP))}
    ck.extra["modelled_pyroscope_requests"] = len(profc)
    ck.extra["pyroscope_model_decisions"] = {"%s/%d statements" % (CODE_NAME.get(k // 1000), k % 1000): QP.count(k) for k in sorted(set(QP))}
    ck.extra["pyroscope_requests_reaching_the_statement"] = sum(1 for c in profc if c["obs"].get("stmts", 0) > 0)
    ck.extra["pyroscope_cyclic_trees"] = sum(1 for c in profc if c["model"].get("cyclic"))
    ck.extra["pyroscope_step_conversions"] = {}
    for c in profc:
        if c["model"]["pep"] == "select_series":
            k = "%s -> %d" % (c["model"].get("step_text"), c["model"]["step"])
            ck.extra["pyroscope_step_conversions"][k] = ck.extra["pyroscope_step_conversions"].get(k, 0) + 1
    ck.extra["modelled_prometheus_requests"] = len(prom)
    ck.extra["prometheus_model_decisions"] = {PNAME.get(k, str(k)): PP.count(k) for k in sorted(set(PP))}
    ck.extra["modelled_forwarding_requests"] = len(fwd)
    ck.extra["series_label_documents"] = {"requests": len(ldoc), "rows": sum(len(c["script"][0]["rows"]) for c in ldoc),
                                          "rows_cut_right_after_a_quoted_name_or_value": sum(1 for c in ldoc for r in c["script"][0]["rows"] if (r[0].get("s") or "").endswith('"')),
                                          "by_class": {k: sum(1 for c in ldoc if c["class"] == k) for k in sorted({c["class"] for c in ldoc})},
                                          "series_answered": sum(c["obs"].get("items") or 0 for c in judged),
                                          "requests_compared_with_the_coq_decoder": len(tied), "series_predicted_by_the_model": sum(x % 1000 for x in ldres["P"])}
    ck.extra["statements_issued_histogram"] = {str(k): sum(1 for c in fwd if c["obs"].get("stmts") == k) for k in sorted({c["obs"].get("stmts", -1) for c in fwd})}
    ck.extra["test_only_requests"] = len(testonly)
    ck.extra["level_note_test"] = "the test-only stream is a test (response + liveness + goroutine census), not covered by a theorem"
    samples = []
    for c in modelled[:400]:
        if c["obs"].get("queries", 0) > 0 and len(samples) < 3:
            samples.append({"class": c["class"], "params": c["params"], "rows": sum(len(rs.get("rows") or []) for rs in c["script"]),
                            "model": CODE_NAME.get(pred.get(c["id"])), "observed": CODE_NAME.get(obs_code(c["obs"]))})
    for c in testonly:
        if c["obs"].get("queries", 0) > 0 and len(samples) < 5 and c["class"].startswith("test/"):
            samples.append({"class": c["class"], "path": c["path"], "params": c["params"], "observed": CODE_NAME.get(obs_code(c["obs"])), "status": c["obs"]["status"]})
    ck.add_samples(samples)
