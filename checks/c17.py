"""C17 — Prometheus / Pyroscope selection and the seek/next contract of the sample cursor.

Part 1 (this file, cursor): model/SeriesIt.v is a transcription of seriesIt.{Next,Seek,At};
props/C17.v proves the chunkenc.Iterator contract for every ascending sample list and every
script of calls. Correspondence: the real cursor is driven with generated scripts and its
observations are compared, inside Coq, with the model's (mismatches) and with the
specification oracle spec_run_ok (spec_violations).
Part 2 (checks/sqltext.py, shared with C07...): SQL text of TranspileLabelMatchers / profile
selectors against the planner model.
"""
import json
import os

from vcheck import coq_list, coq_Z


def case_to_coq(c):
    ops = coq_list(["ONext" if o["k"] == "next" else "OSeek %s" % coq_Z(o["t"]) for o in c["ops"]])
    obs = []
    for ob in c["obs"]:
        at = "None" if ob.get("at") is None else "(Some %s)" % coq_Z(ob["at"])
        obs.append("Obs %s %s" % ("true" if ob["ret"] else "false", at))
    return "{| c_id := %d; c_samples := %s; c_ops := %s; c_obs := %s |}" % (
        c["id"], coq_list([coq_Z(x) for x in (c["samples"] or [])]), ops, coq_list(obs))


def eval_cases(ck, name, cases):
    """returns (model_mismatch_ids, spec_violation_ids) computed by Coq"""
    txt = ("From Coq Require Import List ZArith Bool.\nFrom Qryn Require Import model.SeriesIt.\n"
           "Import ListNotations.\nOpen Scope Z_scope.\n"
           "Definition cases : list case := [\n  " + ";\n  ".join(case_to_coq(c) for c in cases) + "].\n"
           "Definition M := Eval vm_compute in mismatches cases.\nPrint M.\n"
           "Definition V := Eval vm_compute in spec_violations cases.\nPrint V.\n")
    rc, out = ck.coq_eval(name, txt)
    if rc != 0:
        return None, None, out
    import re
    flat = " ".join(out.split())
    m = re.search(r"M = \[(.*?)\]\s*: list Z", flat)
    v = re.search(r"V = \[(.*?)\]\s*: list Z", flat)
    if not m or not v:
        return None, None, out

    def ids(s):
        return [int(x) for x in re.findall(r"-?\d+", s)]
    return ids(m.group(1)), ids(v.group(1)), out


def run_cursor(ck):
    if not ck.go_build("seriesit"):
        ck.obligation("harness seriesit builds against /repo", False, ck.build_out[-1500:])
        return
    n = ck.n(2000, 60000)
    cases = []
    # corpus first (minimised earlier failures)
    corpus = os.path.join(os.path.dirname(os.path.dirname(__file__)), "corpus", "C17", "cursor.jsonl")
    outp = os.path.join(ck.work, "cursor_corpus.jsonl")
    if os.path.exists(corpus):
        rc, out = ck.go_run("seriesit", ["--cases", corpus, "--out", outp])
        if rc == 0:
            cs = [json.loads(l) for l in open(outp)]
            for i, c in enumerate(cs):
                c["id"] = 1000000 + i
                c["class"] = "corpus"
            cases += cs
    outp = os.path.join(ck.work, "cursor.jsonl")
    rc, out = ck.go_run("seriesit", ["--seed", ck.seed, "--n", n, "--out", outp])
    if rc != 0:
        ck.obligation("harness seriesit ran", False, out[-1500:])
        return
    cases += [json.loads(l) for l in open(outp)]
    panics = [c for c in cases if any(ob.get("panic") for ob in c["obs"])]
    # a Go panic in Seek/Next is outside the model's observation alphabet: it is a spec violation by itself
    for c in panics[:1]:
        ck.violation({"property": "C17", "part": "cursor", "kind": "panic in cursor call", "case": c,
                      "replay": "bin/check C17 --replay <this file>"})
    ok_cases = [c for c in cases if c not in panics]
    mism, viol = [], []
    shard = 1500
    for k in range(0, len(ok_cases), shard):
        m, v, out = eval_cases(ck, "C17_cursor_%d" % (k // shard), ok_cases[k:k + shard])
        if m is None:
            ck.obligation("cursor cases evaluated inside Coq", False, out[-1500:])
            return
        mism += m
        viol += v
    byid = {c["id"]: c for c in ok_cases}
    ck.obligation("correspondence: model SeriesIt.run = implementation on %d scripts" % len(ok_cases), not mism and not panics,
                  "mismatching case ids: %s" % mism[:10])
    ck.obligation("spec oracle spec_run_ok accepts every observed script", not viol, "violating case ids: %s" % viol[:10])
    if viol:
        worst = min((byid[i] for i in viol), key=lambda c: (len(c["ops"]), len(c["samples"] or [])))
        ck.violation({"property": "C17", "part": "cursor", "kind": "seek/next contract violated by the implementation",
                      "case": worst, "explanation": "spec_run_ok (model/SeriesIt.v) rejects these observations of the real cursor",
                      "replay": "harness seriesit --cases <file with this case>"})
    elif mism:
        worst = min((byid[i] for i in mism), key=lambda c: (len(c["ops"]), len(c["samples"] or [])))
        ck.violation({"property": "C17", "part": "cursor", "kind": "model/implementation disagree; contract still met on all scripts",
                      "case": worst, "broken": "correspondence SeriesIt.run vs seriesIt"}, no_input=True)
    # coverage
    distinct = set()
    hist = {}
    for c in cases:
        hist[c["class"]] = hist.get(c["class"], 0) + 1
        nontrivial = len(c["samples"] or []) >= 2 and any(o["k"] == "seek" for o in c["ops"]) and len(c["ops"]) >= 2
        if nontrivial:
            distinct.add(json.dumps([c["samples"], c["ops"]]))
    ck.coverage["evaluations"] += len(cases)
    ck.coverage["distinct_nontrivial"] += len(distinct)
    ck.coverage["rule"] += ("cursor: random ascending sample arrays (0..16 samples, repeated timestamps) and scripts of 1..10 Next/Seek calls "
                            "(seek targets on, next to and away from samples); non-trivial = >=2 samples, >=2 calls, at least one Seek; distinct by content. ")
    ck.extra["cursor_input_classes"] = hist
    ck.add_samples([{"samples": c["samples"], "ops": c["ops"], "obs": c["obs"]} for c in cases[:3]])


def run(ck):
    ck.trusted += [
        "C17 cursor: atomicity/aliasing of the Go slice is not modelled (the cursor owns an immutable sample array); timestamps ascending is a hypothesis of the theorem (the SQL ORDER BY provides it)",
        "the PromQL engine itself is trusted: the theorem is the storage contract it relies on",
    ]
    ck.coq_props()
    run_cursor(ck)
    try:
        from checks import promsel          # part 2: matcher -> SQL selection (PromQL transpiler, profile selectors)
    except ImportError:
        promsel = None
    if promsel is not None:
        promsel.run(ck)
    from checks import promreq              # round 6: overlapping requests through the real router, row streams that break off
    promreq.run(ck)
