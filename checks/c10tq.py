"""C10, TraceQL tree-level tie (helper of checks/c10.py).

The TraceQL requests of the sqlinject cases (hostile string in one position) and of their baselines (harmless marker in the
same position) are planned again by C11's harness `traceql` (read-only reuse: real parser + real planners of
clickhouse_transpiler; the SQL object tree is dumped by reflection).  The trees are translated to terms of model/TqSql.v
(the translation of raw fragments follows checks/c11.py; "flat(tq_pieces tree) = the SQL the real planner printed" validates
it on every tree) and the OCaml extraction of model/TqPieces.v evaluates, per tree: the segmented text, the value-independent
check pok, and per (case, baseline): case tree = tq_marker_subst marker intended baseline tree (structural equality), i.e. the
hypothesis under which theorem traceql_request_values_keep_statement_structure speaks about the hostile request.
"""
import json
import os
import random
import re

MARKER = b"zqxmark"
SPECIAL = b"'\\\x00\n\r\x08\t\x1a"
NUMERIC_ALPHABET = set(b"0123456789+-.eEINafn")


class Ml:
    """byte strings -> atoms of the data file read by ocaml/c10tq_driver.ml (h<hex bytes>)"""

    def s(self, b):
        if isinstance(b, str):
            b = b.encode("utf8", "surrogateescape")
        return "h" + b.hex()



def vcheck_lock():
    """one process-wide lock for the counters of the check object (the three tree-level ties run side by side)"""
    import threading
    import builtins
    if not hasattr(builtins, "_c10_lock"):
        builtins._c10_lock = threading.Lock()
    return builtins._c10_lock


def ml_list(xs):
    return "(" + " ".join(xs) + ")"


def ml_opt(x, f):
    return "none" if x is None else "(some %s)" % f(x)


# ------------------------------------------------------------------ raw SQL fragments -> TqSql.expr (as checks/c11.py parse_raw)
FN = {"any": "FAny", "max": "FMax", "min": "FMin", "count": "FCount", "toFloat64": "FToFloat64", "isNotNull": "FIsNotNull",
      "toFloat64OrNull": "FToFloat64OrNull", "toFloat64OrZero": "FToFloat64OrZero", "avgIf": "FAvgIf", "maxIf": "FMaxIf",
      "minIf": "FMinIf", "sumIf": "FSumIf", "cityHash64": "FCityHash64", "unhex": "FUnhex", "groupArray": "FGroupArray",
      "groupUniqArray": "FGroupUniqArray", "argMin": "FArgMin", "lower": "FLower", "hex": "FHex", "arrayMap": "FArrayMap", "uniqExact": "FUniqExact"}
BINOP = {"%": "BMod", "+": "BAdd", "-": "BSub", "/": "BDiv"}
TOK = re.compile(r"\s*(?:(?P<id>[A-Za-z_][A-Za-z0-9_.]*)|(?P<num>[0-9]+(?:\.[0-9]+)?)|(?P<str>'[^'\\]*')|(?P<arrow>->)|(?P<p>[(),%+\-/]))")


class RawParse(Exception):
    pass


def parse_raw(s, ml):
    toks = []
    pos = 0
    while pos < len(s):
        m = TOK.match(s, pos)
        if not m or m.end() == pos:
            raise RawParse(s)
        pos = m.end()
        for k in ("id", "num", "str", "arrow", "p"):
            if m.group(k) is not None:
                toks.append((k, m.group(k)))
    i = [0]

    def peek(n=0):
        return toks[i[0] + n] if i[0] + n < len(toks) else (None, None)

    def take(k=None, v=None):
        t = peek()
        if t[0] is None or (k and t[0] != k) or (v and t[1] != v):
            raise RawParse(s)
        i[0] += 1
        return t

    def args():
        out = []
        if peek() == ("p", ")"):
            return out
        while True:
            if peek() == ("id", "distinct"):
                take()
                c, r = expr()
                out.append(("(Distinct %s)" % c, "distinct " + r))
            else:
                out.append(expr())
            if peek() == ("p", ","):
                take()
                continue
            return out

    def unary():
        k, v = peek()
        if k == "num":
            take()
            return "(NumLit %s)" % ml.s(v), v
        if k == "str":
            take()
            return "(RawStr %s)" % ml.s(v[1:-1]), v
        if k == "id":
            take()
            if peek() == ("p", "("):
                take()
                a = args()
                take("p", ")")
                fn = FN.get(v) or "(FOther %s)" % ml.s(v)
                if peek() == ("p", "("):
                    take()
                    b = args()
                    take("p", ")")
                    return ("(PFn %s %s %s)" % (fn, ml_list([x[0] for x in a]), ml_list([x[0] for x in b])),
                            "%s(%s)(%s)" % (v, ", ".join(x[1] for x in a), ", ".join(x[1] for x in b)))
                return "(Fn %s %s)" % (fn, ml_list([x[0] for x in a])), "%s(%s)" % (v, ", ".join(x[1] for x in a))
            return "(Id %s)" % ml.s(v), v
        if (k, v) == ("p", "("):
            take()
            a = args()
            take("p", ")")
            if not a:
                raise RawParse(s)
            return "(Tuple %s)" % ml_list([x[0] for x in a]), "(%s)" % ", ".join(x[1] for x in a)
        raise RawParse(s)

    def expr():
        if peek()[0] == "id" and peek(1)[0] == "arrow":
            x = take()[1]
            take()
            c, r = expr()
            return "(Lambda %s %s)" % (ml.s(x), c), "%s -> %s" % (x, r)
        c, r = unary()
        while peek()[0] == "p" and peek()[1] in BINOP:
            op = take()[1]
            c2, r2 = unary()
            c, r = "(Bin %s %s %s)" % (BINOP[op], c, c2), "%s %s %s" % (r, op, r2)
        return c, r

    c, r = expr()
    if i[0] != len(toks) or r != s:
        raise RawParse(s)
    return c


# ------------------------------------------------------------------ the parsed request (harness traceql "ast") -> model/Traceql.v script
CMP = {"=": "CEq", "!=": "CNeq", "<": "CLt", "<=": "CLe", ">": "CGt", ">=": "CGe", "=~": "CRe", "!~": "CNre"}
ANDOR = {"": "AONone", "&&": "AOAnd", "||": "AOOr"}
AGG = {"count": "AgCount", "sum": "AgSum", "min": "AgMin", "max": "AgMax", "avg": "AgAvg"}
TABLES = ["tempo_traces_attrs_gin", "tempo_traces_attrs_gin_dist", "tempo_traces", "tempo_traces_dist", "tempo_traces_kv_dist"]


def sx_value(v, ml):
    hs = lambda h: ml.s(bytes.fromhex(h))
    return "(%s %s %s %s %s %s)" % (ml.s(v["t"]), ml.s(v["f"]), ml_opt(v["s"], hs), ml_opt(v["unq"], hs), ml_opt(v["ffmt"], ml.s),
                                    ml_opt(v["dur"], lambda z: "%d" % z))


def sx_exp(e, ml):
    if (e["head"] is None) == (e["chead"] is None):
        raise Untranslatable("AttrSelectorExp with both/neither Head and ComplexHead")
    if e["head"] is not None:
        t = e["head"]
        h = "(HTerm %s %s %s)" % (ml.s(t["label"]), CMP[t["op"]], sx_value(t["val"], ml))
    else:
        h = "(HParen %s)" % sx_exp(e["chead"], ml)
    return "(AExp %s %s %s)" % (h, ANDOR[e["andor"]], ml_opt(e["tail"], lambda x: sx_exp(x, ml)))


def sx_script(q, ml):
    h = q["head"]
    a = h["agg"]
    agg = ml_opt(a, lambda a: "(%s %s %s %s %s %s %s)" % (AGG[a["fn"]], ml.s(a["attr"]), CMP[a["cmp"]], ml.s(a["num"]), ml.s(a["meas"]),
                                                         ml_opt(a["ffmt"], ml.s), ml_opt(a["durf"], ml.s)))
    return "(Script %s %s %s %s)" % (ml_opt(h["attr"], lambda x: sx_exp(x, ml)), agg, ANDOR[q["andor"]], ml_opt(q["tail"], lambda x: sx_script(x, ml)))


def sx_ctx(c, ml):
    return "(%d %d %s %s %s %s %d %s %d %d %s %s)" % (
        c["from_ns"], c["to_ns"], ml.s(c["from_date"]), ml.s(c["to_date"]), ml.s(c["ffd_from"]), ml.s(c["ffd_to"]), c["limit"],
        "t" if c["is_cluster"] else "f", c["rf_max"], c["rf_i"], ml_list([ml.s(x) for x in (c.get("cached") or [])]), " ".join(ml.s(t) for t in TABLES))


def canon(ps):
    """adjacent text pieces merged: two trees that print the same text with the same value pieces, whatever the granularity of their nodes"""
    out = []
    for k, b in ps:
        if k == "T" and out and out[-1][0] == "T":
            out[-1] = ("T", out[-1][1] + b)
        elif k == "T" and not b:
            continue
        else:
            out.append((k, b))
    return out


LOPS = {"and": "OAnd", "or": "OOr", "==": "OEq", "!=": "ONeq", "<": "OLt", "<=": "OLe", ">": "OGt", ">=": "OGe"}
JK = {"array": "JArray", "any left": "JAnyLeft"}


class Untranslatable(Exception):
    pass


def conv_tree(t, ml, kind, stats):
    """JSON tree of harness traceql -> OCaml term of the extracted TqSql.select / expr"""
    def go(t):
        if t is None:
            raise Untranslatable("nil object")
        k = t["k"]
        if k == "raw":
            try:
                return parse_raw(t["s"], ml)
            except RawParse:
                stats["raw_fallback"] = stats.get("raw_fallback", 0) + 1
                return "(Raw %s)" % ml.s(t["s"])
        if k == "str":
            return "(StrV %s)" % ml.s(bytes.fromhex(t["s"]))
        if k == "int":
            return "(IntV %d)" % int(t["v"])
        if k == "float":
            return "(FloatV %s)" % ml.s(t["s"])
        if k == "lop":
            if t["fn"] not in LOPS:
                raise Untranslatable("LogicalOp " + t["fn"])
            return "(LOp %s %s)" % (LOPS[t["fn"]], ml_list([go(x) for x in t["cl"]]))
        if k == "in":
            return "(InE %s %s)" % (go(t["l"]), ml_list([go(x) for x in t["r"]]))
        if k == "wref":
            return "(WRef %s)" % ml.s(t["alias"])
        if k == "col":
            return "(Col %s %s)" % (go(t["e"]), ml.s(t["alias"]))
        if k == "ord":
            return "(Ord %s %s)" % (go(t["e"]), "t" if t["desc"] else "f")
        if k == "bitset":
            return "(%s %s)" % (kind, ml_list([go(x) for x in t["terms"]]))
        if k == "bitand":
            return "(BitAnd %s %s)" % (go(t["l"]), go(t["r"]))
        if k == "groupbitor":
            return "(GroupBitOr %s %s)" % (go(t["e"]), ml.s(t["alias"]))
        if k == "matchre":
            return "(MatchRe %s %s)" % (go(t["field"]), ml.s(bytes.fromhex(t["re"])))
        if k == "attrvalue":
            return "(AttrValue %s)" % ml.s(bytes.fromhex(t["attr"]))
        if k == "intersect":
            return "(Intersect %s)" % ml_list([go(x) for x in t["sels"]])
        if k == "union":
            return "(Union %s)" % ml_list([go(x) for x in t["sels"]])
        if k == "select":
            if t["offset"] is not None or t["settings"]:
                raise Untranslatable("OFFSET/SETTINGS")
            withs = ml_list(["(%s %s)" % (ml.s(w["alias"]), go(w["q"])) for w in t["withs"]])
            joins = []
            for j in t["joins"]:
                if j["tp"].lower() not in JK:
                    raise Untranslatable("join " + j["tp"])
                on = None if j["tp"].lower() == "array" else j["on"]
                joins.append("(%s %s %s)" % (JK[j["tp"].lower()], go(j["table"]), ml_opt(on, go)))
            o = lambda x: ml_opt(x, go)
            return "(Sel %s %s %s %s %s %s %s %s %s %s %s)" % (
                withs, "t" if t["distinct"] else "f", ml_list([go(x) for x in t["cols"]]), o(t["from"]),
                ml_list(joins), o(t["prewhere"]), o(t["where"]), o(t["having"]),
                ml_list([go(x) for x in t["groupby"]]), ml_list([go(x) for x in t["orderby"]]), o(t["limit"]))
        raise Untranslatable("object of kind %s (%s)" % (k, t.get("type")))
    return go(t)


def bitset_kind_of(sqltext):
    return "BitSet8" if re.search(rb"bitShiftLeft\((?!toUInt64\()", sqltext) else "BitSet"


# ------------------------------------------------------------------ requests
CTXS = [
    {"from_ns": 1700000000 * 10**9, "to_ns": 1700003600 * 10**9, "limit": 20, "is_cluster": False, "rf_max": 0, "rf_i": 0, "cached": []},
    {"from_ns": 1700000000 * 10**9, "to_ns": 1700090000 * 10**9, "limit": 0, "is_cluster": True, "rf_max": 0, "rf_i": 0, "cached": []},
    # a portion of a complex request: random filter and cached trace ids (unhex('...') raw-quoted pieces)
    {"from_ns": 1700000000 * 10**9, "to_ns": 1700003600 * 10**9, "limit": 100, "is_cluster": False, "rf_max": 3, "rf_i": 1,
     "cached": ["00000000000000000123456789abcdef", "0000000000000000fedcba9876543210"]},
]

# numbers and durations written as text in the request (no quotes): the position is guarded by the TraceQL lexer; whatever it lets
# through must reach the statement as a number token only
NUM_TEMPLATES = [("tq.num.attr", "{.foo > %s}", "plan", "1"), ("tq.num.eq", "{span.foo = %s}", "plan", "1"),
                 ("tq.num.agg", '{.a="b"} | avg(.x) > %s', "plan", "1"), ("tq.num.count", '{.a="b"} | count() >= %s', "plan", "1"),
                 ("tq.dur.attr", "{duration > %s}", "plan", "1s"), ("tq.dur.agg", '{.a="b"} | max(duration) < %s', "plan", "1s"),
                 ("tq.dur.values", "{duration <= %s && .a=\"b\"}", "values", "1s")]
NUM_VALUES = ["1", "0", "1.5", "-1", "-2.5", "1e5", "1e-5", "1E5", "0x10", ".5", "1.", "1..2", "99999999999999999999", "1e999", "1_000",
              "NaN", "Inf", "-Inf", "+1", "+Inf", "1s", "1.5h", "5ms", "100us", "1µs", "10ns", "1h30m", "3d", "-5s", "1.5.5s", "1e3s", "0s",
              "9999999999h", "1'", "1--", "1--x", "1/*", "1*/", "1;", "1 OR 1=1", "1) OR (1", "1'--", "1\\", "1`", '1"', "1#", "1\x00", "1\n",
              "\u0661", "\uff11", "1\u2019", "1s'", "1s--", "1s) OR (1", "5m5", "1 s", "1,5", "1e", "e5", "--1", "- 1", "1-1", "1+1"]


def num_requests(seed, n):
    rnd = random.Random(seed)
    out = []
    for name, tmpl, mode, base in NUM_TEMPLATES:
        out.append({"site": name, "q": (tmpl % base).encode(), "mode": mode, "key": b"k", "val": base.encode(), "base": True})
    for _ in range(n):
        name, tmpl, mode, base = NUM_TEMPLATES[rnd.randrange(len(NUM_TEMPLATES))]
        v = NUM_VALUES[rnd.randrange(len(NUM_VALUES))]
        if rnd.randrange(4) == 0:
            v = v + NUM_VALUES[rnd.randrange(len(NUM_VALUES))]
        out.append({"site": name, "q": (tmpl % v).encode("utf8"), "mode": mode, "key": b"k", "val": v.encode("utf8"), "base": False})
    return out


def like_pieces(line):
    """'t <id> ok/same/flat/pieces' -> (ok, same, flat bytes, [(kind, bytes)])"""
    okf, same, flat, pcs = line.split("/")
    ps = [(pc[0], bytes.fromhex(pc[1:])) for pc in pcs.split(",") if pc]
    return okf == "1", same == "1", bytes.fromhex(flat), ps


def run(ck, pairs, tag, describe, num_queries=None):
    """pairs: list of (case record, base record) of harness sqlinject, both carrying 'tq' = {q, mode, key} (hex)."""
    if not ck.go_build("traceql"):
        ck.obligation("harness traceql (C11) builds against the repository", False, ck.build_out[-1500:])
        return
    ok, out = ck.coq_make(["model/TqPieces.vo"])
    if not ck.obligation("model/TqPieces.v builds", ok, out[-1500:]):
        return
    # ---- the request list (each distinct request once)
    reqs, rid = [], {}

    def req(q, mode, key, ctxi):
        k = (q, mode, key, ctxi)
        if k not in rid:
            rid[k] = len(reqs)
            reqs.append({"id": len(reqs), "class": "c10", "q": q.hex(), "mode": mode, "key": key.decode("utf8"),
                         "ctx": CTXS[ctxi], "calls": 1})
        return rid[k]
    plist = []
    skipped_modes = {}
    for c, b in pairs:
        tq, btq = c["tq"], b["tq"]
        # "eval" (PlanEval) since round 4: C11's harness dumps these trees too (mode added by b3-c11, b542e95)
        if tq["mode"] not in ("plan", "tags", "values", "eval") or btq["mode"] != tq["mode"]:
            skipped_modes[tq["mode"]] = skipped_modes.get(tq["mode"], 0) + 1
            continue
        try:
            bytes.fromhex(tq["key"]).decode("utf8")
        except UnicodeDecodeError:
            # harness traceql takes the key as a JSON string: bytes that are not UTF-8 cannot be handed over unchanged
            skipped_modes["key-not-utf8"] = skipped_modes.get("key-not-utf8", 0) + 1
            continue
        ctxi = (c["id"] // 7) % len(CTXS)
        ci = req(bytes.fromhex(tq["q"]), tq["mode"], bytes.fromhex(tq["key"]), ctxi)
        bi = req(bytes.fromhex(btq["q"]), btq["mode"], bytes.fromhex(btq["key"]), ctxi)
        plist.append((c, b, ci, bi))
    nums = num_requests(int(ck.seed), int(ck.n(120, 4000)) if num_queries is None else 0)
    for site, q in num_queries or []:     # replay of a "number / duration as text" request
        nums.append({"site": site, "q": q.encode("utf8", "surrogateescape"), "mode": next(m for n, _, m, _ in NUM_TEMPLATES if n == site),
                     "key": b"k", "val": b"", "base": False})
    numbase = {}
    for r in nums:
        r["rid"] = req(r["q"], r["mode"], r["key"], 0)
        if r["base"]:
            numbase[r["site"]] = r["rid"]
    inp = os.path.join(ck.work, "tq_%s_in.jsonl" % tag)
    with open(inp, "w") as f:
        for r in reqs:
            f.write(json.dumps(r) + "\n")
    outp = os.path.join(ck.work, "tq_%s_out.jsonl" % tag)
    rc, out = ck.go_run("traceql", ["--cases", inp, "--out", outp])
    if rc != 0:
        ck.obligation("harness traceql ran the TraceQL requests of the sqlinject cases", False, out[-1500:])
        return
    planned = {}
    for l in open(outp):
        o = json.loads(l)
        planned[o["id"]] = o
    # ---- trees -> OCaml
    ml = Ml()
    stats = {}
    rows, sqls, untrans, rejected = [], {}, {}, {}
    mrows, untrans_ast = [], {}
    for r in reqs:
        o = planned.get(r["id"])
        obs = (o or {}).get("obs") or []
        if not o or o.get("parse_err") or o.get("plan_err") or o.get("panic") or not obs or "sql" not in obs[0]:
            why = "parse" if (o or {}).get("parse_err") else "plan" if (o or {}).get("plan_err") else "panic" if (o or {}).get("panic") else "process"
            rejected[r["id"]] = why
            continue
        sql = bytes.fromhex(obs[0]["sql"])
        try:
            term = conv_tree(obs[0]["tree"], ml, bitset_kind_of(sql), stats)
        except Untranslatable as e:
            untrans[r["id"]] = str(e)
            continue
        sqls[r["id"]] = sql
        rows.append("T %d %s" % (r["id"], term))
        if r["mode"] == "eval":
            continue          # C11's planner model (TraceqlPlan.plan) has no evaluation entry point: real trees only
        try:
            mode = {"plan": "MSearch", "tags": "MTags"}.get(r["mode"]) or "(MValues %s)" % ml.s(r["key"])
            mrows.append("M %d %s %s %s" % (r["id"], mode, sx_ctx(o["ctx"], ml), sx_script(o["ast"], ml)))
        except (Untranslatable, KeyError, TypeError) as e:
            untrans_ast[r["id"]] = str(e)
    prow = []
    for c, b, ci, bi in plist:
        if ci in sqls and bi in sqls:
            prow.append("P %d %d %s %s" % (ci, bi, ml.s(bytes.fromhex(b["marker"])), ml.s(bytes.fromhex(c["want"]))))

    data = os.path.join(ck.work, "tq_%s_trees.txt" % tag)
    with open(data, "w") as f:
        f.write("\n".join(rows + sorted(set(prow)) + mrows) + "\n")
    txt = "let data_file = %s\n" % json.dumps(data)
    rc, out = ck.ocaml_eval("c10tq_" + tag, "ExtractC10Tq.v", "c10tq", txt, "c10tq_driver.ml")
    if rc != 0:
        ck.obligation("TraceQL trees evaluated by the extracted segmented renderer (model/TqPieces.v)", False, out[-2000:])
        return
    res, eqs, mres = {}, {}, {}
    for ln in out.splitlines():
        p = ln.split(" ")
        if p[0] == "t":
            res[int(p[1])] = like_pieces(p[2])
        elif p[0] == "m":
            mres[int(p[1])] = like_pieces(p[2]) if "/" in p[2] else p[2]
        elif p[0] == "p":
            eqs[(int(p[1]), int(p[2]))] = p[3] == "1"
    # ---- judgements
    mism, notok = [], []
    npieces = nvals = nqids = 0
    for i, sql in sqls.items():
        r = res.get(i)
        if r is None or r[2] != sql or not r[1]:
            mism.append(i)
            continue
        if not r[0]:
            notok.append(i)
        npieces += len(r[3])
        nvals += sum(1 for k, _ in r[3] if k == "L")
        nqids += sum(1 for k, _ in r[3] if k == "Q")
    qtext = lambda i: bytes.fromhex(reqs[i]["q"]).decode("utf8", "backslashreplace")
    ck.obligation("TraceQL tree-level correspondence (%s): flat(tq_pieces tree) = SQL of the real TraceQL planner, byte for byte, on %d trees dumped by harness traceql"
                  % (tag, len(sqls)), not mism and not untrans,
                  "; ".join(qtext(i)[:120] for i in mism[:3]) + " untranslatable: %s" % list(untrans.items())[:3])
    ck.obligation("every real TraceQL tree passes pok (%s): theorems traceql_statement_tokens / traceql_request_values_keep_statement_structure apply (%d trees)"
                  % (tag, len(sqls)), not notok, "; ".join(qtext(i)[:160] for i in notok[:3]))
    # the planner MODEL of C11 (model/TraceqlPlan.v: what the value-independence theorems are about) on the same requests
    mbad, nmodel = [], 0
    for i, sql in sqls.items():
        if i in mism or i in untrans_ast or reqs[i]["mode"] == "eval":
            continue
        m = mres.get(i)
        nmodel += 1
        if not isinstance(m, tuple) or m[2] != sql or not m[0] or canon(m[3]) != canon(res[i][3]):
            mbad.append((i, m if not isinstance(m, tuple) else "statement differs"))
    ck.obligation("TraceQL (%s): C11's planner model (TraceqlPlan.plan, the subject of traceql_planner_is_value_independent) plans the hostile requests into the statement and the value pieces of the real trees, and pok holds for the model's trees (%d requests)"
                  % (tag, nmodel), not mbad and not untrans_ast,
                  "; ".join("%s => %s" % (qtext(i)[:100], w) for i, w in mbad[:3]) + (" ast not translatable: %s" % list(untrans_ast.items())[:2] if untrans_ast else ""))
    if mbad:
        ck.violation({"property": "C10", "kind": "C11's TraceQL planner model and the real planners disagree on a hostile request (statement text or value pieces)",
                      "traceql": qtext(mbad[0][0]), "model": str(mbad[0][1]),
                      "broken": "correspondence model/TraceqlPlan.v vs clickhouse_transpiler on hostile strings"}, no_input=True)
    # pairs: the hostile tree is the marker tree with the marker replaced by the intended bytes in every value
    noteq, leaked, located, npairs, nobase = [], [], 0, 0, []
    by_site = {}
    for c, b, ci, bi in plist:
        if bi not in sqls:
            if ci in sqls:
                nobase.append(c)
            continue
        if ci not in sqls:
            # the real planner produced a statement in harness sqlinject but none here (or the tree was not translatable)
            if ci not in untrans:
                nobase.append(c)
            continue
        if ci in mism or bi in mism:
            continue
        npairs += 1
        want = bytes.fromhex(c["want"])
        if not eqs.get((ci, bi), False):
            noteq.append((c, ci, bi))
        found = False
        for k, body in res[ci][3]:
            if k in ("L", "Q"):
                if want and want in body:
                    found = True
            elif len(want) >= 3 and any(ch in want for ch in SPECIAL) and want in body:
                # a text piece that the marker's tree carries as well is the planner's own text
                if bi not in res or body not in set(x for kk, x in res[bi][3] if kk == "T"):
                    leaked.append((c, body))
        located += 1 if found else 0
        bs = by_site.setdefault(c["site"], [0, 0])
        bs[0] += 1
        bs[1] += 1 if found else 0
    ck.obligation("TraceQL (%s): the tree the planners build for the hostile request IS tq_marker_subst marker intended (tree for the marker), structurally, on %d (request, baseline) pairs"
                  % (tag, npairs), not noteq and not nobase,
                  "; ".join("%s vs %s" % (qtext(ci)[:100], qtext(bi)[:60]) for _, ci, bi in noteq[:3]) + (" ; no tree for: %s" % [c["site"] for c in nobase[:3]] if nobase else ""))
    ck.obligation("TraceQL (%s): no hostile request string occurs in a text piece of a real tree" % tag, not leaked,
                  "; ".join("%s in %r" % (c["site"], b[:80]) for c, b in leaked[:3]))
    # numbers / durations as text
    nacc, nbadnum = 0, []
    num_hist = {}
    for r in nums:
        i = r["rid"]
        h = num_hist.setdefault(r["site"], {"accepted": 0, "rejected": 0})
        if i not in sqls:
            h["rejected"] += 1
            continue
        h["accepted"] += 1
        if r["base"] or i in mism:
            continue
        nacc += 1
        bi = numbase[r["site"]]
        a, bb = res[i][3], res[bi][3]
        okn = len(a) == len(bb)
        if okn:
            for (k1, x1), (k2, x2) in zip(a, bb):
                if k1 != k2 or (x1 != x2 and (k1 != "T" or not set(x1) <= NUMERIC_ALPHABET)):
                    okn = False
        if not okn:
            nbadnum.append(r)
    ck.obligation("TraceQL (%s): a number or duration written as text reaches the statement as numeric text only (theorem numeric_sites_safe): %d accepted requests, same pieces as for 1 / 1s up to text over the numeric alphabet"
                  % (tag, nacc), not nbadnum, "; ".join(r["q"].decode("utf8", "backslashreplace")[:100] for r in nbadnum[:3]))
    if notok or leaked or noteq or nbadnum:
        if notok:
            q, c = qtext(notok[0]), next((describe(c) for c, b, ci, bi in plist if ci == notok[0] or bi == notok[0]), None)
        elif leaked:
            q, c = None, describe(leaked[0][0])
        elif noteq:
            q, c = qtext(noteq[0][1]), describe(noteq[0][0])
        else:
            q, c = nbadnum[0]["q"].decode("utf8", "surrogateescape"), None
        ck.violation({"property": "C10", "kind": "TraceQL: the segmented text of the real tree fails the value-independent check pok, carries request bytes in a text "
                      "piece, or is not the marker's tree with other values (model/TqPieces.v): the statement structure is not guaranteed for this request",
                      "traceql": q, "case": c, "traceql_num_site": nbadnum[0]["site"] if (nbadnum and c is None) else None})
    elif mism or untrans or nobase:
        i = mism[0] if mism else (list(untrans)[0] if untrans else None)
        ck.violation({"property": "C10", "kind": "flat(tq_pieces tree) differs from the real planner's SQL, or the tree is not translatable to model/TqSql.v",
                      "traceql": qtext(i) if i is not None else None, "case": describe(nobase[0]) if nobase else None,
                      "broken": "correspondence model/TqSql.v + model/TqPieces.v vs clickhouse_transpiler"}, no_input=True)
    t = ck.extra.setdefault("traceql_tree_level_tie", {})
    t[tag] = {"requests": len(reqs), "trees": len(sqls), "rejected_by_parser_or_planner": len(rejected), "pieces": npieces, "value_pieces": nvals,
              "raw_quoted_pieces": nqids, "pairs_request_baseline": npairs, "pairs_whose_value_is_located_in_a_value_piece": located,
              "raw_fragments_kept_as_text": stats.get("raw_fallback", 0), "requests_planned_by_the_model_TraceqlPlan": nmodel, "modes_not_dumped_by_harness_traceql": skipped_modes,
              "numbers_and_durations_as_text": num_hist, "per_site_[pairs,value_located]": by_site}
    with vcheck_lock():
        ck.coverage["evaluations"] += len(sqls) + npairs
