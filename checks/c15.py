"""C15 — query responses are always one well-formed document of the documented shape.

model/JsonStream.v transcribes the hand-written streaming encoders of the reader (flag variables
literally) as token emitters, renders tokens to bytes exactly as jsoniter does, and contains an
independent byte-level JSON reader (lexer + LL(1) parser). props/C15.v proves, for every list of
batches of rows, that the bytes are one JSON document equal to the intended document of the rows.

Correspondence (harness jsonresp): the real encoders are driven with scripted rows; inside Coq
  mismatches      : render(model tokens) <> bytes the implementation sent        (byte exact)
  spec_violations : the Coq JSON reader rejects the implementation's bytes, or the document read
                    is not the intended document of the rows (up to object member order)
Go-side cross checks: encoding/json.Valid agrees with the Coq reader on every body; encoding/json
parse compared with the rows (UTF-8 inputs); float texts parse back to the value.
"""
import binascii
import json
import os
import re
import struct


PID = "C15"


def unhex(s):
    return binascii.unhexlify(s or "")


def esc(b):
    """bytes -> field text: printable ASCII except the double quote, bar and tilde stays, the rest is ~xx"""
    if isinstance(b, str):
        b = b.encode()
    return "".join(chr(c) if (32 <= c < 127 and c not in (34, 124, 126)) else "~%02x" % c for c in b)


def float_bits(text):
    """math.Float64bits of a value the harness printed with strconv 'g' -1 (exact round trip; NaN -> the quiet NaN)"""
    try:
        x = float(text or "0")
    except ValueError:
        x = float("nan")
    return struct.unpack(">Q", struct.pack(">d", x))[0]


def hexs(s):
    return binascii.hexlify(s.encode()).decode()


def tempo_items(c):
    """the field values of the structs json.Marshal walks, as a flat list of hex items (decoded by fill_vals in model/JsonStream.v)"""
    its = []
    if c["kind"] == "trace":
        # the OTLP spans the fake service hands to the handler (toSpan of the harness): the model converts them itself
        for sp in c.get("spans") or []:
            its += [sp["tid"], sp["sid"], sp.get("pid") or "", sp["name"], hexs(str(sp["start"])), hexs(str(sp["end"]))]
            attrs = sp.get("attrs") or []
            its.append(hexs(str(len(attrs))))
            for k, kind, v in attrs:
                if kind == "d":
                    v = hexs(str(float_bits(v)))
                elif kind in ("b", "i"):
                    v = hexs(v)
                elif kind not in ("s", "y"):
                    # u (no oneof), a (array), k (key-value list), n (no value): the harness already wrote the tree as the flat
                    # token list take_oval decodes (genNested: every token hex, joined by spaces; doubles as float64 bits)
                    its += [k, hexs(kind)] + v.split(" ")
                    continue
                its += [k, hexs(kind), v]
            evs = sp.get("events") or []
            its.append(hexs(str(len(evs))))
            for t, n in evs:
                its += [hexs(t), n]
            st = sp.get("status", 0)
            its += [hexs("0"), hexs("0"), ""] if st == 0 else [hexs("1"), hexs(str(st)), hexs('boom "x"') if st == 2 else ""]
        return its
    for b in c.get("traces") or []:
        for t in b or []:
            if c["kind"] == "search":
                its += [hexs(t["tid"]), t["svc"], t["name"], hexs(str(t["start"])), hexs(str(t["dur"]))]
            else:
                d = t["dur"]
                dur = 1e-7 if d == 1 else 2.5e-9 if d == 7 else 1.5e21 if d >= 1 << 62 else d / 8      # traceDur of the harness
                bits = struct.unpack(">Q", struct.pack(">d", float(dur)))[0]
                its += [hexs(t["tid"]), t["svc"], t["name"], hexs(str(t["start"])), hexs(str(bits)), hexs(t["tid"][:16]),
                        hexs(str(t["dur"])), hexs(str(t.get("fl", 0)))]
    return its


def case_to_line(c):
    """id | kind | #labelsets { #pairs { k | v } } | #batches { #entries { fp | labelset | ts | err | msg | bits } } | #items { item } | #order { fp } | out
    (decoded by decode_case in model/JsonStream.v; the number texts are computed by the model from ts and the float bits)"""
    lsets, idx = [], {}
    f = [str(c["id"]), "vector" if c["kind"] == "shortcut" else c["kind"]]      # the canned vector(1)+vector(1) answer is a vector body
    def intern(l):
        key = json.dumps(l or [])
        if key not in idx:
            idx[key] = len(lsets)
            lsets.append(l or [])
        return idx[key]
    intern([])
    blbls = c.get("blbls") or []
    for l in blbls:
        intern(l)
    for b in c["batches"] or []:
        for e in b or []:
            intern(e.get("lbls"))
    f.append(str(len(lsets)))
    for l in lsets:
        f.append(str(len(l)))
        for k, v in l:
            f += [esc(unhex(k)), esc(unhex(v))]
    f.append(str(len(c["batches"] or [])))
    for bi, b in enumerate(c["batches"] or []):
        f.append(str(intern(blbls[bi]) if bi < len(blbls) else 0))
        f.append(str(len(b or [])))
        for e in b or []:
            f += [e["fp"], str(intern(e.get("lbls"))), str(e["ts"]), str(e.get("err", 0)),
                  esc(unhex(e["msg"])), str(float_bits(e.get("v")))]
    items = tempo_items(c) if c["kind"] in ("trace", "search", "searchql") else (c.get("items") or [])
    f.append(str(len(items)))
    f += [esc(unhex(it)) for it in items]
    order = [o for o in (c.get("order") or []) if o.isdigit()]
    f.append(str(len(order)))
    f += order
    f.append(esc(unhex(c["out"])))
    return '"' + "|".join(f) + '"'


def eval_cases(ck, name, cases):
    txt = ("From Coq Require Import List NArith ZArith Bool.\nFrom Qryn Require Import model.JsonStream.\n"
           "Import ListNotations.\nOpen Scope lb_scope.\n"
           "Definition raw : list lbytes := [\n  " + ";\n  ".join(case_to_line(c) for c in cases) + "].\n"
           "Definition res := Eval vm_compute in (let cases := decode_cases raw in\n"
           "  (Z.of_nat (undecodable raw) :: nil, mismatches cases, spec_violations cases, unreadable cases, float_disagreements cases, number_losses cases)).\n"
           "Definition U := Eval vm_compute in fst (fst (fst (fst (fst res)))).\nPrint U.\n"
           "Definition M := Eval vm_compute in snd (fst (fst (fst (fst res)))).\nPrint M.\n"
           "Definition V := Eval vm_compute in snd (fst (fst (fst res))).\nPrint V.\n"
           "Definition R := Eval vm_compute in snd (fst (fst res)).\nPrint R.\n"
           "Definition F := Eval vm_compute in snd (fst res).\nPrint F.\n"
           "Definition L := Eval vm_compute in snd res.\nPrint L.\n")
    rc, out = ck.coq_eval(name, txt)
    if rc != 0:
        return None, None, None, None, None, out
    flat = " ".join(out.split())
    res = []
    for nm in ("U", "M", "V", "R", "F", "L"):
        m = re.search(nm + r" = \[(.*?)\]\s*: list Z", flat)
        if not m:
            return None, None, None, None, None, out
        res.append([int(x) for x in re.findall(r"-?\d+", m.group(1))])
    if res[0] != [0]:
        return None, None, None, None, None, "%d case(s) could not be decoded by decode_case\n" % res[0][0] + out
    return res[1], res[2], res[3], res[4], res[5], out


def opt_case_to_chunks(c):
    """id | #streams { fp } | #batches { #runs { stream | count | err } } | #order { fp } | out   (decode_ocase in model/RespOptimizer.v);
    in pieces of about 6000 characters: one literal of several 10 KB overflows the stack of Coq's notation interpreter"""
    f = [str(c["id"]), str(len(c.get("fps") or []))] + list(c.get("fps") or [])
    f.append(str(len(c.get("runs") or [])))
    for b in c.get("runs") or []:
        f.append(str(len(b or [])))
        for s, n, e in b or []:
            f += [str(s), str(n), str(e)]
    order = c.get("order") or []
    f.append(str(len(order)))
    f += [o if o.isdigit() else "18446744073709551616" for o in order]      # an empty batch was observed: never a key of the map
    f.append(esc(unhex(c["out"])))
    line = "|".join(f)
    chunks, i = [], 0
    while i < len(line):
        j = min(len(line), i + 6000)
        while j < len(line) and "~" in line[j - 2:j]:
            j += 1
        chunks.append(line[i:j])
        i = j
    return "join_lb [" + ";\n   ".join('"%s"' % ch for ch in chunks) + "]"


OPT_NAMES = ("OU", "OM", "OV", "OS", "OP", "OW")


def eval_opt_cases(ck, cases):
    """-> dict name -> list of case ids, or an error text"""
    cases = [c for c in cases if not c.get("panic")]
    if not cases:
        return {n: [] for n in OPT_NAMES}
    txt = ("From Coq Require Import List NArith ZArith Bool.\nFrom Qryn Require Import model.JsonStream model.RespOptimizer.\n"
           "Import ListNotations.\nOpen Scope lb_scope.\n"
           "Definition raw : list lbytes := [\n  " + ";\n  ".join(opt_case_to_chunks(c) for c in cases) + "].\n"
           "Definition res := Eval vm_compute in (let cs := decode_ocases raw in\n"
           "  ([oundecodable raw], opt_mismatches cs, opt_rows_violations cs, opt_splits cs, opt_splits_predicted cs, opt_single_windows cs)).\n"
           "Definition OU := Eval vm_compute in fst (fst (fst (fst (fst res)))).\nPrint OU.\n"
           "Definition OM := Eval vm_compute in snd (fst (fst (fst (fst res)))).\nPrint OM.\n"
           "Definition OV := Eval vm_compute in snd (fst (fst (fst res))).\nPrint OV.\n"
           "Definition OS := Eval vm_compute in snd (fst (fst res)).\nPrint OS.\n"
           "Definition OP := Eval vm_compute in snd (fst res).\nPrint OP.\n"
           "Definition OW := Eval vm_compute in snd res.\nPrint OW.\n")
    rc, out = ck.coq_eval("C15_opt", txt)
    if rc != 0:
        return out[-1500:]
    flat = " ".join(out.split())
    res = {}
    for nm in OPT_NAMES:
        m = re.search(nm + r" = \[(.*?)\]\s*: list Z", flat)
        if not m:
            return out[-1500:]
        res[nm] = [int(x) for x in re.findall(r"-?\d+", m.group(1))]
    if res["OU"] != [0]:
        return "%d optimizer case(s) could not be decoded by decode_ocase" % res["OU"][0]
    return res


def describe_opt(c):
    body = unhex(c["out"]).decode("latin1")
    return {"kind": c["kind"], "class": c.get("class"), "fingerprints": c.get("fps"), "channel batches as runs (stream, rows, 1 = io.EOF markers)": c.get("runs"),
            "fingerprints of the batches the stage sent": c.get("order"), "body": body if len(body) < 1500 else body[:700] + " ... " + body[-700:]}


def judge_optimizer(ck, cases, res):
    """ResponseOptimizerPlanner -> exportStreamsValue: model bytes, rows once per stream in order, one object per stream"""
    if not cases:
        return
    panics = [c for c in cases if c.get("panic")]
    for c in panics[:1]:
        ck.violation({"property": PID, "kind": "panic in the optimizer pipeline", "case": strip_opt(c), "panic": c["panic"], "replay": "bin/check C15 --replay <this file>"})
    if isinstance(res, str):
        ck.obligation("optimizer cases evaluated inside Coq", False, res)
        return
    byid = {c["id"]: c for c in cases}
    size = lambda c: sum(n for b in c.get("runs") or [] for _, n, _ in b or [])
    ck.obligation("correspondence (ResponseOptimizerPlanner -> exportStreamsValue): render (enc_streams (optimize 3000 observed-order batches)) = bytes sent, and every "
                  "observed visiting order is a permutation of the map's keys, on %d pipelines (%d of them reach the 3000-row window)"
                  % (len(cases), sum(1 for c in cases if size(c) >= 3000)), not res["OM"] and not panics, "case ids: %s" % res["OM"][:10])
    ck.obligation("spec oracle (pipeline): the body is one streams document listing every row exactly once under its own labels, the rows of a stream in input order",
                  not res["OV"], "case ids: %s" % res["OV"][:10])
    godiff = [c["id"] for c in cases if not c.get("panic") and c["gorows"].startswith("diff")]
    ck.obligation("encoding/json reading of every pipeline body lists the rows of every stream once and in order", not godiff,
                  "%s %s" % (godiff[:10], [byid[i]["gorows"] for i in godiff[:3]]))
    gosplit = sorted(c["id"] for c in cases if c.get("gorows") == "ok+split")
    ck.obligation("the Coq reader and encoding/json agree on which pipeline bodies give a stream two objects", gosplit == sorted(res["OS"]),
                  "Go %s Coq %s" % (gosplit[:10], res["OS"][:10]))
    src = open(os.path.join(__import__("vcheck").REPO, "reader/logql/logql_transpiler_v2/internal_planner/planner_fingerprint_optimizer.go")).read()
    ck.obligation("the window of ResponseOptimizerPlanner is the model's flush_threshold (`if size < 3000 {` once, `if size == 0 {` once in the source)",
                  len(re.findall(r"if size < 3000 \{", src)) == 1 and len(re.findall(r"if size == 0 \{", src)) == 1 and len(re.findall(r"\bsize\b", src)) == 5, "")
    # one object per stream
    single = set(res["OW"])
    known = ck.known_findings()
    unexplained = [i for i in res["OS"] if i in single or i not in res["OP"]]
    explained = [i for i in res["OS"] if i not in unexplained]
    ck.obligation("one object per stream on every pipeline whose rows fit one window (fewer than 3000 rows: one_object_per_stream_optimized_partial), and wherever the model of the stage does not predict a split",
                  not unexplained, "case ids: %s" % unexplained[:10])
    ck.extra["optimizer"] = {"pipelines": len(cases), "classes": {}, "bodies with a stream in two objects": len(res["OS"]), "predicted by the model": len(res["OP"]),
                             "single window": len(single)}
    for c in cases:
        ck.extra["optimizer"]["classes"][c["class"]] = ck.extra["optimizer"]["classes"].get(c["class"], 0) + 1
    if explained:
        fid = "optimizer-window-splits-stream"
        w = min((byid[i] for i in explained), key=size)
        if fid in known:
            ck.report_known(fid, "%d of %d generated pipelines of 3000 rows or more give a stream two objects, each predicted by the model of the stage for the observed "
                                 "visiting order (none below 3000 rows), e.g. runs %s -> batches of fingerprints %s"
                            % (len(explained), sum(1 for c in cases if size(c) >= 3000), json.dumps(w.get("runs"))[:120], w.get("order")))
        else:
            ck.violation({"property": PID, "kind": "a stream is listed under two objects of the streams response", "case": strip_opt(w), "observed": describe_opt(w),
                          "explanation": "ResponseOptimizerPlanner closes a window after 3000 rows; a stream with rows on both sides of it is sent in two batches that are "
                                         "not neighbours, exportStreamsValue opens an object per batch (one_object_per_stream_optimized_refuted)",
                          "replay": "bin/check C15 --replay <this file>"})
    bad = res["OV"] or godiff or unexplained
    if bad:
        w = min((byid[i] for i in bad), key=size)
        ck.violation({"property": PID, "kind": "pipeline body does not list every row once under one object per stream", "case": strip_opt(w), "observed": describe_opt(w),
                      "explanation": "opt_rows_violation / opt_split_observed (model/RespOptimizer.v) on the bytes the real pipeline sent" if w["id"] in res["OV"] + unexplained
                      else "encoding/json reading: " + w["gorows"], "replay": "bin/check C15 --replay <this file>"})
    elif res["OM"] or gosplit != sorted(res["OS"]):
        w = min((byid[i] for i in (res["OM"] or gosplit)), key=size)
        ck.violation({"property": PID, "kind": "model of the optimizer pipeline and implementation disagree; every row is still listed once", "case": strip_opt(w),
                      "observed": describe_opt(w), "broken": "correspondence RespOptimizer.optimize + enc_streams vs pipeline bytes"}, no_input=True)
    distinct = set(c["out"] for c in cases if len(c.get("fps") or []) >= 2 and size(c) >= 3 and len(c.get("runs") or []) >= 2)
    ck.coverage["evaluations"] += len(cases)
    ck.coverage["distinct_nontrivial"] += len(distinct)
    ck.coverage["rule"] += ("optimizer pipeline: 1..4 streams, rows laid out from run lengths over random channel batches (empty batches, io.EOF markers), "
                            "small cases (0..39 rows) and cases of 2999 / 3000 / 3002 / 3500 / random 3000..3400 (thorough: 6000..6600) rows that reach the window of the stage; "
                            "non-trivial = >=2 streams, >=3 rows, >=2 batches, distinct by body. ")
    ck.add_samples([describe_opt(c) for c in cases[:1]])


def strip_opt(c):
    return {"id": c["id"], "kind": c["kind"], "class": c.get("class", ""), "fps": c.get("fps") or [], "runs": c.get("runs") or []}


def case_size(c):
    return (sum(len(b or []) for b in c["batches"] or []) + len(c.get("items") or []), len(c["out"]))


def strip_case(c):
    """the replayable part of a case (inputs only)"""
    r = {"id": c["id"], "kind": c["kind"], "class": c.get("class", ""), "items": c.get("items") or [], "blbls": c.get("blbls") or [],
         "spans": c.get("spans") or [], "traces": c.get("traces") or [],
         "batches": [[{k: e.get(k) for k in ("fp", "lbls", "ts", "msg", "v", "err")} for e in b or []] for b in c["batches"] or []]}
    if c.get("with"):
        r["with"] = strip_case(c["with"])      # the request served inside every write of this one
    return r


def describe(c):
    return {"kind": c["kind"], "class": c.get("class"), "rows": [[{"fp": e["fp"], "labels": {unhex(k).decode("latin1"): unhex(v).decode("latin1") for k, v in e.get("lbls") or []},
                                                                    "ts": e["ts"], "msg": unhex(e["msg"]).decode("latin1"), "err": e.get("err", 0)} for e in b or []] for b in c["batches"] or []],
            "items": [unhex(it).decode("latin1") for it in c.get("items") or []],
            "body": unhex(c["out"]).decode("latin1")}


def run_encoders(ck):
    if not ck.go_build("jsonresp"):
        ck.obligation("harness jsonresp builds against the repository", False, ck.build_out[-1500:])
        return
    root = os.path.dirname(os.path.dirname(__file__))
    cases = []
    corpus = os.path.join(root, "corpus", PID, "encoders.jsonl")
    if os.path.exists(corpus):
        outp = os.path.join(ck.work, "corpus.jsonl")
        rc, out = ck.go_run("jsonresp", ["--cases", corpus, "--out", outp])
        if rc != 0:
            ck.obligation("harness jsonresp ran the corpus", False, out[-1500:])
            return
        cs = [json.loads(l) for l in open(outp)]
        for i, c in enumerate(cs):
            c["id"] = 1000000 + i
            c["class"] = "corpus:" + c.get("class", "")
        cases += cs
    if ck.replay and json.load(open(ck.replay)).get("case", {}).get("kind") != "bigtrace":
        rp = json.load(open(ck.replay))
        rc_path = os.path.join(ck.work, "replay.jsonl")
        with open(rc_path, "w") as f:
            f.write(json.dumps(rp["case"]) + "\n")
        outp = os.path.join(ck.work, "replay_out.jsonl")
        rc, out = ck.go_run("jsonresp", ["--cases", rc_path, "--out", outp])
        cs = [json.loads(l) for l in open(outp)] if rc == 0 else []
        for i, c in enumerate(cs):
            c["id"] = 2000000 + i
        cases += cs
    n = ck.n(1000, 30000)
    outp = os.path.join(ck.work, "gen.jsonl")
    rc, out = ck.go_run("jsonresp", ["--seed", ck.seed, "--n", n, "--out", outp])
    if rc != 0:
        ck.obligation("harness jsonresp ran", False, out[-1500:])
        return
    cases += [json.loads(l) for l in open(outp)]
    # the stage in front of the streams encoder has its own model (model/RespOptimizer.v), transport and oracle
    opt_cases = [c for c in cases if c["kind"] == "optstreams"]
    cases = [c for c in cases if c["kind"] != "optstreams"]
    byid = {c["id"]: c for c in cases}

    panics = [c for c in cases if c.get("panic")]
    for c in sorted(panics, key=case_size)[:1]:
        ck.violation({"property": PID, "kind": "panic in encoder", "case": strip_case(c), "panic": c["panic"],
                      "replay": "bin/check C15 --replay <this file>"})
    skipped = [c for c in cases if c.get("skip")]
    ck.extra["unobserved_cases"] = len(skipped)
    ck.obligation("at most 5% of the cases could not be observed (Tail frames on a loaded machine)", len(skipped) * 20 <= len(cases),
                  "%d of %d: %s" % (len(skipped), len(cases), [c["skip"] for c in skipped[:3]]))
    ok_cases = [c for c in cases if not c.get("panic") and not c.get("skip")]

    mism, viol, unread, fdis, nloss = [], [], [], [], []
    shard = 200
    # the shards are independent coqc runs: evaluate them side by side (the number printers made a case ~2x dearer)
    from concurrent.futures import ThreadPoolExecutor
    with ThreadPoolExecutor(max_workers=8) as ex:
        opt_future = ex.submit(eval_opt_cases, ck, opt_cases)
        results = list(ex.map(lambda k: eval_cases(ck, "C15_enc_%d" % (k // shard), ok_cases[k:k + shard]), range(0, len(ok_cases), shard)))
        opt_results = opt_future.result()
    judge_optimizer(ck, opt_cases, opt_results)
    for m, v, r, fd, nl, out in results:
        if m is None:
            ck.obligation("encoder cases evaluated inside Coq", False, out[-1500:])
            return
        mism += m
        viol += v
        unread += r
        fdis += fd
        nloss += nl
    ck.obligation("correspondence: render(model tokens) = bytes sent by the implementation, on %d result sets" % len(ok_cases),
                  not mism and not panics, "mismatching case ids: %s" % mism[:10])
    ck.obligation("spec oracle: every body is one JSON document equal to the intended document of its rows", not viol,
                  "violating case ids: %s" % viol[:10])
    ck.obligation("float64(ts) and the quotients by 1e9 / 1000 of model/GoFloat.v (rne) equal Coq's IEEE 754 specification (SpecFloat.SFdiv) on every timestamp",
                  not fdis, "case ids: %s" % fdis[:10])
    ck.obligation("without loss (now proved for all timestamps: matrix_timestamp_oracle_holds, prom_timestamp_oracle_holds; still evaluated in Coq per row): a microsecond-aligned "
                  "TimestampNS in [0, 2^61) printed with %f reads back as exactly that many microseconds; a millisecond timestamp in [0, 2^43 * 1000) printed with WriteFloat64 "
                  "reads back as exactly that many milliseconds",
                  not nloss, "case ids: %s" % nloss[:10])
    # independent readers agree on validity
    unread_s = set(unread)
    disagree = [c["id"] for c in ok_cases if c["valid"] == (c["id"] in unread_s)]
    ck.obligation("the Coq JSON reader and encoding/json.Valid agree on every body", not disagree, "case ids: %s" % disagree[:10])
    has_fail = lambda c: any(e.get("err") == 2 for b in c["batches"] or [] for e in b or [])
    godiff = [c["id"] for c in ok_cases if c["gorows"].startswith("diff") and not has_fail(c)]
    ck.obligation("encoding/json parse of every body equals the rows (UTF-8 inputs)", not godiff,
                  "case ids: %s %s" % (godiff[:10], [byid[i]["gorows"] for i in godiff[:3]]))
    numloss = [c["id"] for c in ok_cases if c.get("numloss")]
    ck.obligation("float texts parse back to the value (hypothesis of the number rendering)", not numloss,
                  "case ids: %s %s" % (numloss[:10], [byid[i]["numloss"] for i in numloss[:3]]))

    bad = viol or godiff
    if bad:
        worst = min((byid[i] for i in bad), key=case_size)
        ck.violation({"property": PID, "kind": "response body is not the one well-formed document of its rows",
                      "case": strip_case(worst), "observed": describe(worst),
                      "explanation": "spec_violation (model/JsonStream.v: parse_bytes + json_eq against the intended document) rejects the bytes the real encoder sent"
                      if worst["id"] in viol else "encoding/json parse differs from the rows: " + worst["gorows"],
                      "replay": "bin/check C15 --replay <this file>"})
    elif mism or disagree or numloss or nloss:
        worst = min((byid[i] for i in (mism or disagree or numloss or nloss)), key=case_size)
        ck.violation({"property": PID, "kind": "model/implementation disagree; the body is still the intended document",
                      "case": strip_case(worst), "observed": describe(worst), "broken": "correspondence JsonStream.render vs encoder bytes"},
                     no_input=True)

    # coverage
    distinct = set()
    hist = {}
    kinds = {}
    for c in cases:
        hist[c["class"]] = hist.get(c["class"], 0) + 1
        kinds[c["kind"]] = kinds.get(c["kind"], 0) + 1
        rows = [e for b in c["batches"] or [] for e in b or [] if e.get("err", 0) == 0]
        fps = [e["fp"] for e in rows]
        nser = sum(1 for i, f in enumerate(fps) if i == 0 or fps[i - 1] != f)
        prom = c["kind"].startswith("prom") and (len(c["batches"] or []) >= 2 or len(rows) >= 2 or c["kind"] == "promerror")
        if (nser >= 2 and len(rows) >= 3 and len(c["batches"] or []) >= 2) or len(c.get("items") or []) >= 2 or prom:
            distinct.add(c["kind"] + c["out"])
    ck.coverage["evaluations"] += len(cases)
    ck.coverage["distinct_nontrivial"] += len(distinct)
    ck.coverage["rule"] += ("encoders: random result sets (0..5 series runs, fingerprints incl. 0 / 2^64-1 / repeated in separate runs, 1..4 rows per run, "
                            "labels and lines over all byte classes incl. quotes, backslashes, controls, invalid UTF-8, int64 extremes, "
                            "special floats: the number texts are computed by the model from the timestamp and the float bits), split into batches at random points with empty batches and io.EOF markers; "
                            "the same rows drive streams / matrix / vector / tail; Prometheus writers: 0..5 series with label slices (duplicate names possible) "
                            "and 0..4 points, scalar, error message; list endpoints (tempo tags / tag values, labels, series): 0..7 byte strings of the same "
                            "classes, stored label documents valid / strconv.Quote-style / truncated; tempo trace / search: 0..6 spans or traces with random "
                            "names, attributes of every kind, events, status, nil / non-nil span sets, durations in both float layouts (the struct field values are the model's input); "
                            "numfmt: 1..4 (int64, float64) pairs per case fed to the Go printers themselves: any bit pattern, powers of two and their neighbours, "
                            "denormals, the switch points 1e-6 / 1e21, half-way sixth decimals, |int64| beyond 2^53; "
                            "overlapping requests: the Prometheus, tempo and (one in four) row cases are observed a second time while another request of "
                            "the same family is served inside every Write / before every received chunk is copied (GOMAXPROCS 1: pooled streams are reused); "
                            "non-trivial = >=2 series, >=3 rows, >=2 batches (row encoders), >=2 series or points (Prometheus), >=2 items (list and "
                            "splicing endpoints); distinct by kind+body. ")
    # distribution of the numbers the printers of model/GoFloat.v were compared on
    import math
    fcls, tcls = {}, {}
    def bump(d, k):
        d[k] = d.get(k, 0) + 1
    for c in cases:
        if c["kind"] not in ("matrix", "vector", "numfmt", "prommatrix", "promvector", "promscalar"):
            continue
        for b in c["batches"] or []:
            for e in b or []:
                try:
                    x = float(e.get("v") or "0")
                except ValueError:
                    x = float("nan")
                if math.isnan(x):
                    k = "NaN"
                elif math.isinf(x):
                    k = "Inf"
                elif x == 0:
                    k = "-0" if math.copysign(1, x) < 0 else "0"
                elif abs(x) < 2.2250738585072014e-308:
                    k = "denormal"
                elif abs(x) < 1e-6:
                    k = "below 1e-6"
                elif abs(x) >= 1e21:
                    k = "from 1e21"
                elif x == int(x):
                    k = "integral"
                else:
                    k = "%d significant digits" % len(repr(abs(x)).replace(".", "").lstrip("0").split("e")[0].rstrip("0"))
                bump(fcls, k)
                t = e["ts"]
                bump(tcls, "0" if t == 0 else "negative" if t < 0 else "beyond 2^53" if t >= 1 << 53 and c["kind"].startswith("prom") else
                     "int64 extreme" if t > 5 * 10 ** 18 else "ms aligned" if t % 1000000 == 0 else "sub-ms")
    ck.extra["number_distribution"] = {"float64 values": fcls, "timestamps": tcls}
    ck.extra["input_classes"] = hist
    ck.extra["input_distribution"] = {"kinds": kinds, "classes": hist}
    ck.extra["go_rows_checked"] = sum(1 for c in ok_cases if c["gorows"] == "ok")
    ck.add_samples([describe(c) for c in cases[:3]])


BIG_SRC = "reader/controller/tempoController.go"


def judge_big(c):
    """independent judgement of one bigtrace case (Python's json parser over the body file); None = fine"""
    o = c.get("big_out") or {}
    if c.get("panic"):
        return "the handler panicked: " + c["panic"]
    if o.get("body_file"):
        body = open(o["body_file"], "rb").read()
    else:
        body = unhex(c.get("out") or "")
    n = o.get("n", -1)
    if o.get("code") not in (0, 200):
        return "status %s" % o.get("code")
    try:
        doc = json.loads(body.decode("utf-8"))
    except Exception as e:
        return "the %d-byte body is not one JSON document: %s" % (len(body), e)
    try:
        rs = doc["resourceSpans"]
        assert isinstance(doc, dict) and list(doc) == ["resourceSpans"] and len(rs) == 1 and sorted(rs[0]) == ["instrumentationLibrarySpans", "resource"]
        assert rs[0]["resource"] == {"attributes": [{"key": "collector", "value": {"stringValue": "qryn"}}]}
        ils = rs[0]["instrumentationLibrarySpans"]
        assert len(ils) == 1 and list(ils[0]) == ["spans"]
        spans = ils[0]["spans"]
    except Exception:
        return "the document does not have the shape {resourceSpans:[{resource, instrumentationLibrarySpans:[{spans:[...]}]}]}"
    ids = [sp.get("spanID") if isinstance(sp, dict) else None for sp in spans]
    want = ["%016x" % (i + 1) for i in range(n)]
    if ids != want:
        k = next((i for i in range(min(len(ids), len(want))) if ids[i] != want[i]), min(len(ids), len(want)))
        return "the spans array holds %d spans, the trace has %d; first difference at position %d (span id %s)" % (len(ids), n, k, ids[k] if k < len(ids) else "missing")
    if any(sp.get("spanId") != sp.get("spanID") for sp in spans):
        return "spanId and spanID differ"
    if not c.get("valid"):
        return "encoding/json.Valid rejects the body"
    if c.get("gorows") != "ok":
        return "encoding/json parse differs from the spans: %s" % c.get("gorows")
    if not o.get("exact"):
        return "the body is not frame header ++ spans joined by ',' ++ frame footer: first difference at byte %d" % o.get("diff_at", -1)
    return None


def big_observed(c, why):
    o = dict(c.get("big_out") or {})
    for k in ("got", "want", "frame"):
        if o.get(k):
            o[k] = unhex(o[k]).decode("latin1")
    o.pop("body_file", None)
    return {"what": why, "spans": o.get("n"), "body_bytes": o.get("body_len"),
            "body around the first difference from the intended document": o.get("got"), "intended there": o.get("want"), "detail": o}


def run_big_traces(ck, replay_case=None):
    """TempoController.Trace, JSON branch, on traces that cross every integer constant of the controller's source"""
    import vcheck
    bdir = os.path.join(ck.work, "bigtrace")
    os.makedirs(bdir, exist_ok=True)
    env = {"VERIF_BIGTRACE_DIR": bdir}
    outp = os.path.join(ck.work, "bigtrace.jsonl")
    cases = []
    root = os.path.dirname(os.path.dirname(__file__))
    extra = []
    corpus = os.path.join(root, "corpus", PID, "bigtrace.jsonl")
    if os.path.exists(corpus):
        for i, l in enumerate(open(corpus)):
            if l.strip():
                c = json.loads(l)
                c["id"], c["class"] = 31000000 + i, "corpus:" + c.get("class", "")
                extra.append(c)
    if replay_case is not None:
        rc_ = dict(replay_case)
        rc_["id"] = 32000000
        extra.append(rc_)
    if extra:
        inp = os.path.join(ck.work, "bigtrace_in.jsonl")
        with open(inp, "w") as f:
            for c in extra:
                f.write(json.dumps(c) + "\n")
        rc, out = ck.go_run("jsonresp", ["--cases", inp, "--out", outp + ".c"], env_extra=env)
        if rc != 0:
            ck.obligation("harness jsonresp ran the big-trace corpus", False, out[-1500:])
            return
        cases += [json.loads(l) for l in open(outp + ".c")]
    env2 = dict(env)
    env2["VERIF_BIGTRACE_SRC"] = os.path.join(vcheck.REPO, BIG_SRC)
    rc, out = ck.go_run("jsonresp", ["--seed", ck.seed, "--out", outp], env_extra=env2)
    if rc != 0:
        ck.obligation("harness jsonresp ran the big traces", False, out[-1500:])
        return
    cases += [json.loads(l) for l in open(outp)]
    bad = []
    for c in cases:
        why = judge_big(c)
        if why:
            bad.append((c, why))
    ck.obligation("big traces: the JSON body of /api/traces/{id} is one document of the Tempo shape holding every span once, in order, byte for byte the frame of the empty "
                  "trace around the marshalled spans joined by ',' - on %d traces of up to %d spans / %d bytes whose size crosses every integer constant of %s"
                  % (len(cases), max(c["big_out"]["n"] for c in cases), max(c["big_out"]["body_len"] for c in cases), BIG_SRC),
                  not bad, "; ".join("%s: %s" % (c["class"], w) for c, w in bad[:3]))
    # reach: every byte threshold was crossed with spans on both sides, the exact recipes hit their size
    gen = [c for c in cases if c["id"] < 31000000]
    targets = {}
    inexact = []
    for c in gen:
        b, o = c["big"], c["big_out"]
        if b.get("target"):
            t = targets.setdefault(b["target"], {"cases": 0, "crossed": 0})
            t["cases"] += 1
            if o["counted"] >= b["target"] - 1 and 0 <= o["boundary"] < o["n"] - 1:      # counted = the size right after the boundary span
                t["crossed"] += 1
            if b["target"] >= 1024 and "exact" in c["class"] and o["counted"] != b["target"] + b["delta"]:
                inexact.append(c["class"])
    ck.obligation("big traces: every size threshold is reached in the middle of a trace (spans follow the one that reaches it), and the recipes aimed at threshold-1 / threshold / threshold+1 "
                  "(counting span texts / + commas / + header) hit that size exactly", bool(targets) and all(t["crossed"] == t["cases"] for t in targets.values()) and not inexact,
                  "%s inexact %s" % ({k: v for k, v in targets.items() if v["crossed"] != v["cases"]}, inexact[:3]))
    hist = {}
    for c in gen:
        k = re.sub(r" (exact|three times|every span larger)$", "", c["class"])
        hist[k] = hist.get(k, 0) + 1
    ck.extra["big_traces"] = {"cases": len(cases), "thresholds": hist, "bytes_total": sum(c["big_out"]["body_len"] for c in cases),
                              "max_spans": max(c["big_out"]["n"] for c in cases)}
    ck.coverage["evaluations"] += len(cases)
    ck.coverage["distinct_nontrivial"] += len(set((c["big_out"]["n"], c["big_out"]["body_len"]) for c in cases if c["big_out"]["n"] >= 2))
    ck.coverage["rule"] += ("big traces: per integer constant of tempoController.go (read with go/parser: literals, named constants, arithmetic; plus 4096 / 65536 / 262144 bytes and "
                            "2000 spans whatever the source says) traces whose span texts reach constant-1 / constant / constant+1 bytes exactly (three ways of counting) with 1..3 spans "
                            "after, a trace of random spans crossing it three times, spans each larger than it, and traces of constant-1 / constant / constant+1 / 2*constant+1 spans; "
                            "spans drawn by the generator of the small trace cases. ")
    if bad:
        c, why = min(bad, key=lambda cw: cw[0]["big_out"].get("body_len", 0))
        ck.violation({"property": PID, "kind": "response body is not the one well-formed document of its rows",
                      "case": {"kind": "bigtrace", "class": c["class"], "big": c["big"]}, "observed": big_observed(c, why),
                      "explanation": "GET /api/traces/{traceId} (JSON) for the trace of this recipe (harness/cmd/jsonresp/bigtrace.go: expandBig draws the spans from the seed): " + why,
                      "replay": "bin/check C15 --replay <this file>"})


POOL_DIRS = ["reader/controller", "reader/service"]
POOL_ALLOW = set()      # "file:func" entries judged harmless by hand (none)


def run_pool_order(ck):
    """generated obligation: nothing is used after it was handed back to a pool (source order, go/ast)"""
    import vcheck
    if not ck.go_build("poolorder"):
        ck.obligation("poolorder builds", False, ck.build_out[-800:])
        return
    rc, out = ck.go_run("poolorder", [os.path.join(vcheck.REPO, d) for d in POOL_DIRS])
    try:
        res = json.loads(out.strip().splitlines()[-1])
    except Exception:
        ck.obligation("poolorder ran", False, out[-800:])
        return
    bad = [v for v in res["violations"] if "%s:%s" % (os.path.basename(v["file"]), v["func"]) not in POOL_ALLOW]
    ck.extra["pool_order"] = {"files": res["files"], "explicit_give_back_sites": res["sites"], "deferred": res["deferred"]}
    ck.obligation("pool order: no pooled stream (or slice of its Buffer()) is used after it was given back, in %s (%d explicit + %d deferred sites)"
                  % (", ".join(POOL_DIRS), res["sites"], res["deferred"]), not bad and res["sites"] + res["deferred"] > 0,
                  "; ".join("%s:%d %s: %s" % (os.path.relpath(v["file"], vcheck.REPO), v["line"], v["func"], v["what"]) for v in bad[:5]))


def run_tail_frames(ck):
    """generated obligation: every literal text frame the Tail websocket handler sends is the model's empty Tail frame"""
    import vcheck
    src = open(os.path.join(vcheck.REPO, "reader/controller/queryRangeController.go")).read()
    lits = re.findall(r"WriteMessage\(ws\.TextMessage,\s*\[\]byte\(`([^`]*)`\)\)", src)
    dyn = re.findall(r"WriteMessage\(ws\.TextMessage,\s*\[\]byte\((?!`)([^)]*)\)\)", src)
    ck.extra["tail_frames"] = {"literal": lits, "dynamic": dyn}
    ck.obligation("Tail websocket: the only literal frame is the keep-alive {\"streams\":[]} (= render (enc_tail cur_hdr []), Example tail_keepalive_frame); "
                  "every other frame is one QueryRangeOutput.Str of the service", lits == ['{"streams":[]}'] and dyn == ["str.Str"],
                  "literal %s dynamic %s" % (lits, dyn))


def run_source_facts(ck):
    """generated obligations on source text the theorems lean on"""
    import vcheck
    src = open(os.path.join(vcheck.REPO, "reader/traceql/transpiler/clickhouse_transpiler/traces_data.go")).read()
    expr = "toFloat64(max(traces.timestamp_ns + traces.duration_ns) - min(traces.timestamp_ns)) / 1000000"
    ck.obligation("TraceQL durationMs is an Int64 expression converted with toFloat64 and divided by 1000000 (finite for every Int64: traceql_duration_always_finite), "
                  "and only its min() reaches the result column",
                  src.count('"%s", "_duration_ms"' % expr) == 1 and src.count('sql.NewSimpleCol("min(_duration_ms)", "duration_ms")') == 1
                  and len(re.findall(r"_duration_ms|duration_ms", src)) >= 2, "expression not found in traces_data.go")
    rp = open(os.path.join(vcheck.REPO, "reader/traceql/transpiler/reqest_processor.go")).read()
    ck.obligation("TraceInfo.DurationMs is the scanned Float64 column, nothing else is assigned to it",
                  len(re.findall(r"DurationMs:\s+traceDurationMs,", rp)) == 1 and len(re.findall(r"\bDurationMs\b", rp)) == 1
                  and len(re.findall(r"traceDurationMs\s+float64", rp)) == 1, "")
    ctl = open(os.path.join(vcheck.REPO, "reader/controller/queryRangeController.go")).read()
    m = re.search(r"case str, ok := <-watcher\.GetRes\(\):\s*if !ok \{(?:\s*//[^\n]*)*\s*return\s*\}", ctl)
    ck.obligation("Tail websocket: when the service channel is closed the handler returns (no frame is written from the zero value of a closed channel; repaired in 5d78c0a)",
                  m is not None and ctl.count("<-watcher.GetRes()") == 1, "")


def run_canned_bodies(ck):
    """generated obligation: the literal bodies of the label service are the model's bodies of no item (Example canned_label_bodies)"""
    import vcheck
    src = open(os.path.join(vcheck.REPO, "reader/service/queryLabelsService.go")).read()
    whole = [l for l in re.findall(r'res <- (`[^`]*`|"(?:[^"\\]|\\.)*")', src)]
    def unq(l):
        return l[1:-1] if l.startswith("`") else json.loads(l)
    lits = sorted(set(unq(l) for l in whole))
    want = sorted(['{"status": "success","data": [', ",", "]}", '{"status": "success","data": []}',
                   '{"status":"success", "data":[]}', '{"status":"success", "data":[', "]}"])
    ck.extra["label_service_literals"] = lits
    ck.obligation("label service: the literal chunks it sends are the model's (envelopes of enc_labels / enc_series, the comma, and the two canned empty bodies)",
                  lits == sorted(set(want)), "found %s" % lits)


def run(ck):
    ck.trusted += [
        "C15: jsoniter's Stream API is modelled by render (tokens -> bytes) and checked byte-exactly by the correspondence; encoding/json's string escaper, "
        "struct walk and float layout are modelled (gojson_quote, tokensJ_of, gojson_float_text) and compared byte-exactly with json.Marshal on every tempo case",
        "C15: the Go number printers (fmt %f, strconv.FormatFloat 'f' -1, WriteFloat64, %d) and float64(int64)/1e9, /1000 are modelled in model/GoFloat.v; tied by "
        "byte-exact comparison on every case and on arbitrary float64 bit patterns (kind numfmt), and to Coq's SpecFloat for the quotients",
        "C15: Go map iteration order is read back from the body (accepted only when it is a permutation of the input keys)",
        "C15: /series: the decoding of a stored label text that is not JSON (strconv.Unquote fallback of storedLabels) is an input of the model; texts that are "
        "JSON objects of strings are decoded by the Coq reader itself",
        "C15: protojson's encoder, encoding/json's struct walk of FlamebearerProfileV1 and strconv.Quote (ASCII) are modelled in model/JsonPyro.v and compared byte-exactly "
        "with the real handlers on every case, for the detrand coin the harness binary happens to have; map key order of encoding/json is supplied sorted by the harness",
        "C15: google.golang.org/protobuf proto.Unmarshal / deterministic proto.Marshal as the reader of the protobuf Trace body and for the per-span byte comparison (harness tracepb)",
        "C15: ResponseOptimizerPlanner: the order in which Go visits its map is observed between the stage and the encoder (accepted only when it is a permutation of the "
        "keys); the constant 3000 and the two size tests are compared with the source text",
        "C15: TraceQL durationMs: that ClickHouse evaluates toFloat64(Int64)/1000000 as the IEEE conversion and division (the SQL expression text is compared with the source)",
    ]
    # the .vo files the case evaluations load must be current before anything runs; the fresh compile of props/C15.v that
    # prints the assumptions of its ~110 theorems (0.45 s each) then runs beside the harnesses and case evaluations
    ck.coq_make(["props/%s.vo" % PID])
    import threading
    def props_job():
        try:
            ck.coq_props()
        except Exception as e:      # an exception in a thread would otherwise only be printed
            ck.obligation("props/C15.v compiled and the assumptions of its theorems were read", False, repr(e))
    props_thread = threading.Thread(target=props_job)
    props_thread.start()
    try:
        run_rest(ck)
    finally:
        props_thread.join()


def run_rest(ck):
    run_tail_frames(ck)
    run_canned_bodies(ck)
    run_source_facts(ck)
    run_pool_order(ck)
    if not ck.go_build("jsonresp"):
        ck.obligation("harness jsonresp builds against the repository", False, ck.build_out[-1500:])
        return
    rp_case = None
    if ck.replay:
        rp_case = json.load(open(ck.replay)).get("case", {})
        rp_case = rp_case if rp_case.get("kind") == "bigtrace" else None
    # the big traces need no Coq evaluation: judged beside the encoder shards
    import threading
    def big_job():
        try:
            run_big_traces(ck, rp_case)
        except Exception as e:
            ck.obligation("big traces ran and were judged", False, repr(e))
    big_thread = threading.Thread(target=big_job)
    big_thread.start()
    try:
        run_encoders(ck)
    finally:
        big_thread.join()
    import importlib.util
    spec = importlib.util.spec_from_file_location("c15_pyro", os.path.join(os.path.dirname(os.path.abspath(__file__)), "c15_pyro.py"))
    c15_pyro = importlib.util.module_from_spec(spec)
    spec.loader.exec_module(c15_pyro)
    c15_pyro.run_pyro(ck)
    spec = importlib.util.spec_from_file_location("c15_tracepb", os.path.join(os.path.dirname(os.path.abspath(__file__)), "c15_tracepb.py"))
    c15_tracepb = importlib.util.module_from_spec(spec)
    spec.loader.exec_module(c15_tracepb)
    c15_tracepb.run_tracepb(ck)
